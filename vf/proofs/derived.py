"""C06 (and C02 composition): from a pending view to the materialised array.

* RaggedView.get_shape / RaggedView2.get_shape: the shape of the materialised rows is wf with the view's lengths.
* RaggedView2._get_flat_indices / RaggedView.get_flat_indices: establish build_indices' precondition and return its
  result (build_indices is replaced by its contract, proved in vf.proofs.indices).
* IndexableArray.__getitem__: dispatch - a row / column selection becomes a new array over the SAME buffer with
  the selected view (lazy), an (addresses, shape) result is gathered into a FRESH buffer, an (addresses, None)
  result is a plain numpy gather.
"""
import numpy as np
import z3

from .base import Family, register, model_int
from .ragged import sym_shape, sym_view, sym_view2, sym_ragged
from ..sym.core import SInt, cur, fresh_name
from ..sym.arr import SymArr, I, dim_term
from ..sym.theory import prefix_sum


@register
class ViewGetShape(Family):
    name = "RaggedView.get_shape"
    qualname = "npstructures.raggedshape:RaggedView.get_shape"
    serves = ["C06", "C02", "C08", "C19"]
    assumed = ["numpy.cumsum(out=strided view)"]

    def kinds(self):
        return ["default"]

    def run(self, ctx, kind):
        v = sym_view(ctx)
        ctx.add_index(v.n - 1, v.n)
        sh = v.obj.get_shape()
        n = v.n
        ctx.prove("post.n_rows", z3.Implies(n > 0, I(sh.n_rows) == n))
        r = v.row()
        ctx.add_index(r + 1, r - 1)
        ctx.prove("post.lengths[r]==L(r)", sh.lengths.get(r) == v.L(r))
        ctx.prove("post.starts[0]==0", z3.Implies(n > 0, sh.starts.get(0) == 0))
        ctx.prove("post.starts[r+1]==starts[r]+L(r)", z3.Implies(r + 1 < n, sh.starts.get(r + 1) == sh.starts.get(r) + v.L(r)))
        ctx.prove("post.view untouched", z3.BoolVal(v.obj._codes.buf.writes == 0))


class _FlatIdxBase(Family):
    serves = ["C06", "C02", "C03", "C08", "C19"]
    assumed = ["callee contract raggedshape.build_indices (proved in vf.proofs.indices)"]

    def stub_build(self, ctx, rec):
        import npstructures.raggedshape as rs

        def build_stub(view, to_shape, step):
            rec["args"] = (view, to_shape, step)
            return "INDICES", to_shape
        old = rs.build_indices
        rs.build_indices = build_stub
        return rs, old


@register
class View2FlatIndices(_FlatIdxBase):
    name = "RaggedView2._get_flat_indices"
    qualname = "npstructures.raggedshape:RaggedView2._get_flat_indices"

    def extra_functions(self):
        return ["RaggedView2.get_shape", "RaggedShape.__init__", "RaggedView2.ends", "RaggedView2.get_flat_indices"]

    def run(self, ctx, kind):
        v = sym_view2(ctx)
        rec = {}
        rs, old = self.stub_build(ctx, rec)
        try:
            out = v.obj.get_flat_indices()
        finally:
            rs.build_indices = old
        if "args" not in rec:
            ctx.prove("post.no rows: empty index array", z3.And(v.n == 0, z3.BoolVal(len(out[0]) == 0)))
            return
        view, shape, step = rec["args"]
        ctx.prove("post.returns build_indices' result", z3.BoolVal(out[0] == "INDICES" and out[1] is shape and view is v.obj))
        ctx.prove("pre(build_indices).step is the column step", I(step) == v.step)
        r = v.row()
        ctx.add_index(r + 1, r - 1, z3.IntVal(0))
        ctx.prove("pre(build_indices).shape lengths are the view's", z3.And(shape.lengths.get(r) == v.L(r), I(shape.n_rows) == v.n))
        ctx.prove("pre(build_indices).shape is well formed", z3.And(shape.starts.get(0) == 0, z3.Implies(
            r + 1 < v.n, shape.starts.get(r + 1) == shape.starts.get(r) + v.L(r))))
        ctx.prove("pre(build_indices).ends", z3.Implies(v.L(r) > 0, view.ends.get(r) == v.S(r) + (v.L(r) - 1) * v.step + 1))
        ctx.prove("pre(build_indices).starts", view.starts.get(r) == v.S(r))


@register
class ViewFlatIndices(_FlatIdxBase):
    name = "RaggedView.get_flat_indices"
    qualname = "npstructures.raggedshape:RaggedView.get_flat_indices"

    def extra_functions(self):
        return ["RaggedView.get_shape", "ViewBase.ends", "ViewBase.empty_rows_removed"]

    def run(self, ctx, kind):
        v = sym_view(ctx)
        rec = {}
        rs, old = self.stub_build(ctx, rec)
        try:
            out = v.obj.get_flat_indices()
        finally:
            rs.build_indices = old
        if "args" not in rec:
            ctx.prove("post.no rows: empty index array", z3.And(v.n == 0, z3.BoolVal(len(out[0]) == 0)))
            return
        view, shape, step = rec["args"]
        ctx.prove("post.returns build_indices' result", z3.BoolVal(out[0] == "INDICES" and out[1] is shape and view is v.obj and step is None))
        r = v.row()
        ctx.add_index(r + 1, r - 1)
        ctx.prove("pre(build_indices).shape lengths are the view's", shape.lengths.get(r) == v.L(r))
        ctx.prove("pre(build_indices).shape is well formed", z3.And(shape.starts.get(0) == 0, z3.Implies(
            r + 1 < v.n, shape.starts.get(r + 1) == shape.starts.get(r) + v.L(r))))
        ctx.prove("pre(build_indices).ends (step 1)", view.ends.get(r) == v.S(r) + (v.L(r) - 1) * 1 + 1)


@register
class GetItemDispatch(Family):
    name = "IndexableArray.__getitem__"
    qualname = "npstructures.raggedarray.indexablearray:IndexableArray.__getitem__"
    serves = ["C02", "C06", "C10"]
    assumed = ["callee contract IndexableArray._get_row_subset (its pieces are the C02 families)"]

    def kinds(self):
        return ["view", "addresses+shape", "addresses only", "not implemented"]

    def run(self, ctx, kind):
        from npstructures.raggedarray.indexablearray import IndexableArray
        from npstructures.raggedshape import RaggedView2
        g = sym_ragged(ctx)
        ra = g.ra
        m = z3.Int("m")
        ctx.assume(m >= 0)
        addr = SymArr.symbolic("addr", m, "int", assume_len=False)
        size = g.S(g.n)
        ctx.assume_forall("addresses inside the buffer", lambda t: z3.Implies(z3.And(0 <= t, t < m), z3.And(0 <= addr.fn(t), addr.fn(t) < size)))
        sub = sym_shape(ctx, "sel")
        view = RaggedView2(SymArr.symbolic("vs", 2, "int"), SymArr.symbolic("vl", 2, "int"))
        ret = {"view": view, "addresses+shape": (addr, sub.obj), "addresses only": (addr, None), "not implemented": NotImplemented}[kind]
        old = IndexableArray.__dict__["_get_row_subset"]
        IndexableArray._get_row_subset = lambda self_, index, do_split=False: ret
        try:
            try:
                out = ra["ANY"]
            except NotImplementedError:
                ctx.prove("post.unsupported index refused", z3.BoolVal(kind == "not implemented"))
                return
        finally:
            IndexableArray._get_row_subset = old
        ctx.prove("post.supported index answered", z3.BoolVal(kind != "not implemented"))
        if kind == "view":
            ctx.prove("post.lazy selection: same buffer, the selected view, not contiguous",
                      z3.BoolVal(out._RaggedBase__data is g.D and out._shape is view and out.is_contigous is False and type(out) is type(ra)))
        elif kind == "addresses+shape":
            t = z3.Int("t")
            ctx.skolem(z3.And(0 <= t, t < m))
            ctx.add_index(t)
            data = out._RaggedBase__data
            ctx.prove("post.gathered cells", data.get(t) == g.D.fn(addr.fn(t)))
            ctx.prove("post.fresh buffer with the selection's shape", z3.BoolVal(data.buf is not g.D.buf and out._shape is sub.obj))
        else:
            t = z3.Int("t")
            ctx.skolem(z3.And(0 <= t, t < m))
            ctx.add_index(t)
            ctx.prove("post.plain gather", out.get(t) == g.D.fn(addr.fn(t)))
        ctx.prove("frame.source buffer not written", z3.BoolVal(g.D.buf.writes == 0))
