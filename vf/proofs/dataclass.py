"""C18: an npdataclass keeps its columns aligned.

Fields are symbolic 1-D arrays of abstract elements with symbolic lengths; the number of fields k is concrete
(k in {1, 2, 3}: the loop over the fields is a Python loop over a concrete tuple and is executed completely).
VarLenArray.concatenate is verified for 2 and 3 operands with all row counts and widths symbolic."""
import dataclasses
import numpy as np
import z3

from .base import Family, register, model_int
from .rowsel import make_selector
from .colslice import SL_KINDS
from ..sym.core import SInt, cur, fresh_name
from ..sym.arr import SymArr, I, dim_term, ElemSort, nonzero_facts

_CLASSES = {}


def dc_class(k):
    from npstructures.npdataclasses import npdataclass
    if k not in _CLASSES:
        ns = {"__annotations__": {f"f{i}": np.ndarray for i in range(k)}}
        base = type(f"Table{k}", (), ns)
        _CLASSES[k] = npdataclass(base)
    return _CLASSES[k]


def fields(ctx, k, same=True):
    n = z3.Int("n")
    ctx.assume(n >= 0)
    out, lens = [], []
    for i in range(k):
        ni = n if same else z3.Int(f"n{i}")
        if not same:
            ctx.assume(ni >= 0)
        out.append(SymArr.symbolic(f"f{i}", ni, "elem", np.int64, assume_len=False))
        lens.append(ni)
    return n, out, lens


@register
class DcInit(Family):
    name = "npdataclass.__init__"
    qualname = "npstructures.npdataclasses:NpDataClass._assert_same_lens"
    serves = ["C18"]

    def kinds(self):
        return ["k1", "k2", "k3"]

    def extra_functions(self):
        return ["npdataclass.FinalClass.__init__", "NpDataClass._implicit_format_conversion", "shallow_tuple", "NpDataClass.__len__"]

    def run(self, ctx, kind):
        k = int(kind[1:])
        cls = dc_class(k)
        n, fs, lens = fields(ctx, k, same=False)
        equal = z3.And(*[lens[0] == l for l in lens[1:]]) if k > 1 else z3.BoolVal(True)
        try:
            obj = cls(*fs)
        except AssertionError:
            ctx.prove("raises=>field lengths differ", z3.Not(equal))
            return
        ctx.prove("returns=>all field lengths equal", equal)
        from ..sym.symnp import sym_len
        ctx.prove("post.len==common length", I(sym_len(obj)) == lens[0])
        for i in range(k):
            ctx.prove(f"post.field {i} kept", z3.BoolVal(getattr(obj, f"f{i}") is fs[i]))


@register
class DcGetItem(Family):
    """obj[sel]: every field is indexed with the same selector: entry t of the result is entry sel(t) of every field"""
    name = "NpDataClass.__getitem__"
    qualname = "npstructures.npdataclasses:NpDataClass.__getitem__"
    serves = ["C18"]

    def kinds(self):
        return [f"k{k}:{s}" for k in (1, 2, 3) for s in ["int", "intarray", "mask"] + ["slice:" + x for x in ("NNN", "SSS", "SNS", "NSN")]]

    def run(self, ctx, kind):
        ks, sk = kind.split(":", 1)
        k = int(ks[1:])
        cls = dc_class(k)
        n, fs, lens = fields(ctx, k, same=True)
        obj = cls(*fs)
        selector, m, sel, valid = make_selector(ctx, sk, n)
        try:
            out = obj[selector]
        except IndexError:
            if valid is None:
                raise
            if isinstance(valid, tuple):
                _, mm, cond = valid
                ctx.assume_forall("all valid", lambda t: z3.Implies(z3.And(0 <= t, t < mm), cond(t)))
                ctx.prove("raises=>some index out of range", z3.BoolVal(False))
            else:
                ctx.prove("raises=>index out of range", z3.Not(valid))
            return
        if sk == "int":
            ctx.prove("post.single entry class", z3.BoolVal(type(out) is cls._single_entry))
            for i in range(k):
                v = getattr(out, f"f{i}")
                ctx.prove(f"post.field {i} == field[i]", v.t == fs[i].fn(sel(0)))
            return
        ctx.prove("post.same class", z3.BoolVal(type(out) is cls))
        if sk == "mask":
            nz = nonzero_facts(selector, "post")
            m, sel = nz.cnt, (lambda r: nz.pos(r))
        t = z3.Int("t")
        ctx.skolem(z3.And(0 <= t, t < m))
        ctx.add_index(t, sel(t))
        for i in range(k):
            col = getattr(out, f"f{i}")
            ctx.prove(f"post.len(field {i})==m", dim_term(col.shape_[0]) == m)
            ctx.prove(f"post.field {i}[t]==field[sel(t)]", col.get(t) == fs[i].fn(sel(t)))


@register
class DcConcatEqAstype(Family):
    name = "NpDataClass.__array_function__/__eq__/astype"
    qualname = "npstructures.npdataclasses:NpDataClass.__array_function__"
    serves = ["C18"]

    def kinds(self):
        return ["concat:k2:2", "concat:k2:3", "concat:k3:2", "eq:k2", "astype:k3", "iter:k2"]

    def run(self, ctx, kind):
        from ..sym.symnp import SYMNP
        parts = kind.split(":")
        if parts[0] == "concat":
            k, nobj = int(parts[1][1:]), int(parts[2])
            cls = dc_class(k)
            objs, allf, ns = [], [], []
            for o in range(nobj):
                no = z3.Int(f"len{o}")
                ctx.assume(no >= 0)
                fs = [SymArr.symbolic(f"o{o}f{i}", no, "elem", np.int64, assume_len=False) for i in range(k)]
                objs.append(cls(*fs))
                allf.append(fs)
                ns.append(no)
            out = objs[0].__array_function__(SYMNP.concatenate, (cls,), (objs,), {})
            ctx.prove("post.handled", z3.BoolVal(out is not NotImplemented and type(out) is cls))
            total = sum(ns[1:], ns[0])
            t = z3.Int("t")
            ctx.skolem(z3.And(0 <= t, t < total))
            for i in range(k):
                col = getattr(out, f"f{i}")
                ctx.prove(f"post.len(field {i})", dim_term(col.shape_[0]) == total)
                off = z3.IntVal(0)
                exp = None
                for o in range(nobj - 1, -1, -1):
                    lo = sum(ns[:o], z3.IntVal(0))
                    val = allf[o][i].fn(t - lo)
                    exp = val if exp is None else z3.If(t < lo + ns[o], val, exp)
                ctx.prove(f"post.field {i}[t] is the t-th entry of the objects in order", col.get(t) == exp)
        elif parts[0] == "eq":
            cls = dc_class(2)
            n, fs, _ = fields(ctx, 2)
            a = cls(*fs)
            g0 = SymArr.symbolic("g0", n, "elem", np.int64, assume_len=False)
            g1 = SymArr.symbolic("g1", n, "elem", np.int64, assume_len=False)
            b = cls(g0, g1)
            r = a == b
            eq = lambda u, v: z3.Function("U_equal_Ele_Ele", ElemSort, ElemSort, z3.BoolSort())(u, v)
            from ..sym.arr import apply_binary
            w = z3.Int("w")
            if r:
                ctx.skolem(z3.And(0 <= w, w < n))
                ctx.add_index(w)
                ctx.prove("true=>every entry of every field equal", z3.And(apply_binary("equal", fs[0].fn(w), g0.fn(w)),
                                                                          apply_binary("equal", fs[1].fn(w), g1.fn(w))))
            else:
                ctx.assume_forall("all equal", lambda q: z3.Implies(z3.And(0 <= q, q < n), z3.And(
                    apply_binary("equal", fs[0].fn(q), g0.fn(q)), apply_binary("equal", fs[1].fn(q), g1.fn(q)))))
                ctx.prove("false=>some entry differs", z3.BoolVal(False))
        elif parts[0] == "astype":
            big = dc_class(3)
            from npstructures.npdataclasses import npdataclass
            if "narrow" not in _CLASSES:
                _CLASSES["narrow"] = npdataclass(type("Narrow", (), {"__annotations__": {"f2": np.ndarray, "f0": np.ndarray}}))
            small = _CLASSES["narrow"]
            n, fs, _ = fields(ctx, 3)
            out = big(*fs).astype(small)
            ctx.prove("post.fields by name", z3.BoolVal(type(out) is small and out.f2 is fs[2] and out.f0 is fs[0]))
            try:
                small(fs[2], fs[0]).astype(big)
                ctx.prove("widening must be refused", z3.BoolVal(False))
            except AssertionError:
                ctx.prove("post.missing field refused", z3.BoolVal(True))
        else:
            cls = dc_class(2)
            fs = [SymArr.symbolic(f"f{i}", 3, "elem", np.int64, assume_len=False) for i in range(2)]
            obj = cls(*fs)
            entries = list(obj)
            ctx.prove("post.n entries", z3.BoolVal(len(entries) == 3))
            for t, e in enumerate(entries):
                ctx.prove(f"post.entry {t}", z3.And(e.f0.t == fs[0].fn(z3.IntVal(t)), e.f1.t == fs[1].fn(z3.IntVal(t))))


@register
class VarLenConcat(Family):
    """np.concatenate of VarLenArrays: width = max width; block t occupies its rows, right-aligned, zero on the left"""
    name = "VarLenArray.__array_function__"
    qualname = "npstructures.npdataclasses:VarLenArray.__array_function__"
    serves = ["C18"]

    def kinds(self):
        return ["2", "3"]

    def run(self, ctx, kind):
        from npstructures.npdataclasses import VarLenArray
        from ..sym.symnp import SYMNP
        from ..sym.arr import coerce_term
        k = int(kind)
        arrs, rows, widths = [], [], []
        for o in range(k):
            r, w = z3.Int(f"rows{o}"), z3.Int(f"w{o}")
            ctx.assume(z3.And(r >= 0, w >= 1))
            a = SymArr.symbolic(f"a{o}", (r, w), "elem", np.int64, assume_len=False)
            arrs.append(a)
            rows.append(r)
            widths.append(w)
        vls = [VarLenArray(a) for a in arrs]
        out = vls[0].__array_function__(SYMNP.concatenate, (VarLenArray,), (vls,), {})
        res = out.array
        W = widths[0]
        for w in widths[1:]:
            W = z3.If(w > W, w, W)
        total = sum(rows[1:], rows[0])
        ctx.prove("post.shape", z3.And(dim_term(res.shape_[0]) == total, dim_term(res.shape_[1]) == W))
        i, j = z3.Int("i"), z3.Int("j")
        ctx.skolem(z3.And(0 <= i, i < total, 0 <= j, j < W))
        exp = None
        zero = coerce_term(z3.IntVal(0), "elem")
        for o in range(k - 1, -1, -1):
            lo = sum(rows[:o], z3.IntVal(0))
            pad = W - widths[o]
            val = z3.If(j >= pad, arrs[o].fn(i - lo, j - pad), zero)
            exp = val if exp is None else z3.If(i < lo + rows[o], val, exp)
        ctx.prove("post.cell: block of its operand, right-aligned, zero-padded on the left", coerce_term(res.get(i, j), "elem") == exp)
