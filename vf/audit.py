"""Audit of the assumed numpy contracts (DESIGN section 5) against the installed numpy.

For every modelled primitive and every small concrete input, the symbolic model is executed on arrays whose
elements are concrete terms; then, under the hypotheses the model emitted (instantiated at all small indices),
  * consistency: the constraints together with "result == what numpy really returns" are satisfiable, and
  * determinacy (for primitives meant to be fully specified): "result != numpy's result" is unsatisfiable;
  * refusals: numpy raises  <=>  the model raises the same exception class.
The audit is bounded (stated sizes) and is reported as such: it guards against mis-stated axioms, it does not
prove numpy.  A failing audit is a checker error, never a property violation.

usage: python -m vf.audit [--quick]
"""
import itertools
import sys
import time
import warnings

import numpy as np
import z3

from .sym import core
from .sym.core import SInt, explore, instantiate
from .sym.arr import SymArr, SBV, pyslice, scalar_term, kind_of_term
from .sym.symnp import SYMNP as snp

warnings.simplefilter("ignore")
FAILS = []
N_CASES = 0


def to_sym(x):
    if isinstance(x, np.ndarray):
        if x.size:
            return SymArr.from_numpy(x)
        zero = z3.BoolVal(False) if x.dtype == bool else z3.IntVal(0)
        return SymArr.fresh(x.shape, lambda *i: zero, "bool" if x.dtype == bool else "int", x.dtype)
    if isinstance(x, (list, tuple)):
        return type(x)(to_sym(e) for e in x)
    return x


def term_of_value(v, like):
    k = kind_of_term(like)
    if k == "bool":
        return z3.BoolVal(bool(v))
    if k == "bv":
        return z3.BitVecVal(int(v), 64)
    return z3.IntVal(int(v))


def result_terms(sym, real):
    """pairs (symbolic term, numpy value) for every cell; None if shapes disagree"""
    real = np.asarray(real)
    if isinstance(sym, SymArr):
        shp = []
        for d in sym.shape_:
            shp.append(d)
        pairs, conds = [], []
        if len(shp) != real.ndim:
            return None, [z3.BoolVal(False)]
        for d, rd in zip(shp, real.shape):
            conds.append((z3.IntVal(d) if isinstance(d, int) else d) == rd)
        for idx in itertools.product(*[range(s) for s in real.shape]):
            t = sym.get(*[z3.IntVal(i) for i in idx])
            pairs.append((t, real[idx]))
        return pairs, conds
    if isinstance(sym, (SInt, core.SBool, SBV)):
        return [(sym.t, real.item())], []
    if isinstance(sym, (int, bool, np.integer, np.bool_)):
        return [(scalar_term(sym), real.item())], []
    if isinstance(sym, np.ndarray):
        return [(scalar_term(a), b) for a, b in zip(sym.ravel().tolist(), real.ravel().tolist())], [z3.BoolVal(sym.shape == real.shape)]
    return None, [z3.BoolVal(False)]


def audit(name, fsym, freal, inputs, determinate=True, max_index=8):
    """fsym(np_module, *sym_inputs), freal(np, *inputs)"""
    global N_CASES
    for inp in inputs:
        N_CASES += 1
        try:
            real = freal(np, *[a.copy() if isinstance(a, np.ndarray) else a for a in inp])
            real_exc = None
        except Exception as e:
            real, real_exc = None, e
        outcomes = []

        def run(ctx):
            return fsym(snp, *[to_sym(a) for a in inp])
        for pr in explore(run, max_paths=50):
            outcomes.append(pr)
        feasible = []
        for pr in outcomes:
            s = z3.Solver()
            s.set("timeout", 5000)
            extra = set()
            for a_ in inp:
                if isinstance(a_, np.ndarray) and a_.dtype.kind in "iu" and a_.size <= 16:
                    extra |= {int(v) for v in a_.ravel().tolist()}
            pool = list(pr.ctx.pool) + [z3.IntVal(i) for i in sorted(set(range(-1, max_index + 2)) | extra)]
            hy = list(pr.ctx.hyps) + instantiate(pr.ctx.schemas, core.extend_pool(pool, pr.ctx.derivers))
            s.add(*hy)
            if s.check() != z3.unsat:
                feasible.append((pr, hy))
        if real_exc is not None:
            ok = any(pr.kind == "raise" and isinstance(pr.exc, type(real_exc)) for pr, _ in feasible) and \
                not any(pr.kind == "return" for pr, _ in feasible)
            if not ok:
                FAILS.append(f"{name}{inp!r}: numpy raises {type(real_exc).__name__}, model: {[(p.kind, type(p.exc).__name__) for p, _ in feasible]}")
            continue
        rets = [(pr, hy) for pr, hy in feasible if pr.kind == "return"]
        if len(rets) != 1 or any(pr.kind != "return" for pr, _ in feasible):
            FAILS.append(f"{name}{inp!r}: numpy returns {real!r}, model paths: {[(p.kind, repr(p.exc)[:60]) for p, _ in feasible]}")
            continue
        pr, hy = rets[0]
        sym = pr.value
        reals = real if isinstance(real, tuple) else (real,)
        syms = sym if isinstance(sym, tuple) else (sym,)
        eqs = []
        for sv, rv in zip(syms, reals):
            pairs, conds = result_terms(sv, rv)
            if pairs is None:
                eqs.append(z3.BoolVal(False))
                continue
            eqs += conds
            for t, v in pairs:
                eqs.append(t == term_of_value(v, t))
        s = z3.Solver()
        s.set("timeout", 10000)
        s.add(*hy)
        s.add(*eqs)
        if s.check() != z3.sat:
            FAILS.append(f"{name}{inp!r}: numpy's result {real!r} is INCONSISTENT with the contract")
            continue
        if determinate:
            s = z3.Solver()
            s.set("timeout", 10000)
            s.add(*hy)
            s.add(z3.Not(z3.And(*eqs)) if eqs else z3.BoolVal(False))
            if s.check() != z3.unsat:
                FAILS.append(f"{name}{inp!r}: the contract does not determine numpy's result {real!r} (model: {s.model() if s.check() == z3.sat else '?'})"[:600])


def small_int_arrays(maxlen=4, alphabet=(-2, 0, 1, 3), dtype=np.int64):
    for n in range(0, maxlen + 1):
        for v in itertools.product(alphabet, repeat=n):
            yield np.array(v, dtype=dtype)


def main(quick=False):
    t0 = time.time()
    L = 3 if quick else 4
    A = list(small_int_arrays(L, (-2, 0, 3) if quick else (-2, 0, 1, 3)))
    B = list(small_int_arrays(L, (0, 1), dtype=bool))
    NN = [a for a in A if len(a) and a.min() >= 0]
    sorted_A = [np.sort(a) for a in A]
    bounds = [None, -5, -2, -1, 0, 1, 2, 5]
    steps = [None, 1, 2, -1, -2, 3, -3]

    # CPython slicing = the spec function pyslice (also behind the `slice(...).indices` proxy)
    global N_CASES
    for n in range(0, 6):
        for a, b, s in itertools.product(bounds, bounds, steps):
            N_CASES += 1
            first, count, step = pyslice(n, a, b, s)
            rg = range(n)[slice(a, b, s)]
            if count != len(rg) or (len(rg) and (first != rg[0] or step != rg.step)):
                FAILS.append(f"pyslice({n},{a},{b},{s}) = {(first, count, step)} but CPython gives {rg}")
    sl = [(a, b, s) for a in (None, -3, -1, 0, 1, 3) for b in (None, -3, -1, 0, 2, 5) for s in steps]
    audit("basic slicing", lambda m, x, a, b, s: x[slice(a, b, s)], lambda m, x, a, b, s: x[slice(a, b, s)],
          [(x, a, b, s) for x in A[::7] for (a, b, s) in sl])
    audit("slicing with symbolic bounds", lambda m, x, a, b, s: x[slice(SInt(z3.IntVal(a)) if a is not None else None, SInt(z3.IntVal(b)) if b is not None else None,
                                                                            SInt(z3.IntVal(s)) if s is not None else None)],
          lambda m, x, a, b, s: x[slice(a, b, s)], [(x, a, b, s) for x in A[::11] for (a, b, s) in sl[::3]])
    audit("integer index", lambda m, x, i: x[i], lambda m, x, i: x[i], [(x, i) for x in A[::5] for i in range(-5, 5)])
    audit("integer-array gather", lambda m, x, i: x[i], lambda m, x, i: x[i],
          [(x, i) for x in A[::9] for i in [np.array(v) for v in itertools.product(range(-4, 4), repeat=2)] + [np.array([], dtype=int)]])
    audit("boolean-mask gather", lambda m, x, k: x[k], lambda m, x, k: x[k], [(x, k) for x in A[::3] for k in B if len(k) == len(x)])
    audit("flatnonzero", lambda m, k: m.flatnonzero(k), lambda m, k: m.flatnonzero(k), [(k,) for k in B] + [(a,) for a in A[::5]])
    audit("delete(x, flatnonzero(k))", lambda m, x, k: m.delete(x, m.flatnonzero(k)), lambda m, x, k: m.delete(x, m.flatnonzero(k)),
          [(x, k) for x in A[::3] for k in B if len(k) in (len(x), len(x) - 1, len(x) + 1)])
    audit("delete(x, flatnonzero(k) + 1)", lambda m, x, k: m.delete(x, m.flatnonzero(k) + 1), lambda m, x, k: m.delete(x, m.flatnonzero(k) + 1),
          [(x, k) for x in A[::3] for k in B if len(k) in (len(x), len(x) - 1)])

    def _inplace_shift(m, x, k):
        pos = m.flatnonzero(k)
        pos += 1
        return m.delete(x, pos)
    audit("delete(x, pos) after pos += 1", _inplace_shift, _inplace_shift, [(x, k) for x in A[::5] for k in B if len(k) in (len(x), len(x) - 1)])
    audit("where", lambda m, k, x, y: m.where(k, x, y), lambda m, k, x, y: m.where(k, x, y),
          [(k, x, 7) for x in A[::4] for k in B if len(k) == len(x)] + [(k, 5, x) for x in A[::6] for k in B if len(k) == len(x)])
    for nm in ("minimum", "maximum", "add", "subtract", "multiply", "less", "greater_equal", "equal", "not_equal"):
        audit(nm, lambda m, x, y, nm=nm: getattr(m, nm)(x, y), lambda m, x, y, nm=nm: getattr(m, nm)(x, y),
              [(x, y) for x in A[::13] for y in A[::17] if len(x) == len(y)] + [(x, 2) for x in A[::9]] + [(-1, x) for x in A[::9]])
    audit("floor_divide / remainder by a positive or negative scalar", lambda m, x, d: (x // d, x % d), lambda m, x, d: (x // d, x % d),
          [(x, d) for x in A[::9] for d in (1, 2, 3, -2, -3)])
    audit("sign / abs", lambda m, x: (m.sign(x), m.abs(x)), lambda m, x: (m.sign(x), m.abs(x)), [(x,) for x in A[::3]])
    audit("logical ops on masks", lambda m, x, y: (x & y, x | y, x ^ y, ~x), lambda m, x, y: (x & y, x | y, x ^ y, ~x),
          [(x, y) for x in B for y in B if len(x) == len(y)][::3])
    audit("cumsum", lambda m, x: m.cumsum(x), lambda m, x: m.cumsum(x), [(x,) for x in A])
    audit("cumsum(out=)", lambda m, x: m.cumsum(x, out=x), lambda m, x: m.cumsum(x, out=x), [(x,) for x in A[::3]])
    audit("sum", lambda m, x: m.sum(x), lambda m, x: m.sum(x), [(x,) for x in A])
    audit("add.accumulate", lambda m, x: m.add.accumulate(x), lambda m, x: m.add.accumulate(x), [(x,) for x in A[::2]])
    audit("subtract.accumulate", lambda m, x: m.subtract.accumulate(x), lambda m, x: m.subtract.accumulate(x), [(x,) for x in A[::2]])
    audit("all / any", lambda m, k: (m.all(k), m.any(k)), lambda m, k: (m.all(k), m.any(k)), [(k,) for k in B])
    audit("min / max", lambda m, x: (m.min(x), m.max(x)), lambda m, x: (m.min(x), m.max(x)), [(x,) for x in A[::2]])
    audit("diff", lambda m, x: m.diff(x), lambda m, x: m.diff(x), [(x,) for x in A[::2]])
    audit("pad", lambda m, x: m.pad(x, pad_width=1, mode="constant"), lambda m, x: m.pad(x, pad_width=1, mode="constant"), [(x,) for x in A[::3]])
    audit("pad((0,k))", lambda m, x, k: m.pad(x, (0, k), constant_values=7), lambda m, x, k: m.pad(x, (0, k), constant_values=7),
          [(x, k) for x in A[::5] for k in (0, 1, 3)])
    audit("insert(a,0,v)", lambda m, x: m.insert(x, 0, 0), lambda m, x: m.insert(x, 0, 0), [(x,) for x in A[::3]])
    audit("append", lambda m, x: m.append(x, m.zeros_like(x, shape=(1,))), lambda m, x: m.append(x, m.zeros_like(x, shape=(1,))), [(x,) for x in A[::3]])
    audit("concatenate", lambda m, x, y: m.concatenate([x, y]), lambda m, x, y: m.concatenate([x, y]), [(x, y) for x in A[::11] for y in A[::13]])
    audit("hstack of columns + flatten", lambda m, x, y: m.hstack((x[:, None], y[:, None])).flatten(),
          lambda m, x, y: m.hstack((x[:, None], y[:, None])).flatten(), [(x, y) for x in A[::7] for y in A[::5] if len(x) == len(y) and len(x)])
    audit("reshape(-1,2)[i].ravel()", lambda m, x, i: x.reshape(-1, 2)[i].ravel(), lambda m, x, i: x.reshape(-1, 2)[i].ravel(),
          [(x, i) for x in A if len(x) % 2 == 0 and len(x) for i in (0, -1, 1, 5, -3, slice(None, None, -1), slice(1, None), np.array([1, 0, 0]), np.array([0]))][::2])
    audit("(n,2)[mask]", lambda m, x, k: x.reshape(-1, 2)[k].ravel(), lambda m, x, k: x.reshape(-1, 2)[k].ravel(),
          [(x, k) for x in A if len(x) == 4 for k in B if len(k) == 2][::3])
    audit("arange", lambda m, n: m.arange(SInt(z3.IntVal(n))), lambda m, n: m.arange(n), [(n,) for n in range(0, 5)])
    audit("full / zeros / ones", lambda m, n: (m.full(SInt(z3.IntVal(n)), 3), m.zeros(SInt(z3.IntVal(n)), dtype=int), m.ones(SInt(z3.IntVal(n)), dtype=int)),
          lambda m, n: (m.full(n, 3), m.zeros(n, dtype=int), m.ones(n, dtype=int)), [(n,) for n in range(0, 4)])
    audit("searchsorted right (scalar)", lambda m, a, v: m.searchsorted(a, SInt(z3.IntVal(v)), side="right"), lambda m, a, v: m.searchsorted(a, v, side="right"),
          [(a, v) for a in sorted_A[::3] for v in (-3, -2, 0, 1, 2, 3, 4)])
    audit("searchsorted left (scalar)", lambda m, a, v: m.searchsorted(a, SInt(z3.IntVal(v)), side="left"), lambda m, a, v: m.searchsorted(a, v, side="left"),
          [(a, v) for a in sorted_A[::3] for v in (-3, -2, 0, 1, 2, 3, 4)])
    audit("searchsorted right (array)", lambda m, a, v: m.searchsorted(a, v, side="right"), lambda m, a, v: m.searchsorted(a, v, side="right"),
          [(a, v) for a in sorted_A[::9] for v in A[::21] if len(v)])
    audit("argsort (mergesort)", lambda m, x: m.argsort(x, kind="mergesort"), lambda m, x: m.argsort(x, kind="mergesort"), [(x,) for x in A[::2]])
    audit("unique(return_index)", lambda m, x: m.unique(x, return_index=True), lambda m, x: m.unique(x, return_index=True), [(x,) for x in A[::2]])
    audit("unique(return_counts)", lambda m, x: m.unique(x, return_counts=True), lambda m, x: m.unique(x, return_counts=True), [(x,) for x in A[::3]])
    audit("argsort (default kind; only sortedness and permutation are specified)", lambda m, x: x[m.argsort(x)], lambda m, x: x[m.argsort(x)], [(x,) for x in A[::3]])
    audit("bincount", lambda m, x, k: m.bincount(x, minlength=k), lambda m, x, k: m.bincount(x, minlength=k), [(x, k) for x in NN[::3] for k in (0, 2, 5)],
          max_index=6)
    audit("fancy assignment a[idx] = v", lambda m, a, i, v: (a.__setitem__(i, v), a)[1], lambda m, a, i, v: (a.__setitem__(i, v), a)[1],
          [(a, i, v) for a in A[::13] if len(a) >= 2 for i in [np.array(t) for t in itertools.product(range(len(a)), repeat=2)]
           for v in (np.array([8, 9]), 5)])
    audit("mask assignment a[mask] = v", lambda m, a, k, v: (a.__setitem__(k, v), a)[1], lambda m, a, k, v: (a.__setitem__(k, v), a)[1],
          [(a, k, 5) for a in A[::7] for k in B if len(k) == len(a)])
    audit("slice assignment / in-place |= on a prefix", lambda m, a, k: (a.__setitem__(slice(None, k), 9), a)[1],
          lambda m, a, k: (a.__setitem__(slice(None, k), 9), a)[1], [(a, k) for a in A[::7] for k in range(0, 5)])
    def _at(nm):
        def f(m, t, i, v):
            getattr(m, nm).at(t, i, v)
            return t
        return f
    audit("add.at (unbuffered, repeated indices)", _at("add"), _at("add"),
          [(np.array(t0), np.array(i), np.array(v)) for t0 in ([0, 0, 0], [5, -1, 2]) for i in itertools.product(range(-3, 3), repeat=3) for v in ([1, 2, 4],)][::2]
          + [(np.array([1, 1]), np.array([0, 2]), np.array([1, 1])), (np.array([1, 1]), np.array([], dtype=int), np.array([], dtype=int))])
    audit("maximum.at", _at("maximum"), _at("maximum"),
          [(np.array([0, 0, 0]), np.array(i), np.array([3, -2, 7])) for i in itertools.product(range(0, 3), repeat=3)][::2])
    audit("add.reduceat", lambda m, a, i: m.add.reduceat(a, i), lambda m, a, i: np.add.reduceat(a, i),
          [(a, i) for a in A[::9] if len(a) for i in [np.array(t) for k in (1, 2, 3) for t in itertools.product(range(len(a) + 1), repeat=k)]][::2],
          determinate=False)
    audit("add.reduceat on booleans (integer accumulator)", lambda m, a, i: m.add.reduceat(a, i), lambda m, a, i: np.add.reduceat(a, i),
          [(a, i) for a in B if len(a) for i in [np.array(t) for k in (1, 2) for t in itertools.product(range(len(a)), repeat=k)]][::3], determinate=False)
    # SpecRagged (vf/proofs/specragged.py), the contract-level stand-in for RaggedArray operands, against the real RaggedArray
    from .proofs.specragged import SpecRagged, SpecShape
    from npstructures import RaggedArray

    def chain(pairs, default):
        out = default
        for cond, val in reversed(pairs):
            out = z3.If(cond, val, out)
        return out

    def spec_of(rows):
        n = len(rows)
        L = lambda r: chain([(r == i, z3.IntVal(len(row))) for i, row in enumerate(rows)], z3.IntVal(0))
        cell = lambda r, c_: chain([(z3.And(r == i, c_ == j), z3.IntVal(int(v))) for i, row in enumerate(rows) for j, v in enumerate(row)], z3.IntVal(0))
        return SpecRagged(SpecShape(z3.IntVal(n), L, "aud"), cell, "int", np.int64, "aud")

    def real_of(rows):
        return RaggedArray(np.array([v for row in rows for v in row], dtype=np.int64), [len(r) for r in rows])

    def both(op_spec, op_real=None):
        op_real = op_real or op_spec

        def fs(m, rows_arr, *rest):
            x = op_spec(spec_of(rows_arr), *rest)
            return (x.lengths, x.ravel()) if isinstance(x, SpecRagged) else x

        def fr(m, rows_arr, *rest):
            x = op_real(real_of(rows_arr), *rest)
            if isinstance(x, tuple):
                return tuple(np.asarray(e) for e in x)
            return (np.asarray(x.lengths), np.asarray(x.ravel())) if isinstance(x, RaggedArray) else np.asarray(x)
        return fs, fr

    class Rows(list):            # a list of rows that the audit harness passes through unchanged
        def copy(self):
            return Rows([list(r) for r in self])
    ROWS = [Rows(r) for r in ([[5]], [[1, 2], [3]], [[1, 2, 3], [4, 5]], [[7, 8], [9, 10], [11, 12, 13]], [[1], [2], [3, 4]])]
    for j in (0, -1, 1):
        audit(f"SpecRagged x[:, {j}]", *both(lambda x, j=j: x[:, j]), [(r,) for r in ROWS if all(-len(row) <= j < len(row) for row in r)], max_index=8)
    for sl_ in (slice(None, -1), slice(1, None), slice(None, None, -1), slice(0, 2), slice(None, None, 2), slice(-2, None)):
        audit(f"SpecRagged x[:, {sl_}]", *both(lambda x, sl_=sl_: x[:, sl_]), [(r,) for r in ROWS], max_index=8)
    audit("SpecRagged x - scalar / scalar - x", *both(lambda x: (10 - x) - 3), [(r,) for r in ROWS], max_index=8)
    audit("SpecRagged x - column / column - x", *both(lambda x: (np.arange(len(x.lengths) if not isinstance(x, SpecRagged) else len(ROWS[0]) * 0 + int(str(x._shape.n)))[:, None] * 10 - x) - np.ones((int(str(x._shape.n)) if isinstance(x, SpecRagged) else len(x), 1), dtype=int)),
          [(r,) for r in ROWS], max_index=8)
    audit("SpecRagged x - y", *both(lambda x: x - x[:, ::-1]), [(r,) for r in ROWS], max_index=8)

    def _assign(j, vec):
        def f(x):
            n = int(str(x._shape.n)) if isinstance(x, SpecRagged) else len(x)
            x[..., j] = (np.arange(n) + 100) if vec else 77
            return x
        return f
    for j in (0, -1):
        for vec in (False, True):
            audit(f"SpecRagged x[..., {j}] = {'vector' if vec else 'scalar'}", *both(_assign(j, vec)), [(r,) for r in ROWS], max_index=8)
    audit("SpecRagged ones_like(bool); m[..., 1:] = ragged mask; m.sum(axis=-1)",
          *both(lambda x: (lambda m: (m.__setitem__((Ellipsis, slice(1, None)), x[:, :-1] != x[:, 1:]), m)[1])(np.ones_like(x, dtype=bool))),
          [(r,) for r in ROWS], max_index=8)
    audit("SpecRagged row counts of a boolean ragged array", *both(lambda x: (x[:, :-1] != x[:, 1:]).sum(axis=-1)), [(r,) for r in ROWS], max_index=8)
    audit("SpecRagged x[ragged mask]", *both(lambda x: x[:, 1:][x[:, :-1] != x[:, 1:]]), [(r,) for r in ROWS + [Rows([[1, 1, 2], [3, 3]]), Rows([[4, 5, 5, 6]])]], max_index=8)
    audit("SpecRagged row max / min", *both(lambda x: (x.max(axis=-1), x.min(axis=-1))), [(r,) for r in ROWS], max_index=8)
    audit("SpecRagged nonzero", *both(lambda x: np.nonzero(x[:, :-1] != x[:, 1:])), [(r,) for r in ROWS + [Rows([[1, 1, 2], [3, 3]]), Rows([[4, 5, 5, 6]])]], max_index=8)
    audit("SpecRagged astype (int -> bool -> int)", *both(lambda x: (x - 2).astype(bool).astype(np.int64)), [(r,) for r in ROWS], max_index=8)
    audit("SpecRagged x[rows, cols]", *both(lambda x: x[np.arange(len(x) if not isinstance(x, SpecRagged) else int(str(x._shape.n))), np.zeros(len(x) if not isinstance(x, SpecRagged) else int(str(x._shape.n)), dtype=int)]),
          [(r,) for r in ROWS], max_index=8)
    audit("uint64 shifts (shift >= 64 gives 0)", lambda m, x, s: (x << s, x >> s), lambda m, x, s: (x << s, x >> s),
          [(np.array([1, 2 ** 63, 2 ** 64 - 1, 5], dtype=np.uint64), np.uint64(s)) for s in (0, 1, 8, 63, 64)])
    dt = time.time() - t0
    print(f"numpy contract audit: {N_CASES} cases, {len(FAILS)} failures, {dt:.1f}s")
    for f in FAILS[:40]:
        print("AUDIT-FAIL", f[:500])
    return 1 if FAILS else 0


if __name__ == "__main__":
    sys.exit(main("--quick" in sys.argv))
