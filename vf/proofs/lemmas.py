"""Lemma library: facts about spec functions that the solver will not find unprompted, proved on every
run by explicit induction schemas (base VC + step VC), and used elsewhere as schematic hypotheses.

Each lemma is stated for arbitrary (uninterpreted) S, L, n with the defining axioms of the exclusive prefix
sum; the induction variable is made explicit, so every VC is quantifier-light.
"""
import z3

from .base import Family, register
from ..sym.core import cur


def ps_axioms(ctx, name="x"):
    n = z3.Int("n")
    S = z3.Function("S_" + name, z3.IntSort(), z3.IntSort())
    L = z3.Function("L_" + name, z3.IntSort(), z3.IntSort())
    ctx.assume(n >= 0)
    ctx.assume(S(0) == 0)
    ctx.assume_forall("L>=0", lambda r: z3.Implies(z3.And(0 <= r, r < n), L(r) >= 0))
    ctx.assume_forall("S.step", lambda r: z3.Implies(z3.And(0 <= r, r < n), S(r + 1) == S(r) + L(r)))
    return n, S, L


@register
class Lemmas(Family):
    name = "lemma"
    qualname = "vf.proofs.lemmas:Lemmas"
    serves = ["C01", "C02", "C03", "C04", "C05", "C06", "C07", "C08", "C09", "C11", "C12", "C14", "C15", "C16", "C17", "C19"]
    configs = ["int64"]

    def kinds(self):
        return ["PS-monotone", "PS-nonneg", "PS-const-on-zeros", "adjacent-sorted=>sorted", "strictly-increasing-selfmap-is-identity",
                "same-lengths=>same-starts", "partition-point", "strictly-increasing-from-the-top"]

    def run(self, ctx, kind):
        getattr(self, "lemma_" + kind.replace("-", "_").replace("=>", "_implies_"))(ctx)

    def lemma_PS_monotone(self, ctx):
        """0 <= a <= b <= n  =>  S(a) <= S(b).   Induction on d = b - a:  P(d): forall a. S(a) <= S(a+d)."""
        n, S, L = ps_axioms(ctx)
        a, d = z3.Int("a"), z3.Int("d")
        ctx.add_index(a, a + d, a + d + 1)
        ctx.prove("base: d = 0", z3.Implies(z3.And(0 <= a, a <= n), S(a) <= S(a + 0)))
        # step: assume P(d) at this a (induction hypothesis, instantiated), show P(d+1)
        ctx.assume(z3.And(d >= 0, 0 <= a, a + d + 1 <= n))
        ctx.assume(S(a) <= S(a + d))
        ctx.prove("step: P(d) => P(d+1)", S(a) <= S(a + d + 1))

    def lemma_PS_nonneg(self, ctx):
        n, S, L = ps_axioms(ctx)
        k = z3.Int("k")
        ctx.add_index(k, k + 1, z3.IntVal(0))
        ctx.prove("base", S(0) >= 0)
        ctx.assume(z3.And(0 <= k, k < n, S(k) >= 0))
        ctx.prove("step", S(k + 1) >= 0)

    def lemma_PS_const_on_zeros(self, ctx):
        """rows a..b-1 all empty  =>  S(b) = S(a).  Induction on b."""
        n, S, L = ps_axioms(ctx)
        a, b = z3.Int("a"), z3.Int("b")
        ctx.add_index(a, b, b + 1)
        ctx.assume(z3.And(0 <= a, a <= b, b < n))
        ctx.prove("base: b = a", S(a) == S(a))
        ctx.assume(z3.And(S(b) == S(a), L(b) == 0))
        ctx.prove("step", S(b + 1) == S(a))

    def lemma_adjacent_sorted_implies_sorted(self, ctx):
        n = z3.Int("n")
        A = z3.Function("A", z3.IntSort(), z3.IntSort())
        ctx.assume(n >= 0)
        ctx.assume_forall("adjacent", lambda i: z3.Implies(z3.And(0 <= i, i + 1 < n), A(i) <= A(i + 1)))
        a, d = z3.Int("a"), z3.Int("d")
        ctx.add_index(a, a + d, a + d + 1)
        ctx.prove("base", A(a) <= A(a + 0))
        ctx.assume(z3.And(d >= 0, 0 <= a, a + d + 1 < n, A(a) <= A(a + d)))
        ctx.prove("step", A(a) <= A(a + d + 1))

    def lemma_same_lengths_implies_same_starts(self, ctx):
        n, S, L = ps_axioms(ctx, "a")
        S2 = z3.Function("S_b", z3.IntSort(), z3.IntSort())
        ctx.assume(S2(0) == 0)
        ctx.assume_forall("S2.step", lambda r: z3.Implies(z3.And(0 <= r, r < n), S2(r + 1) == S2(r) + L(r)))
        k = z3.Int("k")
        ctx.add_index(k, k + 1, z3.IntVal(0))
        ctx.prove("base", S(0) == S2(0))
        ctx.assume(z3.And(0 <= k, k < n, S(k) == S2(k)))
        ctx.prove("step", S(k + 1) == S2(k + 1))

    def lemma_partition_point(self, ctx):
        """every flat position j with 0 <= j < S(k) lies in some row r < k:  S(r) <= j < S(r+1).
        Induction on k with an explicit witness: P(k) is given by a witness function w_k; the witness for k+1 is
        w_k(j) if j < S(k) else k.  (This is the existence of the ghost functions rho / rowof / run used by the scan proofs.)"""
        n, S, L = ps_axioms(ctx)
        k, j = z3.Int("k"), z3.Int("j")
        w = z3.Function("w_k", z3.IntSort(), z3.IntSort())
        ctx.add_index(k, k + 1, j, z3.IntVal(0))
        ctx.prove("base: no position below S(0) = 0", z3.Not(z3.And(0 <= j, j < S(0))))
        ctx.assume(z3.And(0 <= k, k < n))
        ctx.assume_forall("P(k) with witness w_k", lambda jj: z3.Implies(z3.And(0 <= jj, jj < S(k)),
                          z3.And(0 <= w(jj), w(jj) < k, S(w(jj)) <= jj, jj < S(w(jj) + 1))))
        wit = z3.If(j < S(k), w(j), k)
        ctx.add_index(wit, wit + 1)
        ctx.prove("step: P(k+1) with witness  w_k(j) if j < S(k) else k",
                  z3.Implies(z3.And(0 <= j, j < S(k + 1)), z3.And(0 <= wit, wit < k + 1, S(wit) <= j, j < S(wit + 1))))

    def lemma_strictly_increasing_from_the_top(self, ctx):
        """f: [0,c) -> [0,q) strictly increasing  =>  f(u) <= q - c + u   (mirror image of f(u) >= u; downward induction)"""
        c, q = z3.Int("c"), z3.Int("q")
        f = z3.Function("f", z3.IntSort(), z3.IntSort())
        ctx.assume(z3.And(c >= 0, q >= 0))
        ctx.assume_forall("range", lambda i: z3.Implies(z3.And(0 <= i, i < c), z3.And(0 <= f(i), f(i) < q)))
        ctx.assume_forall("incr", lambda i: z3.Implies(z3.And(0 <= i, i + 1 < c), f(i) < f(i + 1)))
        k = z3.Int("k")
        ctx.add_index(k, k + 1, c - 1)
        ctx.prove("base: f(c-1) <= q-1", z3.Implies(c > 0, f(c - 1) <= q - c + (c - 1)))
        ctx.assume(z3.And(0 <= k, k + 1 < c, f(k + 1) <= q - c + k + 1))
        ctx.prove("step (downwards): f(k) <= q - c + k", f(k) <= q - c + k)

    def lemma_strictly_increasing_selfmap_is_identity(self, ctx):
        """f: [0,m) -> [0,m) strictly increasing  =>  f(i) >= i  (and hence f = id together with f(i) <= m-1-(m-1-i))."""
        m = z3.Int("m")
        f = z3.Function("f", z3.IntSort(), z3.IntSort())
        ctx.assume(m >= 0)
        ctx.assume_forall("range", lambda i: z3.Implies(z3.And(0 <= i, i < m), z3.And(0 <= f(i), f(i) < m)))
        ctx.assume_forall("incr", lambda i: z3.Implies(z3.And(0 <= i, i + 1 < m), f(i) < f(i + 1)))
        k = z3.Int("k")
        ctx.add_index(k, k + 1, z3.IntVal(0))
        ctx.prove("base: f(0) >= 0", z3.Implies(m > 0, f(0) >= 0))
        ctx.assume(z3.And(0 <= k, k + 1 < m, f(k) >= k))
        ctx.prove("step: f(k+1) >= k+1", f(k + 1) >= k + 1)
