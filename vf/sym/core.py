"""npvc core: symbolic scalars, path exploration by re-execution, obligations.

The *real* function objects of /repo (compiled by CPython from the current working tree) are executed
on symbolic proxy values.  A Python-level branch on a symbolic boolean (``if``, ``and``, ``or``,
``not``, ``assert``, ``while``) asks the current context which way to go; the driver re-executes the
function once per feasible decision sequence (depth-first), so every path of the real code is
enumerated and each path yields verification conditions that are discharged by an SMT solver.

Python ``int`` is modelled as mathematical integer (z3 Int); ``//`` and ``%`` are floor division /
modulo (sign case split for negative divisors); every division forks a ZeroDivisionError path.
"""
import itertools
import time
import numbers
import z3

# ---------------------------------------------------------------------------------------------
# errors


class Unsupported(Exception):
    """The engine met something it does not model: the obligation is UNDECIDED (never a violation)."""


class PathLimit(Exception):
    pass


class InfeasiblePath(BaseException):
    """Raised to abandon a path whose condition is unsatisfiable (derives from BaseException so that
    ``except Exception`` clauses in the code under verification cannot swallow it)."""


# ---------------------------------------------------------------------------------------------
# context

_CTX = None


def cur():
    if _CTX is None:
        raise RuntimeError("no symbolic context active")
    return _CTX


def has_ctx():
    return _CTX is not None


_fresh_counter = itertools.count()


def fresh_name(prefix):
    return f"{prefix}!{next(_fresh_counter)}"


class Decision:
    __slots__ = ("value", "alt", "label")

    def __init__(self, value, alt, label=""):
        self.value, self.alt, self.label = value, alt, label

    def __repr__(self):
        return f"{'T' if self.value else 'F'}{'*' if self.alt else ''}"


class Schema:
    """A universally quantified hypothesis  forall i_1..i_k. fn(i_1..i_k)  kept as a meta-level function.
    It is instantiated at the terms of the context's index pool, and (second attempt) also handed to
    the solver as a native quantifier."""

    def __init__(self, name, fn, arity=1):
        self.name, self.fn, self.arity = name, fn, arity


def extend_pool(pool, derivers, rounds=1):
    """index terms derived from pool terms (e.g. the row containing a flat position): one round by default"""
    if not derivers:
        return list(pool)
    out = list(pool)
    seen = {t.get_id() for t in out}
    frontier = list(pool)
    for _ in range(rounds):
        new = []
        for d in derivers:
            for p in frontier:
                try:
                    ts = d(p)
                except Exception:
                    continue
                for t in ts or ():
                    t = z3.simplify(as_int_term(t))
                    if t.get_id() not in seen:
                        seen.add(t.get_id())
                        out.append(t)
                        new.append(t)
        frontier = new
    return out


_CONSTS_CACHE = {}


def consts_of(t):
    """names of the uninterpreted constants (arity 0) occurring in a term; cached per AST (the term is kept alive)"""
    key = t.get_id()
    hit = _CONSTS_CACHE.get(key)
    if hit is not None:
        return hit[0]
    out, seen, stack = set(), set(), [t]
    while stack:
        x = stack.pop()
        i = x.get_id()
        if i in seen:
            continue
        seen.add(i)
        if z3.is_quantifier(x):
            stack.append(x.body())
            continue
        if z3.is_app(x):
            if x.num_args() == 0:
                if x.decl().kind() == z3.Z3_OP_UNINTERPRETED:
                    out.add(x.decl().name())
            else:
                stack.extend(x.children())
    out = frozenset(out)
    _CONSTS_CACHE[key] = (out, t)
    return out


def schema_consts(sc):
    """constants captured by a schema's closure (found by instantiating it once at probe variables)"""
    c = getattr(sc, "_consts", None)
    if c is None:
        probes = [z3.Int(f"probe!sc{j}") for j in range(sc.arity)]
        body = sc.fn(*probes)
        c = frozenset() if body is None else consts_of(as_bool_term(body)) - {str(p) for p in probes}
        sc._consts = c
    return c


class Obligation:
    def __init__(self, name, hyps, schemas, pool, goal, kind="post", info=None, derivers=()):
        self.name = name
        self.hyps = list(hyps)
        self.schemas = list(schemas)
        self.pool = extend_pool(pool, derivers)
        self.goal = goal
        self.kind = kind
        self.info = info or {}
        self.status = None
        self.model = None
        self.solver = None
        self.time = 0.0
        self.reason = ""


class Ctx:
    def __init__(self, trail=None, branch_timeout_ms=2000, max_decisions=400):
        self.trail = list(trail or [])
        self.pos = 0
        self.hyps = []
        self.schemas = []
        self.pool = []
        self._pool_keys = set()
        self.obligations = []
        self.branch_timeout_ms = branch_timeout_ms
        self.max_decisions = max_decisions
        self.notes = []
        self.derivers = []
        self.goal_guards = []
        self.skolem_vars = set()
        self.script_phase = False      # set by the first post / lemma goal or skolem of the sidecar proof script
        self._seen, self._seen_h, self._seen_s = set(), 0, 0
        self.heap_writes = []          # (buffer, description) for frame conditions
        self.allocs = 0
        self.solver_time = 0.0
        self.ghost = {}

    # -- hypotheses -------------------------------------------------------------------------
    def assume(self, t):
        t = as_bool_term(t)
        if z3.is_true(t):
            return
        if self.script_phase:
            # a constant first mentioned by an assumption made after the proof script's first goal is a variable of the proof script
            # (induction variable, generic index), not an input: treated like a skolem variable (see `skolem`)
            self._note_new_consts(t)
        self.hyps.append(t)

    def skolem(self, t):
        """range assumption on a skolem constant of a universally quantified *goal* (e.g. 0 <= r < n for the
        generic row r): logically part of the goal, so the vacuity canary ignores it.

        The constants of `t` that occur in no earlier hypothesis are the skolem variables of this guard.  A later goal in
        which such a variable does not occur is NOT under this guard (proving `guard(j) -> goal` for a goal without j would
        only prove `(exists j. guard(j)) -> goal`): `prove` drops every hypothesis and schema mentioning a skolem variable
        that is dead in the goal."""
        t = as_bool_term(t)
        self.script_phase = True
        self._note_new_consts(t)
        self.hyps.append(t)
        self.goal_guards.append(t)

    def declare_inputs(self, *terms):
        """constants of `terms` are inputs of the function under proof (never skolem variables), even if no hypothesis mentions them"""
        for t in terms:
            t = getattr(t, "t", t)
            if z3.is_expr(t):
                self._seen |= consts_of(t)

    def _seen_consts(self):
        for h in self.hyps[self._seen_h:]:
            self._seen |= consts_of(h)
        self._seen_h = len(self.hyps)
        for sc in self.schemas[self._seen_s:]:
            self._seen |= schema_consts(sc)
        self._seen_s = len(self.schemas)
        return self._seen

    def _note_new_consts(self, t):
        new = consts_of(t) - self._seen_consts()
        self.skolem_vars |= new

    def assume_forall(self, name, fn, arity=1):
        self.schemas.append(Schema(name, fn, arity))

    def add_index(self, *terms):
        for t in terms:
            t = as_int_term(t)
            k = t.get_id()
            if k not in self._pool_keys:
                self._pool_keys.add(k)
                self.pool.append(t)

    # -- solver helpers ---------------------------------------------------------------------
    def instantiated(self, schemas=None, pool=None, hyps=None):
        return instantiate(self.schemas if schemas is None else schemas,
                           self.pool if pool is None else pool)

    def _quick(self, extra):
        s = z3.Solver()
        s.set("timeout", self.branch_timeout_ms)
        for h in self.hyps:
            s.add(h)
        for h in instantiate(self.schemas, extend_pool(self.pool, self.derivers)):
            s.add(h)
        s.add(extra)
        t0 = time.time()
        r = s.check()
        self.solver_time += time.time() - t0
        return r

    def feasible(self, t):
        """False only if hyps /\\ t is certainly unsatisfiable."""
        return self._quick(t) != z3.unsat

    # -- contextual simplification ----------------------------------------------------------
    def decide(self, c):
        """True / False if the hypotheses of this path imply c / not c, else None (cached; hypotheses only grow)"""
        k = c.get_id()
        cache = self.ghost.setdefault("_decide", {})
        if k in cache and cache[k][1] is not None:
            return cache[k][1]
        old = self.branch_timeout_ms
        self.branch_timeout_ms = 300
        try:
            if self._quick(z3.Not(c)) == z3.unsat:
                r = True
            elif self._quick(c) == z3.unsat:
                r = False
            else:
                r = None
        finally:
            self.branch_timeout_ms = old
        cache[k] = (c, r)          # the term is kept alive: z3 recycles ids of collected ASTs
        return r

    def prune(self, t, depth=0):
        """a term equal to t under the hypotheses of this path, with decided if-then-else nodes removed"""
        t = z3.simplify(t)
        if depth > 12 or not z3.is_app(t) or t.num_args() == 0:
            return t
        cache = self.ghost.setdefault("_prune", {})
        k = t.get_id()
        if k in cache:
            return cache[k][1]
        if z3.is_app_of(t, z3.Z3_OP_ITE):
            c, a, b = t.children()
            c = self.prune(c, depth + 1)
            d = True if z3.is_true(c) else (False if z3.is_false(c) else self.decide(c))
            if d is True:
                r = self.prune(a, depth + 1)
            elif d is False:
                r = self.prune(b, depth + 1)
            else:
                r = z3.If(c, self.prune(a, depth + 1), self.prune(b, depth + 1))
        else:
            kids = [self.prune(ch, depth + 1) for ch in t.children()]
            try:
                r = t.decl()(*kids) if any(x.get_id() != y.get_id() for x, y in zip(kids, t.children())) else t
            except Exception:
                r = t
        r = z3.simplify(r)
        cache[k] = (t, r)
        return r

    # -- branching --------------------------------------------------------------------------
    def branch(self, t, label=""):
        t = z3.simplify(t)
        if z3.is_true(t):
            return True
        if z3.is_false(t):
            return False
        if self.pos < len(self.trail):
            d = self.trail[self.pos]
            self.pos += 1
            self.hyps.append(t if d.value else z3.Not(t))
            return d.value
        if len(self.trail) >= self.max_decisions:
            raise PathLimit(f"more than {self.max_decisions} symbolic decisions on one path")
        can_t = self.feasible(t)
        can_f = self.feasible(z3.Not(t))
        if not can_t and not can_f:
            raise InfeasiblePath()
        if can_t:
            d = Decision(True, can_f, label)
        else:
            d = Decision(False, False, label)
        self.trail.append(d)
        self.pos += 1
        self.hyps.append(t if d.value else z3.Not(t))
        return d.value

    # -- obligations ------------------------------------------------------------------------
    def prove(self, name, goal, kind="post", info=None, extra_pool=(), pool=None, live=(), without=(), abstract_products=False):
        """pool: explicit instantiation terms for this obligation (instead of the path's whole index pool)
        live: skolem variables the claim is deliberately quantified over although the goal term does not mention them
        (the obligation then reads  forall live. guards(live) -> goal)
        without: name fragments of schematic hypotheses NOT to use for this obligation (fewer hypotheses: sound; keeps the VC small)"""
        goal = as_bool_term(goal)
        if kind == "post":
            self.script_phase = True
        for e in extra_pool:
            self.add_index(e)
        use = self.pool if pool is None else [z3.simplify(as_int_term(t)) for t in pool]
        hyps, schemas, guards = self.hyps, self.schemas, self.goal_guards
        dead = self.skolem_vars - consts_of(goal) - {str(v) for v in live}
        if dead:
            hyps = [h for h in hyps if not (consts_of(h) & dead)]
            schemas = [sc for sc in schemas if not (schema_consts(sc) & dead)]
            guards = [g for g in guards if not (consts_of(g) & dead)]
        if without:
            schemas = [sc for sc in schemas if not any(w in sc.name for w in without)]
        if abstract_products:
            info = dict(info or {}, abstract_products=True)
        ob = Obligation(name, hyps, schemas, use, goal, kind, info, derivers=self.derivers)
        ob.guards = list(guards)
        ob.dropped_for_dead_skolems = len(self.hyps) - len(hyps) + len(self.schemas) - len(schemas)
        self.obligations.append(ob)
        return ob

    def prove_then_assume(self, name, goal, **kw):
        """stepping stone: an obligation of its own, afterwards available as hypothesis."""
        ob = self.prove(name, goal, kind=kw.pop("kind", "lemma"), **kw)
        # the fact is available later only together with the guards it was proved under
        self.assume(z3.Implies(z3.And(*ob.guards), as_bool_term(goal)) if ob.guards else goal)
        return ob

    def path_id(self):
        return "".join("T" if d.value else "F" for d in self.trail[: self.pos])


def instantiate(schemas, pool):
    out = []
    for sc in schemas:
        if sc.arity == 1:
            for p in pool:
                r = sc.fn(p)
                if r is not None:
                    out.append(as_bool_term(r))
        else:
            for ps in itertools.product(pool, repeat=sc.arity):
                r = sc.fn(*ps)
                if r is not None:
                    out.append(as_bool_term(r))
    return out


def native_quantified(schemas):
    out = []
    for sc in schemas:
        vs = [z3.Int(fresh_name(f"q{j}")) for j in range(sc.arity)]
        body = sc.fn(*vs)
        if body is None:
            continue
        out.append(z3.ForAll(vs, as_bool_term(body)))
    return out


# ---------------------------------------------------------------------------------------------
# exploration driver


class PathResult:
    def __init__(self, ctx, kind, value=None, exc=None):
        self.ctx, self.kind, self.value, self.exc = ctx, kind, value, exc
        # kind: 'return' | 'raise' | 'unsupported' | 'limit'

    @property
    def path(self):
        return self.ctx.path_id()


def explore(run, max_paths=400, **ctx_kw):
    """run(ctx) -> value.  Yields one PathResult per feasible path of `run`."""
    global _CTX
    trail = []
    n = 0
    while True:
        ctx = Ctx(trail, **ctx_kw)
        prev = _CTX
        _CTX = ctx
        try:
            try:
                v = run(ctx)
                res = PathResult(ctx, "return", value=v)
            except InfeasiblePath:
                res = None
            except Unsupported as e:
                res = PathResult(ctx, "unsupported", exc=e)
            except PathLimit as e:
                res = PathResult(ctx, "limit", exc=e)
            except RecursionError as e:
                res = PathResult(ctx, "unsupported", exc=Unsupported(f"recursion: {e}"))
            except Exception as e:  # an exception escaping the code under verification: an outcome
                res = PathResult(ctx, "raise", exc=e)
        finally:
            _CTX = prev
        if res is not None:
            yield res
        n += 1
        trail = ctx.trail[: max(ctx.pos, 0)] if ctx.pos < len(ctx.trail) else ctx.trail
        while trail and not trail[-1].alt:
            trail.pop()
        if not trail:
            return
        last = trail.pop()
        trail.append(Decision(not last.value, False, last.label))
        if n >= max_paths:
            yield PathResult(Ctx(trail), "limit", exc=PathLimit(f"more than {max_paths} paths"))
            return


# ---------------------------------------------------------------------------------------------
# discharge


_MUL_ABS = z3.Function("mul_abs", z3.IntSort(), z3.IntSort(), z3.IntSort())


def abstract_products(e, cache):
    """e with every product of two or more non-numeral integer factors rewritten to an application of the uninterpreted function mul_abs (operand
    order kept).  A sound weakening: what is proved with an arbitrary binary function in place of `*` holds for `*`.  It turns "the same product, up
    to equal operands" into plain congruence, which the solver decides reliably, where the nonlinear arithmetic heuristics do not."""
    k = e.get_id()
    if k in cache:
        return cache[k]
    if not z3.is_app(e) or e.num_args() == 0:
        cache[k] = e
        return e
    kids = [abstract_products(c, cache) for c in e.children()]
    if e.decl().kind() == z3.Z3_OP_MUL and z3.is_int(e):
        nums = [c for c in kids if z3.is_int_value(c)]
        rest = [c for c in kids if not z3.is_int_value(c)]
        if len(rest) >= 2:
            acc = rest[0]
            for c in rest[1:]:
                acc = _MUL_ABS(acc, c)
            for c in nums:
                acc = c * acc
            cache[k] = acc
            return acc
    r = e.decl()(*kids)
    cache[k] = r
    return r


def discharge(ob, timeout_ms=10000, use_native=True):
    """Decide one obligation.  status in {'proved','refuted','undecided'}."""
    t0 = time.time()
    inst = instantiate(ob.schemas, ob.pool)
    if ob.info.get("abstract_products"):
        # first attempt with products as an uninterpreted function (see abstract_products); only a proof counts, anything else falls through to
        # the ordinary attempt with real multiplication
        cache = {}
        s0 = z3.Solver()
        s0.set("timeout", timeout_ms)
        for h in list(ob.hyps) + list(inst):
            s0.add(abstract_products(h, cache))
        s0.add(z3.Not(abstract_products(ob.goal, cache)))
        if s0.check() == z3.unsat:
            ob.solver = "z3-" + z3.get_version_string()
            ob.status = "proved"
            ob.reason = "products abstracted as an uninterpreted function"
            ob.time = time.time() - t0
            return ob

    def attempt(native):
        s = z3.Solver()
        s.set("timeout", timeout_ms if not native else max(2000, timeout_ms // 3))
        for h in ob.hyps:
            s.add(h)
        for h in inst:
            s.add(h)
        if native:
            for q in native_quantified(ob.schemas):
                s.add(q)
        s.add(z3.Not(ob.goal))
        r = s.check()
        return r, s

    r, s = attempt(False)
    ob.solver = "z3-" + z3.get_version_string()
    if r == z3.unsat:
        ob.status = "proved"
    elif r == z3.sat:
        m = s.model()
        if ob.schemas and use_native:
            r2, s2 = attempt(True)
            if r2 == z3.unsat:
                ob.status = "proved"
                ob.reason = "needed native quantifier instantiation"
            elif r2 == z3.sat:
                ob.status = "refuted"
                ob.model = s2.model()
            else:
                ob.status = "refuted?"      # QF-instantiated counter-model, not confirmed with quantifiers
                ob.model = m
                ob.reason = "counter-model of the instantiated hypotheses; quantified check: " + s2.reason_unknown()
        else:
            ob.status = "refuted"
            ob.model = m
    else:
        ob.status = "undecided"
        ob.reason = s.reason_unknown()
    ob.time = time.time() - t0
    return ob


def to_smt2(ob, native=True):
    s = z3.Solver()
    for h in ob.hyps:
        s.add(h)
    for h in instantiate(ob.schemas, ob.pool):
        s.add(h)
    if native:
        for q in native_quantified(ob.schemas):
            s.add(q)
    s.add(z3.Not(ob.goal))
    return s.to_smt2()


# ---------------------------------------------------------------------------------------------
# symbolic scalars


def as_int_term(x):
    if isinstance(x, SInt):
        return x.t
    if isinstance(x, bool):
        return z3.IntVal(int(x))
    if isinstance(x, SBool):
        return z3.If(x.t, z3.IntVal(1), z3.IntVal(0))
    if isinstance(x, numbers.Integral):
        return z3.IntVal(int(x))
    if z3.is_expr(x):
        if z3.is_bool(x):
            return z3.If(x, z3.IntVal(1), z3.IntVal(0))
        return x
    try:
        import numpy as _np
        if isinstance(x, _np.integer):
            return z3.IntVal(int(x))
        if isinstance(x, _np.ndarray) and x.ndim == 0 and _np.issubdtype(x.dtype, _np.integer):
            return z3.IntVal(int(x))
    except ImportError:
        pass
    raise Unsupported(f"cannot use {type(x).__name__} as an integer term")


def as_bool_term(x):
    if isinstance(x, SBool):
        return x.t
    if isinstance(x, bool):
        return z3.BoolVal(x)
    if z3.is_expr(x) and z3.is_bool(x):
        return x
    try:
        import numpy as _np
        if isinstance(x, _np.bool_):
            return z3.BoolVal(bool(x))
    except ImportError:
        pass
    raise Unsupported(f"cannot use {type(x).__name__} as a boolean term")


def is_sym(x):
    return isinstance(x, (SInt, SBool))


def py_floordiv(a, b):
    """Python floor division on z3 Int terms (b != 0 is the caller's business)."""
    if z3.is_int_value(b):
        bv = b.as_long()
        if bv > 0:
            return a / b
        return (-a) / z3.IntVal(-bv)
    return z3.If(b > 0, a / b, (-a) / (-b))


def py_mod(a, b):
    return a - b * py_floordiv(a, b)


class SInt:
    """Symbolic Python / numpy integer (mathematical)."""
    __slots__ = ("t", "dtype_")
    ndim = 0
    shape = ()
    size = 1

    def __init__(self, t, dtype=None):
        if isinstance(t, str):
            t = z3.Int(t)
        elif isinstance(t, numbers.Integral):
            t = z3.IntVal(int(t))
        self.t = t
        self.dtype_ = dtype

    @property
    def dtype(self):
        import numpy as _np
        return _np.dtype(self.dtype_ or _np.int64)

    def __repr__(self):
        return f"SInt({self.t})"

    def _o(self, o):
        if isinstance(o, (SInt, numbers.Integral)) and not isinstance(o, bool):
            return as_int_term(o)
        if isinstance(o, (bool, SBool)):
            return as_int_term(o)
        try:
            import numpy as _np
            if isinstance(o, (_np.integer, _np.bool_)):
                return z3.IntVal(int(o))
        except ImportError:
            pass
        return None

    def _bin(self, o, f, rev=False):
        t = self._o(o)
        if t is None:
            return NotImplemented
        return SInt(z3.simplify(f(t, self.t) if rev else f(self.t, t)))

    def __add__(self, o): return self._bin(o, lambda a, b: a + b)
    def __radd__(self, o): return self._bin(o, lambda a, b: a + b, True)
    def __sub__(self, o): return self._bin(o, lambda a, b: a - b)
    def __rsub__(self, o): return self._bin(o, lambda a, b: a - b, True)
    def __mul__(self, o): return self._bin(o, lambda a, b: a * b)
    def __rmul__(self, o): return self._bin(o, lambda a, b: a * b, True)

    def _div(self, o, rev, mod):
        t = self._o(o)
        if t is None:
            return NotImplemented
        a, b = (t, self.t) if rev else (self.t, t)
        if cur().branch(b == 0, "zerodiv"):
            raise ZeroDivisionError("integer division or modulo by zero")
        return SInt(z3.simplify(py_mod(a, b) if mod else py_floordiv(a, b)))

    def __floordiv__(self, o): return self._div(o, False, False)
    def __rfloordiv__(self, o): return self._div(o, True, False)
    def __mod__(self, o): return self._div(o, False, True)
    def __rmod__(self, o): return self._div(o, True, True)
    def __rrshift__(self, o):
        from .arr import SBV, scalar_term, apply_binary
        return SBV(apply_binary("right_shift", scalar_term(o, "bv"), z3.Int2BV(self.t, 64)))

    def __rlshift__(self, o):
        from .arr import SBV, scalar_term, apply_binary
        return SBV(apply_binary("left_shift", scalar_term(o, "bv"), z3.Int2BV(self.t, 64)))

    def __neg__(self): return SInt(-self.t)
    def __pos__(self): return self
    def __abs__(self): return SInt(z3.If(self.t >= 0, self.t, -self.t))

    def _cmp(self, o, f):
        t = self._o(o)
        if t is None:
            return NotImplemented
        return SBool(z3.simplify(f(self.t, t)))

    def __lt__(self, o): return self._cmp(o, lambda a, b: a < b)
    def __le__(self, o): return self._cmp(o, lambda a, b: a <= b)
    def __gt__(self, o): return self._cmp(o, lambda a, b: a > b)
    def __ge__(self, o): return self._cmp(o, lambda a, b: a >= b)

    def __eq__(self, o):
        if o is None:
            return False
        return self._cmp(o, lambda a, b: a == b)

    def __ne__(self, o):
        if o is None:
            return True
        return self._cmp(o, lambda a, b: a != b)

    __hash__ = object.__hash__

    def __bool__(self):
        return cur().branch(self.t != 0, "int-truth")

    def __int__(self):
        raise Unsupported("int() of a symbolic integer reached CPython (module builtins not rebound?)")

    def __index__(self):
        raise Unsupported("a symbolic integer was used where CPython needs a concrete index")

    # numpy-scalar look-alike
    def item(self): return self
    def astype(self, dtype, **kw): return SInt(self.t, dtype)
    def ravel(self):
        from .arr import SymArr
        return SymArr.from_scalar(self)
    def __getitem__(self, idx):
        if idx is None or idx == () or idx is Ellipsis:
            return self
        from .arr import SymArr
        return SymArr.from_scalar(self)[idx]


def _scalar_array_ufunc(self, ufunc, method, *inputs, **kwargs):
    from . import symnp
    return symnp.dispatch_ufunc(ufunc, method, inputs, kwargs)


SInt.__array_ufunc__ = _scalar_array_ufunc
numbers.Number.register(SInt)
numbers.Integral.register(SInt)


class SBool:
    __slots__ = ("t",)
    ndim = 0
    shape = ()
    size = 1

    def __init__(self, t):
        if isinstance(t, str):
            t = z3.Bool(t)
        elif isinstance(t, bool):
            t = z3.BoolVal(t)
        self.t = t

    @property
    def dtype(self):
        import numpy as _np
        return _np.dtype(bool)

    def __repr__(self):
        return f"SBool({self.t})"

    def __bool__(self):
        return cur().branch(self.t, "bool")

    def _o(self, o):
        if isinstance(o, (SBool, bool)):
            return as_bool_term(o)
        try:
            import numpy as _np
            if isinstance(o, _np.bool_):
                return z3.BoolVal(bool(o))
        except ImportError:
            pass
        return None

    def _bin(self, o, f):
        t = self._o(o)
        if t is None:
            return NotImplemented
        return SBool(z3.simplify(f(self.t, t)))

    def __and__(self, o): return self._bin(o, z3.And)
    __rand__ = __and__
    def __or__(self, o): return self._bin(o, z3.Or)
    __ror__ = __or__
    def __xor__(self, o): return self._bin(o, z3.Xor)
    __rxor__ = __xor__
    def __invert__(self): return SBool(z3.Not(self.t))

    def __eq__(self, o):
        r = self._bin(o, lambda a, b: a == b)
        return r

    def __ne__(self, o):
        return self._bin(o, lambda a, b: a != b)

    __hash__ = object.__hash__

    # arithmetic on booleans (True == 1)
    def _i(self): return SInt(as_int_term(self))
    def __add__(self, o): return self._i() + o
    def __radd__(self, o): return o + self._i()
    def __sub__(self, o): return self._i() - o
    def __rsub__(self, o): return o - self._i()
    def __mul__(self, o): return self._i() * o
    def __rmul__(self, o): return o * self._i()
    def astype(self, dtype, **kw):
        import numpy as _np
        if _np.dtype(dtype) == _np.dtype(bool):
            return self
        return SInt(as_int_term(self), dtype)
    def item(self): return self


SBool.__array_ufunc__ = _scalar_array_ufunc


# ---------------------------------------------------------------------------------------------
# helpers usable from contracts in both readings (concrete python values / symbolic values)


def ite(c, a, b):
    if isinstance(c, SBool):
        if isinstance(a, (SBool, bool)) and isinstance(b, (SBool, bool)):
            return SBool(z3.If(c.t, as_bool_term(a), as_bool_term(b)))
        return SInt(z3.simplify(z3.If(c.t, as_int_term(a), as_int_term(b))))
    return a if c else b


def smin(a, b):
    if is_sym(a) or is_sym(b):
        return ite(SInt(as_int_term(a)) <= b, a, b)
    return min(a, b)


def smax(a, b):
    if is_sym(a) or is_sym(b):
        return ite(SInt(as_int_term(a)) >= b, a, b)
    return max(a, b)


def sand(*xs):
    if any(isinstance(x, SBool) for x in xs):
        return SBool(z3.And(*[as_bool_term(x) for x in xs]))
    return all(xs)


def sor(*xs):
    if any(isinstance(x, SBool) for x in xs):
        return SBool(z3.Or(*[as_bool_term(x) for x in xs]))
    return any(xs)


def snot(x):
    if isinstance(x, SBool):
        return SBool(z3.Not(x.t))
    return not x


def implies(a, b):
    if isinstance(a, SBool) or isinstance(b, SBool):
        return SBool(z3.Implies(as_bool_term(a), as_bool_term(b)))
    return (not a) or b


def floordiv(a, b):
    """floor division without forking a ZeroDivisionError path (spec side; b != 0 is a precondition)."""
    if is_sym(a) or is_sym(b):
        return SInt(z3.simplify(py_floordiv(as_int_term(a), as_int_term(b))))
    return a // b


def fresh_int(prefix="v"):
    return SInt(z3.Int(fresh_name(prefix)))


def fresh_bool(prefix="b"):
    return SBool(z3.Bool(fresh_name(prefix)))
