"""Proof-only evaluation of the seeded changes: tools_seeded_proofonly.py <seeded dir> ...
For each change: scratch copy of /repo with the patch, `./check <prop> --tier quick --no-bounded` (bounded stand-ins and the property-level
oracle switched off; the family-level replay of a refuted obligation's counter-model stays on), result in seeded/<id>/proof_only.json."""
import json
import os
import re
import shutil
import subprocess
import sys
import tempfile

VERIF = os.path.dirname(os.path.abspath(__file__))


def main():
    for src in sys.argv[1:]:
        name = os.path.basename(src.rstrip("/"))
        prop = name.split("_")[0]
        scratch = tempfile.mkdtemp(prefix="vfseedp_", dir="/tmp")
        try:
            shutil.copytree("/repo/npstructures", os.path.join(scratch, "npstructures"), ignore=shutil.ignore_patterns("__pycache__"))
            rc = subprocess.run(f"git apply --whitespace=nowarn {os.path.join(VERIF, 'seeded', name, 'patch.diff')}", shell=True, cwd=scratch).returncode
            if rc != 0:
                print(name, "patch does not apply", flush=True)
                continue
            env = dict(os.environ, VERIF_REPO=scratch, VERIF_EVIDENCE_DIR=os.path.join(scratch, "evidence"))
            p = subprocess.run(f"./check {prop} --tier quick --no-bounded", shell=True, cwd=VERIF, env=env, capture_output=True, text=True, timeout=3600)
            out = p.stdout + p.stderr
            viol = [l for l in out.splitlines() if l.startswith("VIOLATION")]
            firsts = [l.strip()[:300] for l in out.splitlines() if re.match(r"^  proof", l)][:3]
            und = [l[:300] for l in out.splitlines() if l.startswith("NOTE UNDECIDED")]
            res = {"id": name, "property": prop, "cmd": f"./check {prop} --tier quick --no-bounded", "exit": p.returncode, "violation_lines": len(viol),
                   "examples": firsts, "undecided_notes": und[:5], "summary": out.strip().splitlines()[-1] if out.strip() else ""}
            with open(os.path.join(VERIF, "seeded", name, "proof_only.json"), "w") as f:
                json.dump(res, f, indent=1)
            print(name, "exit", p.returncode, "violations", len(viol), "undecided-notes", len(und), flush=True)
        finally:
            shutil.rmtree(scratch, ignore_errors=True)


if __name__ == "__main__":
    main()
