"""Bounded stand-in: shared enumeration helpers and the parallel driver.

A bounded module `vf.bounded.cXX` exposes

    PROPERTY = "CXX"
    RULE     = "how cases are enumerated and what makes one non-trivial"
    BOUNDS   = {"quick": {...}, "thorough": {...}}           # stated bounds, copied into the evidence
    def cases(tier, seed) -> iterator of JSON-serialisable dicts (deterministic; the exhaustive part first,
                             a VERIF_SEED-driven random part only in the thorough tier)
    def check(case) -> None | {"msg": str, "sig": str}         # runs the REAL library on the case and compares with
                             the oracle that the property statement names; "sig" is a short stable classifier
                             of *what* failed (used by known_findings.json), "msg" is human readable
    def nontrivial(case) -> bool

Results obtained here are always labelled `bounded`; they never count as discharged obligations.
"""
import itertools
import json
import multiprocessing as mp
import os
import sys
import time
import traceback

REPO = os.environ.get("VERIF_REPO", "/repo")


def import_repo():
    if sys.path[0] != REPO:
        sys.path.insert(0, REPO)
    import npstructures
    where = os.path.dirname(os.path.abspath(npstructures.__file__))
    if os.path.realpath(where) != os.path.realpath(os.path.join(REPO, "npstructures")):
        raise RuntimeError(f"npstructures imported from {where}, expected {REPO}/npstructures")
    return npstructures


def length_vectors(max_rows, max_len, min_rows=0):
    for n in range(min_rows, max_rows + 1):
        for ls in itertools.product(range(max_len + 1), repeat=n):
            yield list(ls)


def rows_for(lengths, base=0, step=1):
    """distinct ascending cell values so that a misplaced cell is visible"""
    out, v = [], base
    for l in lengths:
        out.append([v + step * i for i in range(l)])
        v += step * l
    return out


SLICE_BOUNDS = [None, -5, -3, -2, -1, 0, 1, 2, 3, 5]
SLICE_STEPS = [None, 1, 2, 3, -1, -2, -3]


def slices(bounds=SLICE_BOUNDS, steps=SLICE_STEPS):
    for a in bounds:
        for b in bounds:
            for s in steps:
                yield (a, b, s)


def enc_slice(s):
    return {"slice": [s.start, s.stop, s.step]}


def dec_index(x):
    """JSON encoding of index expressions: {"slice":[a,b,s]} | {"ellipsis":1} | {"mask":[...]} | {"list":[...]} | int | {"tuple":[...]}"""
    if isinstance(x, dict):
        if "slice" in x:
            return slice(*x["slice"])
        if "ellipsis" in x:
            return Ellipsis
        if "mask" in x:
            import numpy as np
            return np.array(x["mask"], dtype=bool)
        if "list" in x:
            return list(x["list"])
        if "array" in x:
            import numpy as np
            return np.array(x["array"], dtype=x.get("dtype", "int64"))
        if "tuple" in x:
            return tuple(dec_index(e) for e in x["tuple"])
    return x


def py_index_rows(rows, sel):
    """list-of-rows oracle for a row selector; returns (kind, value): kind 'rows' or 'row'"""
    import numpy as np
    if isinstance(sel, slice):
        return "rows", rows[sel]
    if sel is Ellipsis:
        return "rows", list(rows)
    if isinstance(sel, (int, np.integer)) and not isinstance(sel, bool):
        return "row", rows[sel]        # IndexError if out of range
    if isinstance(sel, np.ndarray) and sel.dtype == bool:
        if len(sel) != len(rows):
            raise IndexError("mask length")
        return "rows", [r for r, m in zip(rows, sel) if m]
    if isinstance(sel, (list, np.ndarray)):
        return "rows", [rows[int(i)] for i in sel]
    raise TypeError(sel)


# ---------------------------------------------------------------------------------------------
# driver

_MOD = None


def _init(modname, repo):
    global _MOD
    os.environ["VERIF_REPO"] = repo
    import importlib
    import warnings
    warnings.simplefilter("ignore")
    _MOD = importlib.import_module(modname)
    import_repo()


def _work(chunk):
    out = []
    nt = []
    for case in chunk:
        if _MOD.nontrivial(case):
            nt.append(hash(json.dumps(case, sort_keys=True, default=str)))
        try:
            r = _MOD.check(case)
        except Exception as e:      # the oracle itself failed: checker problem, not a violation
            r = {"msg": "checker error: " + "".join(traceback.format_exception_only(type(e), e)).strip()
                 + " @ " + traceback.format_exc(limit=-2).replace("\n", " | ")[-300:], "sig": "CHECKER-ERROR"}
        if r is not None:
            out.append((case, r))
    return len(chunk), out, nt


def run(modname, tier, seed, procs=None, max_seconds=None, chunk=200, max_violations=200):
    """-> dict(evaluations, distinct_nontrivial, violations=[(case, {msg,sig})], samples, wall_s, exhaustive, truncated)"""
    import importlib
    mod = importlib.import_module(modname)
    procs = procs or min(16, os.cpu_count() or 4)
    t0 = time.time()
    seen_nontrivial = set()
    n_eval = 0
    samples = []
    violations = []
    truncated = False
    sig_count = {}

    def chunks():
        buf = []
        for case in mod.cases(tier, seed):
            buf.append(case)
            if len(buf) >= chunk:
                yield buf
                buf = []
        if buf:
            yield buf

    ctx = mp.get_context("fork")
    with ctx.Pool(procs, initializer=_init, initargs=(modname, REPO)) as pool:
        pending = []
        gen = chunks()
        exhausted = False
        while True:
            while not exhausted and len(pending) < procs * 3:
                try:
                    ch = next(gen)
                except StopIteration:
                    exhausted = True
                    break
                for case in ch:
                    if len(samples) < 3 or (len(samples) < 6 and mod.nontrivial(case)):
                        samples.append(case)
                pending.append(pool.apply_async(_work, (ch,)))
            if not pending:
                break
            res = pending.pop(0).get(timeout=900)
            n_eval += res[0]
            for cv in res[1]:
                sig_count[cv[1]["sig"]] = sig_count.get(cv[1]["sig"], 0) + 1
                if sig_count[cv[1]["sig"]] <= 3:
                    violations.append(cv)
            seen_nontrivial.update(res[2])
            if len(sig_count) >= max_violations:
                truncated = True
                break
            if max_seconds and time.time() - t0 > max_seconds:
                truncated = True
                break
        pool.terminate()
    return {"evaluations": n_eval, "distinct_nontrivial": len(seen_nontrivial), "violations": violations,
            "samples": samples, "wall_s": time.time() - t0, "exhaustive": not truncated and tier in ("quick", "thorough"),
            "truncated": truncated, "sig_counts": sig_count, "rule": mod.RULE, "bounds": mod.BOUNDS.get(tier, {})}
