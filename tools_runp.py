import sys, time, json, collections
sys.path.insert(0,'/verif')
from vf.sym import env
env.import_repo()
import importlib
from vf.proofs import base
for m in sys.argv[1].split(','):
    importlib.import_module('vf.proofs.'+m)
only = sys.argv[2] if len(sys.argv)>2 else None
only_kind = sys.argv[3] if len(sys.argv)>3 and not sys.argv[3].startswith('-') else None
tot=collections.Counter(); t0=time.time()
for fam in base.REGISTRY:
    if only and only not in fam.name: continue
    for kind in fam.kinds():
        if only_kind and only_kind != kind: continue
        r = base.run_kind(fam, kind)
        c = collections.Counter(o['status'] for o in r['obligations'])
        tot.update(c)
        print(fam.name, kind, 'paths', r['paths'], dict(c), r['wall_s'])
        for o in r['obligations']:
            if o['status']!='proved':
                print('   ', o['name'], o['status'], o.get('reason',''), o.get('info',''), 'case=',o.get('case'), 'replay=',o.get('replay'))
                if '-v' in sys.argv: print(o.get('model'))
print(dict(tot), time.time()-t0)
