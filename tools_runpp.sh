#!/bin/bash
# all proof families, one process per module, in parallel; prints only the non-proved lines
cd "$(dirname "$0")"
mods=${1:-assign,bitarray,broadcast,colslice,columns,dataclass,derived,dispatch,frames,geometry,hashtable,indices,lemmas,reduce,rle,rle2d,rowsel,scans,structural,ufunc}
echo "$mods" | tr ',' '\n' | xargs -P 14 -I{} sh -c '.venv/bin/python tools_runp.py {} 2>&1 | grep -v "{.proved.: [0-9]*}" | cut -c1-400 | sed "s/^/[{}] /"'
