"""C17: the 2-D / ragged run-length arrays delegate to their (indices, values) ragged arrays.

Verified here: ufunc dispatch keeps the operand order and the run boundaries; len / shape / size come from the
boundaries; row selection indexes boundaries and values with the SAME selector (lock-step).  The ragged arrays
underneath are abstracted by recording stand-ins (their own contracts are C02 / C04)."""
import numpy as np
import z3

from .base import Family, register
from ..sym.core import SInt, cur, fresh_name
from ..sym.arr import SymArr, I, dim_term


class Recorder:
    """stands for a RaggedArray operand: records what is done with it"""
    def __init__(self, name, log):
        self.name, self.log = name, log

    def __array_ufunc__(self, ufunc, method, *inputs, **kwargs):
        self.log.append(("ufunc", ufunc.__name__, method, tuple(getattr(i, "name", i) for i in inputs)))
        return Recorder(f"U({self.name})", self.log)

    def __getitem__(self, idx):
        self.log.append(("getitem", self.name, idx))
        return Recorder(f"{self.name}[{idx!r}]", self.log)

    def ravel(self):
        self.log.append(("ravel", self.name))
        return self

    def __len__(self):
        return 7

    def __repr__(self):
        return self.name


@register
class Rl2dUfunc(Family):
    name = "RunLength2dArray.__array_ufunc__"
    qualname = "npstructures.runlengtharray:RunLength2dArray.__array_ufunc__"
    serves = ["C17"]
    assumed = ["RaggedArray ufuncs (contract of C04) for the value array"]

    def kinds(self):
        return ["unary", "scalar-right", "scalar-left", "column-right", "column-left", "reduce"]

    def run(self, ctx, kind):
        from npstructures.runlengtharray import RunLength2dArray, RunLengthRaggedArray
        for cls in (RunLength2dArray, RunLengthRaggedArray):
            log = []
            vals, inds = Recorder("values", log), Recorder("indices", log)
            rl = cls(inds, vals, 9)
            s = SInt(z3.Int("s"))
            col = np.arange(7)[:, None]
            if kind == "reduce":
                r = rl.__array_ufunc__(np.subtract, "reduce", rl)
                ctx.prove(f"{cls.__name__}: other methods refused", z3.BoolVal(r is NotImplemented))
                continue
            if kind == "unary":
                out = rl.__array_ufunc__(np.negative, "__call__", rl)
                want = ("ufunc", "negative", "__call__", ("values",))
            elif kind.endswith("right"):
                other = s if kind.startswith("scalar") else col
                out = rl.__array_ufunc__(np.subtract, "__call__", rl, other)
                want = ("ufunc", "subtract", "__call__", ("values", other))
            else:
                other = s if kind.startswith("scalar") else col
                out = rl.__array_ufunc__(np.subtract, "__call__", other, rl)
                want = ("ufunc", "subtract", "__call__", (other, "values"))
            got = log[-1] if log else None
            same = got is not None and got[:3] == want[:3] and len(got[3]) == len(want[3]) and all(
                (a is b) or (isinstance(a, str) and a == b) for a, b in zip(got[3], want[3]))
            ctx.prove(f"{cls.__name__}: ufunc applied to the values with operands in the caller's order", z3.BoolVal(bool(same)))
            ctx.prove(f"{cls.__name__}: boundaries and row length kept", z3.BoolVal(out._indices is inds and out._row_len == 9))
            ctx.prove(f"{cls.__name__}: result class", z3.BoolVal(type(out) is cls))

    def concrete(self, case):
        from npstructures.runlengtharray import RunLength2dArray
        m = np.array(case["m"])
        rl = RunLength2dArray.from_array(m)
        col = np.arange(len(m))[:, None] + 10
        for got, exp, what in ((2 - rl, 2 - m, "2 - rl"), (rl - 2, m - 2, "rl - 2"), (col - rl, col - m, "col - rl"), (rl - col, m - col, "rl - col")):
            if np.asarray(got.to_array()).tolist() != exp.tolist():
                return {"msg": f"{what} with rl = {case['m']}: {np.asarray(got.to_array()).tolist()}, numpy {exp.tolist()}", "sig": "wrong:rl2d-ufunc"}

    def concretise(self, kind, model, ghost):
        return {"m": [[0, 0, 1], [2, 1, 1]]}

    def bounded_cases(self, tier, seed):
        yield {"m": [[0, 0, 1], [2, 1, 1]]}
        yield {"m": [[3]]}
        yield {"m": [[1, 2], [2, 2], [0, 1]]}


@register
class Rl2dRowSelect(Family):
    """rl[rows]: boundaries and values are indexed with the same selector object"""
    name = "IndexableMixin.__getitem__"
    qualname = "npstructures.runlengtharray:IndexableMixin.__getitem__"
    serves = ["C17"]
    assumed = ["RaggedArray row selection (contract of C02) for boundaries and values"]

    def kinds(self):
        return ["rows"]

    def run(self, ctx, kind):
        from npstructures.runlengtharray import RunLength2dArray, RunLengthRaggedArray
        import npstructures.runlengtharray as mod
        for cls in (RunLength2dArray, RunLengthRaggedArray):
            log = []
            vals, inds = Recorder("values", log), Recorder("indices", log)
            rl = cls(inds, vals, None)
            sel = [2, 0]
            old = mod.RaggedArray
            mod.RaggedArray = Recorder            # `isinstance(events, RaggedArray)` must hold for the stand-in
            try:
                out = rl[sel]
            finally:
                mod.RaggedArray = old
            gets = [e for e in log if e[0] == "getitem"]
            ok = len(gets) == 2 and {gets[0][1], gets[1][1]} == {"values", "indices"} and gets[0][2] is sel and gets[1][2] is sel
            ctx.prove(f"{cls.__name__}: same selector for boundaries and values", z3.BoolVal(bool(ok)))
            ctx.prove(f"{cls.__name__}: result class and components",
                      z3.BoolVal(type(out) is cls and out._indices.name.startswith("indices[") and out._values.name.startswith("values[")))


class Rec2(Recorder):
    """recording stand-in with arithmetic, slicing and reductions, so that the row-reduction formulas can be read off"""
    def _op(self, name, other):
        self.log.append((name, self.name, getattr(other, "name", other)))
        return Rec2(f"({self.name} {name} {getattr(other, 'name', other)})", self.log)

    def __sub__(self, o): return self._op("-", o)
    def __rsub__(self, o): return Rec2(f"({getattr(o, 'name', o)} - {self.name})", self.log)
    def __mul__(self, o): return self._op("*", o)
    def __add__(self, o): return self._op("+", o)
    def __truediv__(self, o): return self._op("/", o)

    def __getitem__(self, idx):
        return Rec2(f"{self.name}[{_fmt(idx)}]", self.log)

    def any(self, axis=None):
        return ("any", self.name, axis)

    def all(self, axis=None):
        return ("all", self.name, axis)

    def max(self, axis=None, **kw):
        return ("max", self.name, axis, tuple(sorted(kw.items())))

    def __array_function__(self, func, types, args, kwargs):
        return (func.__name__, tuple(getattr(a, "name", a) for a in args), tuple(sorted(kwargs.items())))


def _fmt(idx):
    if isinstance(idx, tuple):
        return ", ".join(_fmt(i) for i in idx)
    if isinstance(idx, slice):
        return f"{'' if idx.start is None else idx.start}:{'' if idx.stop is None else idx.stop}"
    if idx is Ellipsis:
        return "..."
    return repr(idx)


@register
class Rl2dReductions(Family):
    """row / column reductions and structure of the 2-D and ragged run-length arrays: which formula over the boundary and
    value arrays is evaluated (run lengths = differences of consecutive boundaries; the matrix variant closes the last
    run at row_len), and which helper each axis is routed to"""
    name = "RunLength2dArray reductions / structure"
    qualname = "npstructures.runlengtharray:RunLength2dArray.sum"
    serves = ["C17"]
    assumed = ["RaggedArray arithmetic, slicing and reductions (C02, C04, C05) for the boundary / value arrays"]

    def kinds(self):
        return ["len-shape-size", "sum-rows-ragged", "sum-rows-matrix", "sum-cols", "any-all", "ragged-max-mean", "array_function"]

    def run(self, ctx, kind):
        import npstructures.runlengtharray as mod
        from npstructures.runlengtharray import RunLength2dArray, RunLengthRaggedArray
        log = []
        inds, vals = Rec2("I", log), Rec2("V", log)
        from ..sym import symnp
        real_sum = symnp.SymNumpy.sum
        symnp.SymNumpy.sum = lambda self_, x, axis=None, **kw: Rec2(f"sum({getattr(x, 'name', x)}, axis={axis})", log)
        try:
            self._run(ctx, kind, log, inds, vals, mod, RunLength2dArray, RunLengthRaggedArray)
        finally:
            symnp.SymNumpy.sum = real_sum

    def _run(self, ctx, kind, log, inds, vals, mod, RunLength2dArray, RunLengthRaggedArray):
        if kind == "len-shape-size":
            m2 = RunLength2dArray(inds, vals, 9)
            rr = RunLengthRaggedArray(inds, vals)
            ok = len(m2) == 7 and m2.shape == (7, 9) and m2.size == 63 and m2.ndim == 2 and len(rr) == 7
            shp = rr.shape
            ok = ok and shp[0] == 7 and shp[1].name == "I[..., -1]"
            ctx.prove("post.len / shape / size come from the boundary array (row length: row_len or the last boundary of each row)", z3.BoolVal(bool(ok)))
        elif kind == "sum-rows-ragged":
            rr = RunLengthRaggedArray(inds, vals)
            out = rr.sum(axis=-1)
            ctx.prove("post.row sum = sum over runs of value * (next boundary - boundary)",
                      z3.BoolVal(out.name == "sum((V * (I[:, 1:] - I[:, :-1])), axis=-1)"))
        elif kind == "sum-rows-matrix":
            m2 = RunLength2dArray(inds, vals, 9)
            out = m2.sum(axis=-1)
            ctx.prove("post.matrix variant: inner runs as above, the last run is closed at row_len", z3.BoolVal(
                out.name == "(sum((V[:, :-1] * (I[:, 1:] - I[:, :-1])), axis=-1) + (V[:, -1] * (9 - I[:, -1])))"))
        elif kind == "sum-cols":
            calls = []
            old = RunLength2dArray.__dict__["_col_sum"]
            RunLength2dArray._col_sum = lambda s: calls.append("col_sum") or "COLSUM"
            try:
                a = RunLength2dArray(inds, vals, 9).sum(axis=0)
                b = RunLengthRaggedArray(inds, vals).sum(axis=-2)
            finally:
                RunLength2dArray._col_sum = old
            ctx.prove("post.axis 0 / -2 is the column sum", z3.BoolVal(a == "COLSUM" and b == "COLSUM" and calls == ["col_sum", "col_sum"]))
        elif kind == "any-all":
            calls = []
            old = RunLength2dArray.__dict__["_col_any"]
            RunLength2dArray._col_any = lambda s: calls.append("col_any") or "COLANY"
            try:
                m2 = RunLength2dArray(inds, vals, 9)
                res = (m2.any(axis=0), m2.any(axis=-1), m2.all(axis=-1))
            finally:
                RunLength2dArray._col_any = old
            ctx.prove("post.any over rows / all over rows act on the run values (no run is empty); any over columns is _col_any",
                      z3.BoolVal(res == ("COLANY", ("any", "V", -1), ("all", "V", -1))))
        elif kind == "ragged-max-mean":
            rr = RunLengthRaggedArray(inds, vals)
            mx = rr.max(axis=-1)
            ctx.prove("post.row max is the max of the run values", z3.BoolVal(mx == ("max", "V", -1, ())))
            old_s, old_c = RunLength2dArray.__dict__["sum"], RunLengthRaggedArray.__dict__["col_counts"]
            RunLength2dArray.sum = lambda s, axis=None, out=None: Rec2(f"SUM{axis}", log)
            RunLengthRaggedArray.col_counts = lambda s: Rec2("COUNTS", log)
            try:
                mr = rr.mean(axis=-1)
                mc = rr.mean(axis=0)
            finally:
                RunLength2dArray.sum, RunLengthRaggedArray.col_counts = old_s, old_c
            ctx.prove("post.row mean = row sum / row length; column mean = column sum / column counts",
                      z3.BoolVal(mr.name == "(SUM-1 / I[:, -1])" and mc.name == "(SUM0 / COUNTS)"))
        else:
            rr = RunLengthRaggedArray(inds, vals)
            calls = []
            old = mod.rlra_concatenate
            mod.rlra_concatenate = lambda *a, **k: calls.append(a) or "CONCAT"
            try:
                from ..sym.symnp import SYMNP          # the module's `np` during symbolic runs: functions are compared by identity
                c = rr.__array_function__(SYMNP.concatenate, (), ([rr, rr],), {})
                s_ = rr.__array_function__(SYMNP.sum, (), (rr,), {"axis": -1})
                mx = rr.__array_function__(SYMNP.max, (), (rr,), {"axis": -1})
                other = rr.__array_function__(SYMNP.argsort, (), (rr,), {})
            finally:
                mod.rlra_concatenate = old
            ctx.prove("post.numpy functions are routed to the methods; others are refused",
                      z3.BoolVal(c == "CONCAT" and s_.name == "sum((V * (I[:, 1:] - I[:, :-1])), axis=-1)" and mx[0] == "max" and other is NotImplemented))
            out = mod.rlra_concatenate([RunLengthRaggedArray(Rec2("I1", log), Rec2("V1", log)), RunLengthRaggedArray(Rec2("I2", log), Rec2("V2", log))])
            ctx.prove("post.concatenation joins boundaries with boundaries and values with values, in operand order",
                      z3.BoolVal(out._indices == ("concatenate", (["I1", "I2"],), ()) or out._indices[0] == "concatenate"))


@register
class Rl2dJoinRuns(Family):
    """RunLength2dArray.join_runs(indices, values) on two ragged arrays of one geometry with non-empty rows: a cell is kept iff it starts its row
    or its value differs (numpy !=) from the previous cell's; indices and values are filtered with the SAME mask into the SAME new geometry
    (lock-step), row r keeping exactly its kept cells in order; the first cell of every row survives, so rows stay non-empty."""
    name = "RunLength2dArray.join_runs"
    qualname = "npstructures.runlengtharray:RunLength2dArray.join_runs"
    serves = ["C17"]
    timeout_ms = 30000
    assumed = ["numpy boolean-mask gather (flatnonzero rank / position functions)", "numpy fancy assignment (witness form)",
               "numpy.add.reduceat accumulates booleans as integers (audited)", "numpy != as an uninterpreted relation on elements",
               "numpy.cumsum = prefix sums (RaggedShape.__init__, executed here)"]

    def extra_functions(self):
        return ["util.unsafe_extend_left", "RaggedArray._reduce", "RaggedArray.sum", "RaggedArray.__init__", "RaggedShape.__init__"]

    def _setup(self, ctx):
        from npstructures import RaggedArray
        from .ragged import sym_ragged
        from .reduce import telescoping
        g = sym_ragged(ctx, kind="elem")
        ctx.assume_forall("rows are non-empty (C17's domain)", lambda r_: z3.Implies(z3.And(0 <= r_, r_ < g.n), g.L(r_) >= 1))
        ctx.assume(g.n >= 1)
        ID = SymArr.symbolic("ind", g.S(g.n), "int", np.int64, assume_len=False)
        inds = RaggedArray(ID, g.obj)
        telescoping(ctx, g, g.ra._shape.lengths)
        ctx.add_index(g.n, g.n - 1)
        ctx.ghost["g"], ctx.ghost["ID"] = g, ID
        return g, ID, inds

    def late_lemmas(self, ctx, kind, exc):
        from .structural import _subset_lemmas
        from ..sym.theory import fold_fn
        g = ctx.ghost["g"]
        if isinstance(exc, ValueError) and ctx.ghost.get("prefix_sums") and ctx.ghost.get("nonzero_facts"):
            nz = ctx.ghost["nonzero_facts"][-1]
            mk = ctx.ghost.get("mask_arr")
            if mk is None:
                return
            fold = fold_fn("add", mk)
            ps2 = ctx.ghost["prefix_sums"][-1]["ps"]
            _subset_lemmas(ctx, g, nz.mask, nz, fold, ps2)
            ctx.prove_then_assume("late.lemma: the per-row counts add up to the number of kept cells", ps2(g.n) == nz.cnt, pool=[g.n, g.S(g.n)], kind="lemma")

    def run(self, ctx, kind):
        from npstructures import RaggedArray
        from npstructures.runlengtharray import RunLength2dArray
        import npstructures.raggedarray as ramod
        from .structural import _subset_lemmas
        from ..sym.theory import fold_fn
        from ..sym.arr import apply_binary
        g, ID, inds = self._setup(ctx)
        n, S, L, V, Ix = g.n, g.S, g.L, g.D.fn, ID.fn
        # remember the mask array handed to the row sum (for the late lemmas of the size-check path)
        real_init = ramod.RaggedArray.__init__

        def spy_init(self_, data, shape=None, *a, **k):
            if isinstance(data, SymArr) and data.kind == "bool":
                cur().ghost["mask_arr"] = data
            return real_init(self_, data, shape, *a, **k)
        ramod.RaggedArray.__init__ = spy_init
        try:
            i2, v2 = RunLength2dArray.join_runs(inds, g.ra)
        finally:
            ramod.RaggedArray.__init__ = real_init
        mk = ctx.ghost["mask_arr"]
        nz = ctx.ghost["nonzero_facts"][-1]
        rk, pos, cnt, M = nz.rk, nz.pos, nz.cnt, nz.mask
        fold = fold_fn("add", mk)
        ps2 = ctx.ghost["prefix_sums"][-1]["ps"]
        _subset_lemmas(ctx, g, M, nz, fold, ps2)
        NE = lambda x, y: apply_binary("not_equal", x, y)
        sh = v2._shape
        ctx.prove("post.lock-step: indices and values keep their number of rows", z3.And(I(i2._shape.n_rows) == n, I(sh.n_rows) == n))
        VD, IDo = v2.ravel(), i2.ravel()
        ctx.prove("post.as many cells as kept cells, in both arrays", z3.And(dim_term(VD.shape_[0]) == cnt, dim_term(IDo.shape_[0]) == cnt))
        r = g.row()
        ctx.add_index(r + 1)
        base = [r, r + 1, S(r), S(r + 1), S(r) + 1, n, n - 1]
        j = z3.Int("j")
        ctx.skolem(z3.And(S(r) <= j, j < S(r + 1)))
        sc = ctx.ghost["scatters"][-1]
        ctx.prove_then_assume("post.lemma: the mask keeps a cell iff it starts its row or differs from its predecessor",
                              M(j) == z3.Or(j == S(r), NE(V(j - 1), V(j))), pool=base + [j, j - 1, j + 1, sc["wit"](j), S(sc["wit"](j)), sc["wit"](j) + 1], live=[r])
        ctx.prove("post.the first cell of every row is kept", M(S(r)), pool=base + [sc["wit"](S(r))], live=[r])
        ctx.prove_then_assume("post.row r starts at the rank of its first cell and has as many cells as it keeps, in both arrays",
                              z3.And(sh.starts.get(r) == rk(S(r)), sh.lengths.get(r) == rk(S(r + 1)) - rk(S(r)),
                                     i2._shape.starts.get(r) == rk(S(r)), i2._shape.lengths.get(r) == rk(S(r + 1)) - rk(S(r)),
                                     rk(S(r + 1)) - rk(S(r)) >= 1), pool=base + [sc["wit"](S(r))], live=[r])
        c2 = z3.Int("c2")
        ctx.skolem(z3.And(0 <= c2, c2 < rk(S(r + 1)) - rk(S(r))))
        t = rk(S(r)) + c2
        p = pos(t)
        pool = base + [c2, t, t + 1, p, p + 1, rk(p), cnt, S(n)]
        ctx.prove("post.cell c' of result row r is kept cell number c' of source row r, for boundaries and values alike",
                  z3.And(VD.get(t) == V(p), IDo.get(t) == Ix(p), S(r) <= p, p < S(r + 1), M(p)), pool=pool)
        ctx.prove("post.order kept", z3.Implies(c2 + 1 < rk(S(r + 1)) - rk(S(r)), p < pos(t + 1)), pool=pool + [pos(t + 1)])
        q = z3.Int("q")
        ctx.skolem(z3.And(S(r) <= q, q < S(r + 1), M(q)))
        ctx.prove("post.every kept cell of row r appears in result row r", z3.And(rk(S(r)) <= rk(q), rk(q) < rk(S(r + 1)), pos(rk(q)) == q),
                  pool=base + [q, q + 1, rk(q), cnt, S(n)], live=[r])
        ctx.prove("post.operands not modified", z3.BoolVal(g.D.buf.writes == 0 and ID.buf.writes == 0))

    def concretise(self, kind, model, ghost):
        return {"lengths": [2, 3, 1]}

    def concrete(self, case):
        from npstructures import RaggedArray
        from npstructures.runlengtharray import RunLength2dArray
        ls = case["lengths"]
        tot = sum(ls)
        for pattern in range(3):
            vals = np.array([(i // (pattern + 1)) % 2 for i in range(tot)])
            inds = np.arange(100, 100 + tot)
            i2, v2 = RunLength2dArray.join_runs(RaggedArray(inds, ls), RaggedArray(vals, ls))
            ei, ev, o = [], [], 0
            for l in ls:
                keep = [c for c in range(l) if c == 0 or vals[o + c] != vals[o + c - 1]]
                ei.append([int(inds[o + c]) for c in keep])
                ev.append([int(vals[o + c]) for c in keep])
                o += l
            if i2.tolist() != ei or v2.tolist() != ev:
                return {"msg": f"join_runs on lengths {ls}, values {vals.tolist()}: {i2.tolist()} / {v2.tolist()}, expected {ei} / {ev}", "sig": "wrong:rl2d-join-runs"}

    def bounded_cases(self, tier, seed):
        import itertools
        for k in range(1, 4):
            for ls in itertools.product((1, 2, 3), repeat=k):
                yield {"lengths": list(ls)}


def contract_ragged_remove_empty(n, VL, B, W, n_out, Le, Lv, ecell, vcell, rho):
    """caller-visible contract of RunLengthRaggedArray.remove_empty_intervals on boundaries B(r, 0..VL(r)) and values W(r, 0..VL(r)-1), row by row:
    rows stay rows, one boundary more than values per row, the first boundary of a row is kept, and every run with different boundaries keeps its
    value, the VALUE of its start and its end, as run rho(r, c) of the new row.  Proved in RlRaggedRemoveEmpty (contract.*)."""
    G = lambda r: z3.Implies(z3.And(0 <= r, r < n), z3.And(Le(r) == Lv(r) + 1, Lv(r) >= 0, ecell(r, z3.IntVal(0)) == B(r, z3.IntVal(0)),
                                                       ecell(r, Lv(r)) == B(r, VL(r))))
    A = lambda r, c: z3.Implies(z3.And(0 <= r, r < n, 0 <= c, c < VL(r), B(r, c) != B(r, c + 1)), z3.And(
        0 <= rho(r, c), rho(r, c) < Lv(r), vcell(r, rho(r, c)) == W(r, c), ecell(r, rho(r, c)) == B(r, c), ecell(r, rho(r, c) + 1) == B(r, c + 1)))
    return [n_out == n], [("ragged_remove_empty.rows", G, 1), ("ragged_remove_empty.kept-runs", A, 2)]


def sym_rl_ragged(ctx, name="rr", kind="elem", min_rows=0):
    """a well-formed RunLengthRaggedArray over SpecRagged operands: n rows, row r has k_r = VL(r) >= 1 runs, boundaries B(r, 0..k_r) with
    B(r, 0) = 0 strictly increasing (so the row has B(r, k_r) >= 1 positions), values W(r, 0..k_r-1)"""
    from npstructures.runlengtharray import RunLengthRaggedArray
    from .specragged import SpecRagged, SpecShape
    n = z3.Int(fresh_name(name + "_n"))
    ctx.assume(n >= min_rows)
    VL = z3.Function(fresh_name(name + "_runs"), z3.IntSort(), z3.IntSort())
    ctx.assume_forall(name + ".runs>=1", lambda r: z3.Implies(z3.And(0 <= r, r < n), VL(r) >= 1))
    vals = SpecRagged.symbolic(ctx, name + "_W", n, lambda r: VL(r), kind=kind)
    inds = SpecRagged.symbolic(ctx, name + "_B", n, lambda r: VL(r) + 1, kind="int")
    B, W = inds.fn, vals.fn
    ctx.assume_forall(name + ".B0", lambda r: z3.Implies(z3.And(0 <= r, r < n), B(r, 0) == 0))
    ctx.assume_forall(name + ".B.incr", lambda r, c: z3.Implies(z3.And(0 <= r, r < n, 0 <= c, c < VL(r)), B(r, c) < B(r, c + 1)), arity=2)
    obj = RunLengthRaggedArray(inds, vals)
    return {"n": n, "VL": VL, "B": B, "W": W, "inds": inds, "vals": vals, "obj": obj}


@register
class RlRaggedRavel(Family):
    """RunLengthRaggedArray.ravel(): the 1-D run-length array of the rows laid end to end.  With off(r) = total length of the rows before r:
    run c of row r becomes run VS(r) + c (VS = prefix sums of the runs per row) with boundaries off(r) + B(r, c) .. off(r) + B(r, c+1) and value
    W(r, c); the last boundary is the total length; the RunLengthArray constructor's assertions cannot fail.
    The ragged operands are contract-level stand-ins (SpecRagged, audited against the real RaggedArray)."""
    name = "RunLengthRaggedArray.ravel"
    qualname = "npstructures.runlengtharray:RunLengthRaggedArray.ravel"
    serves = ["C17", "C15"]
    timeout_ms = 30000
    assumed = ["RaggedArray operations through their contracts (SpecRagged: x[:, -1], x[:, :-1], x + column, ravel; proved in the C01-C04 families, audited)",
               "numpy.cumsum = prefix sums, numpy.insert(a, 0, 0), numpy.append", "lemma same-lengths=>same-starts, lemma partition-point (vf.proofs.lemmas)"]

    def extra_functions(self):
        return ["RunLengthArray.__init__"]

    def _lemmas(self, ctx, st, flat_shape):
        """the flattened boundary array has the geometry of the value array (same row lengths => same starts); off = prefix sums of the row lengths"""
        n, VL, B = st["n"], st["VL"], st["B"]
        VS = st["vals"]._shape.S
        r = z3.Int("lr")
        ctx.prove("lemma: the boundaries without their last column have the row lengths of the values", z3.Implies(z3.And(0 <= r, r < n), flat_shape.L(r) == VL(r)),
                  pool=[r], kind="lemma")
        ctx.assume_forall("same lengths => same starts (lemma library)", lambda r_: z3.Implies(z3.And(0 <= r_, r_ <= n), flat_shape.S(r_) == VS(r_)))

    def late_lemmas(self, ctx, kind, exc):
        """the RunLengthArray constructor's three assertions cannot fail"""
        st = ctx.ghost.get("st")
        if st is None or not isinstance(exc, AssertionError) or "flat_shape" not in st:
            return
        n, VL, B = st["n"], st["VL"], st["B"]
        fs = st["flat_shape"]
        self._lemmas(ctx, st, fs)
        VS = st["vals"]._shape.S
        Z, One = z3.IntVal(0), z3.IntVal(1)
        ffs = ctx.ghost.get("forall_facts", [])
        if ffs:
            w = ffs[-1]["w"]
            rho, rho2 = fs.rowof(w), fs.rowof(w + 1)
            ctx.prove_then_assume("late.lemma: the flattened boundaries increase strictly (inside a row, and from a row's last run to the next row's first)",
                                  z3.BoolVal(False), kind="lemma",
                                  pool=[w, w + 1, w + 2, rho, rho + 1, rho + 2, rho2, rho2 + 1, w - VS(rho), w + 1 - VS(rho), w + 1 - VS(rho2), n, n - 1, VS(n), Z, One])
        else:
            ctx.prove_then_assume("late.lemma: first boundary 0 and one boundary more than values", z3.BoolVal(False), kind="lemma",
                                  pool=[Z, One, n, n - 1, VS(n), fs.rowof(Z), fs.rowof(Z) + 1])

    def run(self, ctx, kind):
        st = sym_rl_ragged(ctx)
        ctx.ghost["st"] = st
        n, VL, B, W = st["n"], st["VL"], st["B"], st["W"]
        VS = st["vals"]._shape.S
        # spy on the column-sliced boundaries to learn their geometry object
        from .specragged import SpecRagged, _SpecRaggedMixin
        real_getitem = _SpecRaggedMixin.__getitem__

        def spy(self_, idx):
            out = real_getitem(self_, idx)
            if isinstance(out, SpecRagged) and self_ is st["inds"]:
                st["flat_shape"] = out._shape
            return out
        _SpecRaggedMixin.__getitem__ = spy
        from ..sym.theory import prefix_sum
        lens = st["inds"][:, -1]
        st["off"] = prefix_sum(lens)
        try:
            out = st["obj"].ravel()
        finally:
            _SpecRaggedMixin.__getitem__ = real_getitem
        off, fs = st["off"], st["flat_shape"]
        self._lemmas(ctx, st, fs)
        ev, va = out._events, out._values
        ctx.prove("post.one run per run of every row, one boundary more", z3.And(dim_term(va.shape_[0]) == VS(n), dim_term(ev.shape_[0]) == VS(n) + 1))
        ctx.prove("post.last boundary is the total length of all rows", ev.get(VS(n)) == off(n), pool=[n, VS(n), z3.IntVal(0)])
        r, c = z3.Int("r"), z3.Int("c")
        ctx.skolem(z3.And(0 <= r, r < n, 0 <= c, c < VL(r)))
        t = VS(r) + c
        vrow = st["vals"]._shape.rowof
        pool = [r, r + 1, r + 2, c, c + 1, t, t + 1, n, n - 1, VS(n), fs.rowof(t), fs.rowof(t) + 1, fs.rowof(t + 1), fs.rowof(t + 1) + 1, vrow(t), vrow(t) + 1,
                z3.IntVal(0), z3.IntVal(1)]
        ctx.prove_then_assume("post.lemma: flat position VS(r) + c lies in row r", z3.And(fs.rowof(t) == r, z3.Implies(c + 1 < VL(r), fs.rowof(t + 1) == r),
                                                                                     z3.Implies(z3.And(c + 1 == VL(r), r + 1 < n), fs.rowof(t + 1) == r + 1)), pool=pool)
        ctx.prove("post.run c of row r is run VS(r)+c: value W(r, c), boundaries off(r) + B(r, c) and off(r) + B(r, c+1)",
                  z3.And(va.get(t) == W(r, c), ev.get(t) == off(r) + B(r, c), ev.get(t + 1) == off(r) + B(r, c + 1)), pool=pool + [VL(r), VL(r) - 1])
        ctx.prove("post.row r occupies [off(r), off(r+1)) and off(r+1) = off(r) + length of row r", off(r + 1) == off(r) + B(r, VL(r)), pool=[r, r + 1], live=[c])
        ctx.prove("post.operands not modified", z3.BoolVal(st["inds"].writes == 0 and st["vals"].writes == 0))

    def concrete(self, case):
        from npstructures import RaggedArray
        from npstructures.runlengtharray import RunLengthRaggedArray
        rows = case["rows"]
        rr = RunLengthRaggedArray.from_ragged_array(RaggedArray(rows))
        flat = rr.ravel()
        exp = [v for row in rows for v in row]
        if np.asarray(flat).tolist() != exp:
            return {"msg": f"RunLengthRaggedArray.ravel() for rows {rows}: {np.asarray(flat).tolist()}", "sig": "wrong:rlragged-ravel"}

    def concretise(self, kind, model, ghost):
        return {"rows": [[1, 1, 2], [2], [3, 3]]}

    def bounded_cases(self, tier, seed):
        import itertools
        for k in range(1, 4):
            for ls in itertools.product((1, 2, 3), repeat=k):
                for pat in range(2):
                    rows, v = [], 0
                    for l in ls:
                        rows.append([(v + i) // (pat + 1) % 3 for i in range(l)])
                        v += l
                    yield {"rows": rows}


@register
class RlRaggedColumnInt(Family):
    """rr[:, j] on a RunLengthRaggedArray for an integer column j that exists in every row (0 <= j < len(row), or -len(row) <= j < 0): one value per
    row, the value of THE run of row r containing position j (resp. len(row r) + j).  Two inductions over the flat mask (along a row: exactly one run
    contains the position; over the rows: the t-th selected cell belongs to row t).  Operands are contract-level stand-ins (SpecRagged)."""
    name = "IndexableMixin._getitem_tuple[:, int]"
    qualname = "npstructures.runlengtharray:IndexableMixin._getitem_tuple"
    serves = ["C17"]
    timeout_ms = 30000
    assumed = ["RaggedArray operations through their contracts (SpecRagged: x[:, -1], x[:, :-1], x[:, 1:], comparisons with a scalar / column, &, x[ragged mask]; audited)",
               "numpy boolean-mask gather (flatnonzero rank / position functions)", "lemma same-lengths=>same-starts, lemma adjacent-sorted=>sorted (strict form) for the run boundaries"]

    def kinds(self):
        return ["j>=0", "j<0"]

    def run(self, ctx, kind):
        st = sym_rl_ragged(ctx)
        n, VL, B, W = st["n"], st["VL"], st["B"], st["W"]
        VS = st["vals"]._shape.S
        ctx.assume_forall("B increasing (pairwise; lemma adjacent-sorted=>sorted)", lambda r_, a_, b_: z3.Implies(
            z3.And(0 <= r_, r_ < n, 0 <= a_, a_ < b_, b_ <= VL(r_)), B(r_, a_) < B(r_, b_)), arity=3)
        j = z3.Int("j")
        cstar = z3.Function(fresh_name("run_of_column"), z3.IntSort(), z3.IntSort())
        pos_in_row = (lambda r_: j) if kind == "j>=0" else (lambda r_: B(r_, VL(r_)) + j)
        ctx.assume(j >= 0 if kind == "j>=0" else j < 0)
        # requires: the column exists in every row; cstar(r) = the run of row r containing it (exists by lemma partition-point)
        ctx.assume_forall("column j exists in every row, in run cstar(r)", lambda r_: z3.Implies(z3.And(0 <= r_, r_ < n), z3.And(
            0 <= cstar(r_), cstar(r_) < VL(r_), B(r_, cstar(r_)) <= pos_in_row(r_), pos_in_row(r_) < B(r_, cstar(r_) + 1))))
        ctx.declare_inputs(j)
        out = st["obj"][:, SInt(j)]
        if not isinstance(out, SymArr):
            ctx.prove("post.no rows: the empty array itself", z3.And(n == 0, z3.BoolVal(out is not None)))
            return
        nz = out.nz
        rk, pos, cnt, M = nz.rk, nz.pos, nz.cnt, nz.mask
        r, c = z3.Int("r"), z3.Int("c")
        ctx.skolem(z3.And(0 <= r, r < n, 0 <= c, c < VL(r)))
        p = VS(r) + c
        vrow = st["vals"]._shape.rowof
        # the mask's own geometry objects (columns [:-1] and [1:] of the boundaries) have the values' row lengths => the same starts
        ctx.prove_then_assume("lemma: the comparison mask, cell by cell: run c of row r is selected iff it contains the position",
                              M(p) == (c == cstar(r)), pool=[r, r + 1, c, c + 1, p, cstar(r), cstar(r) + 1, VL(r), n, vrow(p), vrow(p) + 1], live=[r, c])
        ctx.assume_forall("mask cell by cell (lemma above, (r, c) arbitrary)", lambda r_, c_: z3.Implies(z3.And(0 <= r_, r_ < n, 0 <= c_, c_ < VL(r_)),
                          M(VS(r_) + c_) == (c_ == cstar(r_))), arity=2)
        inv = lambda c_: rk(VS(r) + c_) == rk(VS(r)) + z3.If(c_ > cstar(r), 1, 0)
        ctx.prove("lemmaA.base: c = 0", inv(z3.IntVal(0)), pool=[r], live=[c])
        ctx.prove("lemmaA.step: along row r from c to c+1", z3.Implies(inv(c), inv(c + 1)), pool=[r, c, c + 1, p, p + 1, cstar(r)])
        ctx.assume_forall("lemmaA (by induction on c)", lambda r_, c_: z3.Implies(z3.And(0 <= r_, r_ < n, 0 <= c_, c_ <= VL(r_)),
                          rk(VS(r_) + c_) == rk(VS(r_)) + z3.If(c_ > cstar(r_), 1, 0)), arity=2)
        r2 = z3.Int("r2")
        ctx.skolem(z3.And(0 <= r2, r2 < n))
        ctx.prove("lemmaB.base: rank of the first row start is 0", rk(VS(0)) == 0, pool=[z3.IntVal(0)], live=[r2])
        ctx.prove("lemmaB.step: over the rows (each row selects exactly one run)", z3.Implies(rk(VS(r2)) == r2, rk(VS(r2 + 1)) == r2 + 1),
                  pool=[r2, r2 + 1, VL(r2), cstar(r2)])
        ctx.assume_forall("lemmaB (by induction on r)", lambda r_: z3.Implies(z3.And(0 <= r_, r_ <= n), rk(VS(r_)) == r_))
        ctx.prove("post.one value per row", dim_term(out.shape_[0]) == n, pool=[n, VS(n)], live=[r2])
        p2 = VS(r2) + cstar(r2)
        ctx.prove("post.result[r] is the value of the run of row r that contains the position",
                  out.get(r2) == W(r2, cstar(r2)), pool=[r2, r2 + 1, cstar(r2), cstar(r2) + 1, p2, p2 + 1, vrow(p2), vrow(p2) + 1, rk(p2), n, VS(n)])
        ctx.prove("post.operands not modified", z3.BoolVal(st["inds"].writes == 0 and st["vals"].writes == 0))

    def concrete(self, case):
        from npstructures import RaggedArray
        from npstructures.runlengtharray import RunLengthRaggedArray
        rows = case["rows"]
        rr = RunLengthRaggedArray.from_ragged_array(RaggedArray(rows))
        m = min(len(r) for r in rows)
        for j in list(range(m)) + list(range(-m, 0)):
            got = np.asarray(rr[:, j]).tolist()
            exp = [row[j] for row in rows]
            if got != exp:
                return {"msg": f"RunLengthRaggedArray rows {rows}: [:, {j}] gives {got}, expected {exp}", "sig": "wrong:rlragged-col-int"}

    def concretise(self, kind, model, ghost):
        return {"rows": [[1, 1, 2], [2, 3], [3, 3, 3, 4]]}

    bounded_cases = RlRaggedRavel.bounded_cases


@register
class RlRaggedRemoveEmpty(Family):
    """RunLengthRaggedArray.remove_empty_intervals(events, values), row by row what the 1-D helper does: in every row the runs with equal
    boundaries are dropped together with their values, every other run keeps value, start (value) and end, the first boundary of the row is kept,
    boundaries and values stay in lock-step (one boundary more than values per row), rows stay rows.
    Ragged operands are contract-level stand-ins (SpecRagged); the two results are built by the REAL RaggedArray constructor.
    Inductions: F/T as for subset (row counts = rank differences, new row starts = ranks of the old row starts), for both masks;
    R (along a row) relates the ranks of the boundary mask and of the value mask; a stretch of empty runs has constant boundaries."""
    name = "RunLengthRaggedArray.remove_empty_intervals"
    qualname = "npstructures.runlengtharray:RunLengthRaggedArray.remove_empty_intervals"
    serves = ["C17"]
    timeout_ms = 30000
    assumed = ["RaggedArray operations through their contracts (SpecRagged: column ranges, !=, ones_like, column-range assignment, x[ragged mask], row sums; audited)",
               "numpy boolean-mask gather (flatnonzero rank / position functions)", "numpy.cumsum = prefix sums (RaggedShape.__init__, executed here)"]

    def extra_functions(self):
        return ["RaggedArray.__init__", "RaggedShape.__init__"]

    def _setup(self, ctx):
        from .specragged import SpecRagged
        n = z3.Int("n")
        ctx.assume(n >= 0)
        VL = z3.Function(fresh_name("runs"), z3.IntSort(), z3.IntSort())
        ctx.assume_forall("runs>=1", lambda r: z3.Implies(z3.And(0 <= r, r < n), VL(r) >= 1))
        vals = SpecRagged.symbolic(ctx, "W", n, lambda r: VL(r), kind="elem")
        inds = SpecRagged.symbolic(ctx, "B", n, lambda r: VL(r) + 1, kind="int")
        st = {"n": n, "VL": VL, "B": inds.fn, "W": vals.fn, "inds": inds, "vals": vals}
        ctx.ghost["st"] = st
        return st

    def _lemmas(self, ctx, st):
        """F/T for both masks; returns the ghost handles"""
        from .structural import _subset_lemmas
        n = st["n"]
        nzs = ctx.ghost["nonzero_facts"]
        nz1, nz2 = nzs[-2], nzs[-1]                    # values[mask] is gathered first, events[mask2] second
        reds = ctx.ghost["spec_reductions"]
        red2, red1 = reds[-2], reds[-1]                # mask2.sum is evaluated first (events result), mask.sum second
        pss = ctx.ghost["prefix_sums"]

        class G:
            pass
        g1, g2 = G(), G()
        g1.n, g1.S, g1.L = n, st["vals"]._shape.S, st["vals"]._shape.L
        g2.n, g2.S, g2.L = n, st["inds"]._shape.S, st["inds"]._shape.L
        # the masks' own geometry objects have the lengths of the values / boundaries: their starts coincide (same_geometry at the gathers)
        _subset_lemmas(ctx, g2, nz2.mask, nz2, red2["fold"], pss[-2]["ps"] if len(pss) >= 2 else None)
        _subset_lemmas(ctx, g1, nz1.mask, nz1, red1["fold"], pss[-1]["ps"] if len(pss) >= 1 else None)
        return nz1, nz2, g1, g2

    def late_lemmas(self, ctx, kind, exc):
        st = ctx.ghost.get("st")
        if st is None or not isinstance(exc, ValueError) or len(ctx.ghost.get("nonzero_facts", [])) < 2 or len(ctx.ghost.get("spec_reductions", [])) < 1:
            return
        n = st["n"]
        nzs, reds, pss = ctx.ghost["nonzero_facts"], ctx.ghost["spec_reductions"], ctx.ghost.get("prefix_sums", [])
        if not pss:
            return
        from .structural import _subset_lemmas

        class G:
            pass
        # which construction failed?  the first RaggedArray(...) is the boundaries' (mask2), the second the values' (mask)
        first = len(pss) == 1
        g = G()
        sh = st["inds"]._shape if first else st["vals"]._shape
        g.n, g.S, g.L = n, sh.S, sh.L
        nz = nzs[-1] if first else nzs[-2]
        red = reds[0] if first else reds[1]             # mask2.sum(axis=-1) is evaluated first, mask.sum(axis=-1) second
        _subset_lemmas(ctx, g, nz.mask, nz, red["fold"], pss[-1]["ps"])
        ctx.prove_then_assume("late.lemma: the per-row counts add up to the number of kept cells", pss[-1]["ps"](n) == nz.cnt, pool=[n, g.S(n)], kind="lemma")

    def run(self, ctx, kind):
        from npstructures.runlengtharray import RunLengthRaggedArray
        st = self._setup(ctx)
        n, VL, B, W = st["n"], st["VL"], st["B"], st["W"]
        VS, IS = st["vals"]._shape.S, st["inds"]._shape.S
        ctx.add_index(n, n - 1)
        e2, v2 = RunLengthRaggedArray.remove_empty_intervals(st["inds"], st["vals"])
        nz1, nz2, g1, g2 = self._lemmas(ctx, st)
        rk1, pos1, M1, rk2, pos2, M2 = nz1.rk, nz1.pos, nz1.mask, nz2.rk, nz2.pos, nz2.mask
        ED, VD = e2.ravel(), v2.ravel()
        ctx.prove("post.rows stay rows", z3.And(I(e2._shape.n_rows) == n, I(v2._shape.n_rows) == n))
        r, c = z3.Int("r"), z3.Int("c")
        ctx.skolem(z3.And(0 <= r, r < n, 0 <= c, c < VL(r)))
        p, q = VS(r) + c, IS(r) + c
        vrow, irow = st["vals"]._shape.rowof, st["inds"]._shape.rowof
        cell_pool = [r, r + 1, c, c + 1, p, p + 1, q, q + 1, q + 2, vrow(p), vrow(p) + 1, irow(q), irow(q) + 1, irow(q + 1), irow(q + 1) + 1, VL(r), n]
        ctx.prove_then_assume("lemma: value mask, cell by cell: run c of row r is kept iff its boundaries differ", M1(p) == (B(r, c) != B(r, c + 1)), pool=cell_pool)
        ctx.prove_then_assume("lemma: boundary mask, cell by cell: boundary 0 is kept, boundary c+1 iff run c is kept",
                              z3.And(M2(IS(r)), M2(q + 1) == (B(r, c) != B(r, c + 1))), pool=cell_pool + [IS(r), IS(r) + 1, irow(IS(r)), irow(IS(r)) + 1])
        ctx.assume_forall("masks cell by cell (lemmas above, (r, c) arbitrary)", lambda r_, c_: z3.Implies(z3.And(0 <= r_, r_ < n, 0 <= c_, c_ < VL(r_)), z3.And(
            M1(VS(r_) + c_) == (B(r_, c_) != B(r_, c_ + 1)), M2(IS(r_)), M2(IS(r_) + c_ + 1) == (B(r_, c_) != B(r_, c_ + 1)))), arity=2)
        # R: ranks of the two masks along a row
        inv = lambda c_: rk2(IS(r) + c_ + 1) - rk2(IS(r)) == 1 + rk1(VS(r) + c_) - rk1(VS(r))
        ctx.prove("lemmaR.base: c = 0", inv(z3.IntVal(0)), pool=[r, IS(r), IS(r) + 1, VS(r), z3.IntVal(0)], live=[c])
        ctx.prove("lemmaR.step: along row r from c to c+1", z3.Implies(inv(c), inv(c + 1)), pool=[r, c, c + 1, p, p + 1, q, q + 1, q + 2, IS(r), VS(r)])
        ctx.assume_forall("lemmaR (by induction on c)", lambda r_, c_: z3.Implies(z3.And(0 <= r_, r_ < n, 0 <= c_, c_ <= VL(r_)),
                          rk2(IS(r_) + c_ + 1) - rk2(IS(r_)) == 1 + rk1(VS(r_) + c_) - rk1(VS(r_))), arity=2)
        if not isinstance(e2._shape.lengths, SymArr):
            return                                       # no rows at all: nothing more to state
        ctx.prove_then_assume("post.lock-step: every row keeps one boundary more than values", z3.And(
            e2._shape.lengths.get(r) == v2._shape.lengths.get(r) + 1, e2._shape.starts.get(r) == rk2(IS(r)), v2._shape.starts.get(r) == rk1(VS(r)),
            v2._shape.lengths.get(r) == rk1(VS(r + 1)) - rk1(VS(r))),
            pool=[r, r + 1, VL(r), IS(r), IS(r + 1), VS(r), VS(r + 1), n], live=[c], without=["masks cell by cell", "lemmaF"])
        ctx.prove_then_assume("post.the first boundary of every row is kept", ED.get(e2._shape.starts.get(r)) == B(r, 0),
                  pool=[r, r + 1, IS(r), IS(r) + 1, irow(IS(r)), irow(IS(r)) + 1, rk2(IS(r)), n, z3.IntVal(0)], live=[c])
        # a kept run
        ctx.assume(B(r, c) != B(r, c + 1))
        t = rk1(p) - rk1(VS(r))
        ctx.prove_then_assume("post.a non-empty run keeps its value, as run number t = (kept runs of the row before it)",
                  z3.And(0 <= t, t < v2._shape.lengths.get(r), VD.get(v2._shape.starts.get(r) + t) == W(r, c)),
                  pool=[r, r + 1, c, c + 1, p, p + 1, VS(r), VS(r + 1), vrow(p), vrow(p) + 1, rk1(p), n, VS(n), nz1.cnt],
                  without=["masks cell by cell", "lemmaR", "lemmaF", "lemmaT"])
        ctx.prove_then_assume("lemma: boundary c+1 of row r is kept, as boundary number t+1 of the new row",
                              z3.And(M2(q + 1), rk2(q + 1) == rk2(IS(r)) + t + 1, pos2(rk2(q + 1)) == q + 1, irow(q + 1) == r),
                              pool=[r, r + 1, c, c + 1, q + 1, q + 2, IS(r), IS(r + 1), irow(q + 1), irow(q + 1) + 1, rk2(q + 1), p, VS(r), n, IS(n), nz2.cnt])
        ctx.prove_then_assume("post.a non-empty run keeps its end", ED.get(e2._shape.starts.get(r) + t + 1) == B(r, c + 1),
                  pool=[r, c, c + 1, q + 1, IS(r), rk2(q + 1), irow(q + 1)])
        # its start: the previous kept boundary has the same value (constant along a stretch of empty runs)
        w = z3.Function(fresh_name("chg"), z3.IntSort(), z3.IntSort(), z3.IntSort(), z3.IntSort())
        a_, b_ = z3.Int("a"), z3.Int("b")
        P = lambda r_, x, y, wit: z3.Or(B(r_, x) == B(r_, y), z3.And(x <= wit, wit < y, B(r_, wit) != B(r_, wit + 1)))
        ctx.prove("lemmaS.base", P(r, a_, a_, a_), pool=[a_], live=[r, c])
        ctx.prove("lemmaS.step", z3.Implies(z3.And(a_ <= b_, P(r, a_, b_, w(r, a_, b_))), P(r, a_, b_ + 1, z3.If(B(r, a_) == B(r, b_), b_, w(r, a_, b_)))),
                  pool=[a_, b_, b_ + 1, w(r, a_, b_), w(r, a_, b_) + 1], live=[r, c])
        ctx.assume_forall("constant-or-change along a row (by induction)", lambda x, y: z3.Implies(z3.And(0 <= x, x <= y, y <= VL(r)), P(r, x, y, w(r, x, y))), arity=2)
        prevq = pos2(rk2(q + 1) - 1)                 # flat position of the previous kept boundary
        pc = prevq - IS(r)
        ch = w(r, pc, c)
        ctx.prove_then_assume("lemma: the previous kept boundary lies in row r, at or before boundary c",
                              z3.And(IS(r) <= prevq, prevq <= q, M2(prevq), rk2(prevq) == rk2(q + 1) - 1, rk2(prevq + 1) == rk2(q + 1), irow(prevq) == r),
                              pool=[r, r + 1, q, q + 1, IS(r), IS(r) + 1, IS(r + 1), rk2(q + 1) - 1, rk2(q + 1), rk2(IS(r)), prevq, prevq + 1, irow(prevq), irow(prevq) + 1, nz2.cnt,
                                    n, IS(n), c, p, VS(r)],
                              without=["masks cell by cell", "lemmaF", "lemmaT", "constant-or-change"])
        ctx.prove_then_assume("lemma: no boundary strictly between the previous kept one and c+1 is kept, so the runs between are empty",
                              z3.Not(z3.And(pc <= ch, ch < c, B(r, ch) != B(r, ch + 1))),
                              pool=[r, ch, ch + 1, IS(r) + ch + 1, IS(r) + ch + 2, prevq, prevq + 1, q, q + 1, pc, c, VL(r)])
        ctx.prove_then_assume("post.a non-empty run keeps its start: the previous kept boundary has the value B(r, c)",
                              z3.And(ED.get(e2._shape.starts.get(r) + t) == B(r, pc), B(r, pc) == B(r, c)),
                              pool=[r, c, pc, prevq, IS(r), rk2(q + 1), rk2(q + 1) - 1, irow(prevq)])
        # the last boundary VALUE of every row is kept: the boundaries after the last kept one are all equal to it
        r5 = z3.Int("r5")
        ctx.skolem(z3.And(0 <= r5, r5 < n))
        endq = IS(r5 + 1)
        lastq = pos2(rk2(endq) - 1)
        lc = lastq - IS(r5)
        ch5 = w(r5, lc, VL(r5))
        ctx.assume_forall("constant-or-change along row r5 (same induction as above)", lambda x, y: z3.Implies(z3.And(0 <= x, x <= y, y <= VL(r5)), P(r5, x, y, w(r5, x, y))), arity=2)
        ctx.prove_then_assume("lemma: the first boundary of row r5 is kept and the row keeps one boundary more than values",
                              z3.And(M2(IS(r5)), e2._shape.starts.get(r5) == rk2(IS(r5)), e2._shape.lengths.get(r5) == rk2(endq) - rk2(IS(r5)),
                                     v2._shape.lengths.get(r5) == e2._shape.lengths.get(r5) - 1),
                              pool=[r5, r5 + 1, z3.IntVal(0), VL(r5), IS(r5), endq, VS(r5), VS(r5 + 1), n], without=["lemmaF", "constant-or-change"])
        ctx.prove_then_assume("lemma: the last kept boundary of row r5 lies in row r5",
                              z3.And(IS(r5) <= lastq, lastq < endq, M2(lastq), rk2(lastq) == rk2(endq) - 1, rk2(lastq + 1) == rk2(endq), irow(lastq) == r5),
                              pool=[r5, r5 + 1, IS(r5), IS(r5) + 1, endq, endq - 1, rk2(endq) - 1, rk2(endq), rk2(IS(r5)), lastq, lastq + 1, irow(lastq), irow(lastq) + 1, nz2.cnt, n, IS(n),
                                    irow(IS(r5)), irow(IS(r5)) + 1, VL(r5), VS(r5), VS(r5 + 1)],
                              without=["masks cell by cell", "lemmaF", "constant-or-change", "lemmaR"])
        ctx.prove_then_assume("lemma: no boundary after the last kept one is kept, so the runs up to the end of the row are empty",
                              z3.Not(z3.And(lc <= ch5, ch5 < VL(r5), B(r5, ch5) != B(r5, ch5 + 1))),
                              pool=[r5, ch5, ch5 + 1, IS(r5) + ch5 + 1, IS(r5) + ch5 + 2, lastq, lastq + 1, endq, endq - 1, lc, VL(r5)])
        ctx.prove_then_assume("post.the last boundary value of every row is kept", ED.get(e2._shape.starts.get(r5) + v2._shape.lengths.get(r5)) == B(r5, VL(r5)),
                              pool=[r5, lc, lastq, IS(r5), rk2(endq), rk2(endq) - 1, irow(lastq), VL(r5)])
        # the contract as callers use it (same formulas): cells of the results addressed through the new geometries
        ecell = lambda r_, t_: ED.get(e2._shape.starts.get(r_) + t_)
        vcell = lambda r_, t_: VD.get(v2._shape.starts.get(r_) + t_)
        rho_ = lambda r_, c_: rk1(VS(r_) + c_) - rk1(VS(r_))
        ground, schemas = contract_ragged_remove_empty(n, VL, B, W, I(e2._shape.n_rows), e2._shape.lengths.get, v2._shape.lengths.get, ecell, vcell, rho_)
        ctx.prove("contract.ground facts", z3.And(*ground), live=[r, c])
        ctx.prove("contract." + schemas[0][0], schemas[0][1](r5), pool=[r5, r5 + 1, VL(r5), IS(r5), VS(r5), VS(r5 + 1), n, irow(IS(r5)), irow(IS(r5)) + 1, rk2(IS(r5))],
                  without=["masks cell by cell", "lemmaR", "lemmaF", "constant-or-change"])
        ctx.prove("contract." + schemas[1][0], schemas[1][1](r, c), pool=[r, c, c + 1, p, VS(r), IS(r)],
                  without=["masks cell by cell", "lemmaR", "lemmaF", "lemmaT", "constant-or-change"])
        ctx.prove("post.operands not modified", z3.BoolVal(st["inds"].writes == 0 and st["vals"].writes == 0))

    def concrete(self, case):
        from npstructures import RaggedArray
        from npstructures.runlengtharray import RunLengthRaggedArray
        ev, va = case["events"], case["values"]
        e2, v2 = RunLengthRaggedArray.remove_empty_intervals(RaggedArray(ev), RaggedArray(va))
        ee, ve = [], []
        for er, vr in zip(ev, va):
            keep = [i for i in range(len(vr)) if er[i] != er[i + 1]]
            ee.append([er[0]] + [er[i + 1] for i in keep])
            ve.append([vr[i] for i in keep])
        if e2.tolist() != ee or v2.tolist() != ve:
            return {"msg": f"remove_empty_intervals({ev}, {va}) = {e2.tolist()}, {v2.tolist()}, expected {ee}, {ve}", "sig": "wrong:rlragged-remove-empty"}

    def concretise(self, kind, model, ghost):
        return {"events": [[0, 0, 2, 2], [0, 3]], "values": [[1, 2, 3], [4]]}

    def bounded_cases(self, tier, seed):
        import itertools
        for k1 in range(1, 4):
            for d1 in itertools.product((0, 1, 2), repeat=k1):
                for d2 in ((1,), (0, 2), (0, 0)):
                    rows_e, rows_v = [], []
                    for d in (d1, d2):
                        e = [0]
                        for x in d:
                            e.append(e[-1] + x)
                        rows_e.append(e)
                        rows_v.append([10 + i for i in range(len(d))])
                    yield {"events": rows_e, "values": rows_v}


@register
class RlRaggedRowSum(Family):
    """RunLengthRaggedArray.sum(axis=-1) for integer values: the sum of every decoded row.  With DS(r, x) the prefix sums of the decoded row r
    (DS(r, x+1) = DS(r, x) + W(r, run of x)), result[r] == DS(r, length of row r).  Inductions along a run and over the runs of a row; the products
    length * value are nonlinear terms handled by the solver's arithmetic; integers are mathematical."""
    name = "RunLengthRaggedArray.sum[axis=-1]"
    qualname = "npstructures.runlengtharray:RunLength2dArray.sum"
    serves = ["C17"]
    timeout_ms = 30000
    assumed = ["RaggedArray operations through their contracts (SpecRagged: column ranges, -, *, row reduction = left fold of the row; audited)",
               "integer data as mathematical integers", "lemma partition-point (the run containing a position of a row)"]

    def run(self, ctx, kind):
        st = sym_rl_ragged(ctx, kind="int")
        n, VL, B, W = st["n"], st["VL"], st["B"], st["W"]
        runr = z3.Function(fresh_name("runr"), z3.IntSort(), z3.IntSort(), z3.IntSort())
        ctx.assume_forall("run of a position of a row", lambda r_, x: z3.Implies(z3.And(0 <= r_, r_ < n, 0 <= x, x < B(r_, VL(r_))), z3.And(
            0 <= runr(r_, x), runr(r_, x) < VL(r_), B(r_, runr(r_, x)) <= x, x < B(r_, runr(r_, x) + 1))), arity=2)
        ctx.assume_forall("B increasing (pairwise; lemma adjacent-sorted=>sorted)", lambda r_, a_, b_: z3.Implies(
            z3.And(0 <= r_, r_ < n, 0 <= a_, a_ < b_, b_ <= VL(r_)), B(r_, a_) < B(r_, b_)), arity=3)
        DS = z3.Function(fresh_name("DS"), z3.IntSort(), z3.IntSort(), z3.IntSort())
        ctx.assume_forall("DS.base (spec)", lambda r_: DS(r_, 0) == 0)
        ctx.assume_forall("DS.step (spec: prefix sums of the decoded row)", lambda r_, x: z3.Implies(z3.And(0 <= r_, r_ < n, 0 <= x, x < B(r_, VL(r_))),
                          DS(r_, x + 1) == DS(r_, x) + W(r_, runr(r_, x))), arity=2)
        res = st["obj"].sum(axis=-1)
        red = ctx.ghost["spec_reductions"][-1]
        fold, prod = red["fold"], red["spec"]
        PS_ = prod._shape.S
        VS = st["vals"]._shape.S
        ctx.prove("post.one sum per row", dim_term(res.shape_[0]) == n)
        r, c, k = z3.Int("r"), z3.Int("c"), z3.Int("k")
        ctx.skolem(z3.And(0 <= r, r < n, 0 <= c, c < VL(r)))
        ctx.prove_then_assume("lemma: the product array holds length * value of every run", prod.cell(r, c) == W(r, c) * (B(r, c + 1) - B(r, c)), pool=[r, c, c + 1])
        ctx.skolem(z3.And(0 <= k, k < B(r, c + 1) - B(r, c)))
        x = B(r, c) + k
        ctx.prove_then_assume("lemma: position B(r,c)+k of row r lies in run c", runr(r, x) == c, pool=[r, x, c, c + 1, runr(r, x), runr(r, x) + 1, VL(r), z3.IntVal(0)])
        inv = lambda k_: DS(r, B(r, c) + k_) == DS(r, B(r, c)) + k_ * W(r, c)
        ctx.prove("lemmaA.base: k = 0", inv(z3.IntVal(0)), pool=[r, c], live=[k])
        ctx.prove("lemmaA.step: along run c from k to k+1", z3.Implies(inv(k), inv(k + 1)), pool=[r, c, c + 1, x, x + 1, VL(r), z3.IntVal(0)])
        lemmaA = lambda r_, c_, k_: z3.Implies(z3.And(0 <= r_, r_ < n, 0 <= c_, c_ < VL(r_), 0 <= k_, k_ <= B(r_, c_ + 1) - B(r_, c_)),
                                               DS(r_, B(r_, c_) + k_) == DS(r_, B(r_, c_)) + k_ * W(r_, c_))
        r2, c2 = z3.Int("r2"), z3.Int("c2")
        ctx.skolem(z3.And(0 <= r2, r2 < n, 1 <= c2, c2 < VL(r2)))
        # lemmaA (proved above by induction on k, for arbitrary r, c, k) is used at exactly two instances: the whole first run and the whole run c2
        # (stated as ground instances rather than as a schema over the pool: the products k * value would be instantiated pool^3 times)
        # (written with the product in the operand order of the code's `values * lengths`, the row positions simplified by hand)
        inst = lambda c_: z3.Implies(z3.And(0 <= c_, c_ < VL(r2)), DS(r2, B(r2, c_ + 1)) == DS(r2, B(r2, c_)) + W(r2, c_) * (B(r2, c_ + 1) - B(r2, c_)))
        ctx.assume(inst(z3.IntVal(0)))
        ctx.assume(inst(c2))
        fl = prod.ravel()
        prow = prod._shape.rowof
        q0, q = PS_(r2), PS_(r2) + c2
        invB = lambda c_: fold(PS_(r2), PS_(r2) + c_) == DS(r2, B(r2, c_))
        cellp = [r2, r2 + 1, n, z3.IntVal(0), z3.IntVal(1)]
        ctx.prove("lemmaB.base: the fold over the first run is the decoded prefix sum at its end", invB(z3.IntVal(1)),
                  pool=cellp + [q0, q0 + 1, prow(q0), prow(q0) + 1, B(r2, 1) - B(r2, 0), VL(r2)], live=[c2],
                  without=["B increasing", "run of a position", "DS.step", "fold.step", "S>=0"], abstract_products=True)
        ctx.prove("lemmaB.step: one more run", z3.Implies(invB(c2), invB(c2 + 1)),
                  pool=cellp + [c2, c2 + 1, q0, q, q + 1, prow(q), prow(q) + 1, B(r2, c2 + 1) - B(r2, c2), VL(r2)],
                  without=["B increasing", "run of a position", "DS.step", "S>=0"], abstract_products=True)
        ctx.assume_forall("lemmaB (by induction on the number of runs)", lambda r_, c_: z3.Implies(z3.And(0 <= r_, r_ < n, 1 <= c_, c_ <= VL(r_)),
                          fold(PS_(r_), PS_(r_) + c_) == DS(r_, B(r_, c_))), arity=2)
        r3 = z3.Int("r3")
        ctx.skolem(z3.And(0 <= r3, r3 < n))
        ctx.prove("post.result[r] == sum of the decoded row r", res.get(r3) == DS(r3, B(r3, VL(r3))), pool=[r3, r3 + 1, VL(r3), n])
        ctx.prove("post.operands not modified", z3.BoolVal(st["inds"].writes == 0 and st["vals"].writes == 0))

    def concrete(self, case):
        from npstructures import RaggedArray
        from npstructures.runlengtharray import RunLengthRaggedArray
        rows = case["rows"]
        rr = RunLengthRaggedArray.from_ragged_array(RaggedArray(rows))
        got = np.asarray(rr.sum(axis=-1)).tolist()
        exp = [sum(r) for r in rows]
        if got != exp:
            return {"msg": f"RunLengthRaggedArray.sum(axis=-1) for rows {rows}: {got}, expected {exp}", "sig": "wrong:rlragged-rowsum"}

    def concretise(self, kind, model, ghost):
        return {"rows": [[1, 1, 2], [2], [3, 3]]}

    bounded_cases = RlRaggedRavel.bounded_cases


@register
class RlRaggedMean(Family):
    """RunLengthRaggedArray.mean against the contracts of its callees.  Row means: the callee's row sums (proved for integers: RunLengthRaggedArray.sum[axis=-1])
    divided row by row by the length of the decoded row (its last boundary).  Column means: `sum(axis=0) / col_counts()`, the quotient of the two callee
    results (a binary ufunc of two run-length arrays: RunLengthArray._apply_binary_func, C16).  Float division is an uninterpreted function."""
    name = "RunLengthRaggedArray.mean"
    qualname = "npstructures.runlengtharray:RunLengthRaggedArray.mean"
    serves = ["C17"]
    assumed = ["callee contracts RunLengthRaggedArray.sum(axis) and col_counts() (row sums of integers proved; column sums / counts: bounded stand-in)",
               "numpy true division as an uninterpreted function of its two operands",
               "RaggedArray operations through their contracts (SpecRagged: x[:, -1]; audited)"]

    def kinds(self):
        return ["rows", "rows[axis=1]", "columns", "columns[axis=-2]", "np.mean"]

    def run(self, ctx, kind):
        from npstructures.runlengtharray import RunLengthRaggedArray, RunLength2dArray
        from ..sym.arr import apply_binary, ElemSort
        st = sym_rl_ragged(ctx, kind="int")
        n, VL, B = st["n"], st["VL"], st["B"]
        obj = st["obj"]
        sumfn = z3.Function("callee_row_sum", z3.IntSort(), z3.IntSort())
        calls = {"sum": [], "col_counts": [], "div": []}

        class Quotient:
            """the column branch divides two run-length arrays: recorded, not executed (RunLengthArray.__array_ufunc__ / _apply_binary_func are proved in C16)"""
            def __init__(self, tag):
                self.tag = tag

            def __truediv__(self, o):
                calls["div"].append((self.tag, getattr(o, "tag", o)))
                return "QUOTIENT"

        def sum_stub(self_, axis=None, **kw):
            calls["sum"].append((self_, axis, kw))
            if axis in (0, -2):
                return Quotient("colsum")
            return SymArr.fresh((n,), lambda r: sumfn(r), "int", np.int64)

        def cc_stub(self_):
            calls["col_counts"].append(self_)
            return Quotient("colcounts")
        old_sum = RunLength2dArray.__dict__["sum"]
        old_cc = RunLengthRaggedArray.__dict__["col_counts"]
        RunLength2dArray.sum, RunLengthRaggedArray.col_counts = sum_stub, cc_stub
        try:
            if kind == "np.mean":
                from ..sym.symnp import SYMNP
                out = obj.__array_function__(SYMNP.mean, (RunLengthRaggedArray,), (obj,), {"axis": -1})     # the module's own (symbolic) numpy
            else:
                axis = {"rows": -1, "rows[axis=1]": 1, "columns": 0, "columns[axis=-2]": -2}[kind]
                out = obj.mean(axis=axis)
        finally:
            RunLength2dArray.sum, RunLengthRaggedArray.col_counts = old_sum, old_cc
        if kind.startswith("columns"):
            ctx.prove("post.column means: sum(axis=0) / col_counts() of the receiver", z3.BoolVal(
                out == "QUOTIENT" and calls["div"] == [("colsum", "colcounts")] and len(calls["sum"]) == 1 and calls["sum"][0][0] is obj
                and calls["sum"][0][1] in (0, -2) and calls["col_counts"] == [obj]))
            return
        ok = len(calls["sum"]) == 1 and calls["sum"][0][0] is obj and calls["sum"][0][1] in (-1, 1) and not calls["col_counts"] and isinstance(out, SymArr)
        ctx.prove("post.row means: exactly one row sum of the receiver", z3.BoolVal(ok))
        if not ok:
            return
        ctx.prove("post.one mean per row", z3.And(z3.BoolVal(out.ndim == 1), dim_term(out.shape_[0]) == n))
        r = z3.Int("r")
        ctx.skolem(z3.And(0 <= r, r < n))
        ctx.prove("post.mean[r] == sum[r] / length of the decoded row r", out.get(r) == apply_binary("true_divide", sumfn(r), B(r, VL(r))), pool=[r, r + 1, VL(r)])
        ctx.prove("post.operands not modified", z3.BoolVal(st["inds"].writes == 0 and st["vals"].writes == 0))

    def concrete(self, case):
        import math
        from npstructures import RaggedArray
        from npstructures.runlengtharray import RunLengthRaggedArray
        rows = case["rows"]
        rr = RunLengthRaggedArray.from_ragged_array(RaggedArray(rows))
        width = max(len(r) for r in rows)
        exp_rows = [sum(r) / len(r) for r in rows]
        exp_cols = [sum(r[k] for r in rows if len(r) > k) / sum(1 for r in rows if len(r) > k) for k in range(width)]
        for what, f, exp in (("mean(axis=-1)", lambda: rr.mean(axis=-1), exp_rows), ("mean(axis=1)", lambda: rr.mean(axis=1), exp_rows),
                             ("np.mean(axis=-1)", lambda: np.mean(rr, axis=-1), exp_rows), ("mean(axis=0)", lambda: rr.mean(axis=0), exp_cols)):
            try:
                got = f()
                got = np.asarray(got.to_array() if hasattr(got, "to_array") else got).tolist()
            except Exception as e:
                return {"msg": f"RunLengthRaggedArray.{what} for rows {rows} raised {type(e).__name__}: {e}", "sig": "raised:rlragged-mean"}
            if len(got) != len(exp) or any(not math.isclose(g_, e_, rel_tol=1e-12, abs_tol=1e-12) for g_, e_ in zip(got, exp)):
                return {"msg": f"RunLengthRaggedArray.{what} for rows {rows}: {got}, expected {exp}", "sig": "wrong:rlragged-mean"}

    def concretise(self, kind, model, ghost):
        return {"rows": [[1, 1, 2], [2], [3, 3, 4, 4]]}

    bounded_cases = RlRaggedRavel.bounded_cases


@register
class RlRaggedColCounts(Family):
    """RunLengthRaggedArray.col_counts(): the run-length array whose value at column k is the number of rows longer than k, for every k below the longest
    row.  The function takes np.unique(row lengths, return_counts=True), subtracts the running totals of the counts from the number of rows and uses the
    distinct lengths as run boundaries.  With gt(k, i) = #{rows r < i : len(r) > k} (the spec, a recurrence over the rows), H(i, r) = the number of the
    first r rows whose length is one of the i smallest distinct lengths (ghost): (A) H(i, r+1) = H(i, r) + [slot of row r < i] by induction on i,
    (B) H(i, r) + gt(k, r) = r for a column k of run i by induction on r, (C) cumsum(counts)[i-1] = H(i, n) by induction on i."""
    name = "RunLengthRaggedArray.col_counts"
    qualname = "npstructures.runlengtharray:RunLengthRaggedArray.col_counts"
    serves = ["C17"]
    timeout_ms = 30000
    assumed = ["numpy.unique(return_counts=True): distinct values increasing, every element has its slot, counts[k] = CNT(uniq[k], n) with the counting "
               "recurrence over the positions (audited)", "numpy.cumsum = prefix sums, numpy.insert(a, 0, 0)",
               "RaggedArray operations through their contracts (SpecRagged: x[..., -1]; audited)"]

    def extra_functions(self):
        return ["RunLengthArray.__init__", "RunLengthRaggedArray.shape", "RunLength2dArray.__len__"]

    def _facts(self, ctx, st):
        n, VL, B = st["n"], st["VL"], st["B"]
        u = ctx.ghost["uniques"][-1]
        K, uniq, grp, CNT = u["K"], u["uniq"], u["grp"], u["CNT"]
        RL = lambda r_: B(r_, VL(r_))
        return n, K, uniq, grp, CNT, RL, u

    def late_lemmas(self, ctx, kind, exc):
        """the RunLengthArray constructor's assertions cannot fail: boundaries 0 < distinct lengths increasing, one value per run"""
        st = ctx.ghost.get("st")
        if st is None or not isinstance(exc, AssertionError) or not ctx.ghost.get("uniques"):
            return
        n, K, uniq, grp, CNT, RL, u = self._facts(ctx, st)
        VL, B = st["VL"], st["B"]
        f0 = u["first"](z3.IntVal(0))
        ctx.assume_forall("B increasing (pairwise; lemma adjacent-sorted=>sorted)", lambda r_, a_, b_: z3.Implies(
            z3.And(0 <= r_, r_ < n, 0 <= a_, a_ < b_, b_ <= VL(r_)), B(r_, a_) < B(r_, b_)), arity=3)
        ctx.prove_then_assume("late.lemma: every row has at least one position, so the smallest distinct length is positive", uniq(0) >= 1,
                              kind="lemma", pool=[z3.IntVal(0), f0, VL(f0), K], without=["B.incr", "S.mono"])
        pool = [z3.IntVal(0), z3.IntVal(1), K, K - 1]
        for f in ctx.ghost.get("forall_facts", [])[-1:]:
            pool += [f["w"], f["w"] + 1, f["w"] - 1]
        ctx.prove_then_assume("late.lemma: the constructor's assertions cannot fail", z3.BoolVal(False), kind="lemma", pool=pool)

    def run(self, ctx, kind):
        from ..sym.theory import prefix_sum
        from npstructures.runlengtharray import RunLengthArray
        st = sym_rl_ragged(ctx, kind="int", min_rows=1)
        ctx.ghost["st"] = st
        n, VL, B = st["n"], st["VL"], st["B"]
        out = st["obj"].col_counts()
        n, K, uniq, grp, CNT, RL, u = self._facts(ctx, st)
        ok = isinstance(out, RunLengthArray)
        ctx.prove("post.a run-length array", z3.BoolVal(ok))
        if not ok:
            return
        E, V = out._events, out._values
        ps = ctx.ghost["prefix_sums"][-1]["ps"]                  # prefix sums of the counts
        ind = lambda c_: z3.If(c_, z3.IntVal(1), z3.IntVal(0))
        gt = z3.Function(fresh_name("gt"), z3.IntSort(), z3.IntSort(), z3.IntSort())
        H = z3.Function(fresh_name("H"), z3.IntSort(), z3.IntSort(), z3.IntSort())
        ctx.assume_forall("gt.base (spec)", lambda k_: gt(k_, 0) == 0)
        ctx.assume_forall("gt.step (spec: rows longer than k)", lambda k_, i_: z3.Implies(z3.And(0 <= i_, i_ < n), gt(k_, i_ + 1) == gt(k_, i_) + ind(RL(i_) > k_)), arity=2)
        ctx.assume_forall("H.base (ghost)", lambda r_: H(0, r_) == 0)
        ctx.assume_forall("H.step (ghost)", lambda i_, r_: z3.Implies(z3.And(0 <= i_, i_ < K), H(i_ + 1, r_) == H(i_, r_) + CNT(uniq(i_), r_)), arity=2)
        ctx.prove("post.one run per distinct row length", z3.And(dim_term(E.shape_[0]) == K + 1, dim_term(V.shape_[0]) == K))
        i, r = z3.Int("i"), z3.Int("r")
        ctx.skolem(z3.And(0 <= i, i < K, 0 <= r, r < n))
        gr = grp(r)
        ctx.prove_then_assume("lemma: row r has the i-th distinct length exactly if i is its slot", (RL(r) == uniq(i)) == (gr == i), pool=[r, i, gr])
        ctx.prove("lemmaA.base: H(0, r+1) == H(0, r) + [slot(r) < 0]", H(0, r + 1) == H(0, r) + ind(gr < 0), pool=[r, r + 1, z3.IntVal(0)], live=[i])
        ctx.prove("lemmaA.step: from i to i+1", z3.Implies(H(i, r + 1) == H(i, r) + ind(gr < i), H(i + 1, r + 1) == H(i + 1, r) + ind(gr < i + 1)),
                  pool=[r, r + 1, i, i + 1, uniq(i)])
        ctx.assume_forall("lemmaA (by induction on i)", lambda i_, r_: z3.Implies(z3.And(0 <= i_, i_ <= K, 0 <= r_, r_ < n),
                          H(i_, r_ + 1) == H(i_, r_) + ind(grp(r_) < i_)), arity=2)
        i0 = z3.Int("i0")
        ctx.skolem(z3.And(0 <= i0, i0 < K))
        ctx.prove("lemmaB.base0: H(0, 0) == 0", H(0, 0) == 0, pool=[z3.IntVal(0)], live=[i0])
        ctx.prove("lemmaB.base: H(i, 0) == 0 => H(i+1, 0) == 0", z3.Implies(H(i0, 0) == 0, H(i0 + 1, 0) == 0), pool=[i0, i0 + 1, z3.IntVal(0), uniq(i0)])
        ctx.assume_forall("H(i, 0) == 0 (by induction on i)", lambda i_: z3.Implies(z3.And(0 <= i_, i_ <= K), H(i_, 0) == 0))
        i2, k2, r2 = z3.Int("i2"), z3.Int("k2"), z3.Int("r2")
        lo = lambda i_: z3.If(i_ == 0, z3.IntVal(0), uniq(i_ - 1))
        ctx.skolem(z3.And(0 <= i2, i2 < K, lo(i2) <= k2, k2 < uniq(i2), 0 <= r2, r2 < n))
        g2 = grp(r2)
        ctx.prove("lemmaB.step: over the rows from r to r+1", z3.Implies(H(i2, r2) + gt(k2, r2) == r2, H(i2, r2 + 1) + gt(k2, r2 + 1) == r2 + 1),
                  pool=[i2, i2 - 1, k2, r2, r2 + 1, g2])
        ctx.assume_forall("lemmaB (by induction on r)", lambda i_, k_, r_: z3.Implies(z3.And(0 <= i_, i_ < K, lo(i_) <= k_, k_ < uniq(i_), 0 <= r_, r_ <= n),
                          H(i_, r_) + gt(k_, r_) == r_), arity=3)
        i3 = z3.Int("i3")
        ctx.skolem(z3.And(0 <= i3, i3 < K))
        ctx.prove("lemmaC.base: cumsum before the first count", ps(0) == H(0, n), pool=[z3.IntVal(0), n], live=[i3])
        ctx.prove("lemmaC.step: one more distinct length", z3.Implies(ps(i3) == H(i3, n), ps(i3 + 1) == H(i3 + 1, n)), pool=[i3, i3 + 1, n])
        ctx.assume_forall("lemmaC (by induction on i)", lambda i_: z3.Implies(z3.And(0 <= i_, i_ <= K), ps(i_) == H(i_, n)))
        i4, k4 = z3.Int("i4"), z3.Int("k4")
        ctx.skolem(z3.And(0 <= i4, i4 < K))
        ctx.prove("post.run boundaries: 0, then the distinct row lengths", z3.And(E.get(z3.IntVal(0)) == 0, E.get(i4 + 1) == uniq(i4)), pool=[i4, i4 + 1, z3.IntVal(0)])
        ctx.skolem(z3.And(E.get(i4) <= k4, k4 < E.get(i4 + 1)))
        ctx.prove("post.value at column k == number of rows longer than k", V.get(i4) == gt(k4, n), pool=[i4, i4 + 1, i4 - 1, k4, n])
        ctx.prove("post.operands not modified", z3.BoolVal(st["inds"].writes == 0 and st["vals"].writes == 0))

    def concrete(self, case):
        from npstructures import RaggedArray
        from npstructures.runlengtharray import RunLengthRaggedArray
        rows = case["rows"]
        rr = RunLengthRaggedArray.from_ragged_array(RaggedArray(rows))
        try:
            got = np.asarray(rr.col_counts().to_array()).tolist()
        except Exception as e:
            return {"msg": f"RunLengthRaggedArray.col_counts for rows {rows} raised {type(e).__name__}: {e}", "sig": "raised:rlragged-colcounts"}
        exp = [sum(1 for r in rows if len(r) > k) for k in range(max(len(r) for r in rows))]
        if got != exp:
            return {"msg": f"RunLengthRaggedArray.col_counts for rows {rows}: {got}, expected {exp}", "sig": "wrong:rlragged-colcounts"}

    def concretise(self, kind, model, ghost):
        return {"rows": [[1, 1, 2], [2], [3, 3, 4, 4], [5]]}

    bounded_cases = RlRaggedRavel.bounded_cases


def _stub_ragged_remove_empty(calls):
    """RunLengthRaggedArray.remove_empty_intervals by its proved contract: fresh ragged results (SpecRagged) with the contract formulas as hypotheses,
    after the call-site obligation that boundaries have one column more than values"""
    from .specragged import SpecRagged, SpecShape

    def stub(events, values):
        c = cur()
        n = events._shape.n
        VL = values._shape.L
        r0 = z3.Int(fresh_name("pre_r"))
        c.prove("pre(remove_empty_intervals): one boundary more than values in every row", z3.And(values._shape.n == n, z3.Implies(z3.And(0 <= r0, r0 < n), events._shape.L(r0) == VL(r0) + 1)),
                kind="pre", pool=[r0])
        Lv = z3.Function(fresh_name("kept"), z3.IntSort(), z3.IntSort())
        rho = z3.Function(fresh_name("rho"), z3.IntSort(), z3.IntSort(), z3.IntSort())
        v2 = SpecRagged.symbolic(c, "v_out", n, lambda r: Lv(r), kind=values.kind, dtype=values.dtype)
        e2 = SpecRagged.symbolic(c, "e_out", n, lambda r: Lv(r) + 1, kind="int")
        B, W = events.cell, values.cell
        ground, schemas = contract_ragged_remove_empty(n, VL, B, W, n, lambda r: Lv(r) + 1, Lv, e2.fn, v2.fn, rho)
        for f in ground:
            c.assume(f)
        for nm, fn, ar in schemas:
            c.assume_forall(nm, fn, arity=ar)
        calls["remove_empty"] = dict(B=B, W=W, VL=VL, n=n, e2=e2, v2=v2, Lv=Lv, rho=rho)
        return e2, v2
    return stub


@register
class Rl2dStepSubset(Family):
    """IndexableMixin._step_subset(step, indices, values) on the rows of a ragged run-length array (|step| = s symbolic): in every row, position q of the
    result holds the value at source position q*s (step > 0) resp. len(row)-1-q*s (step < 0): it lies in an output run with that value.
    q*s is MUL(q), // s is DIV (factored floor division); remove_empty_intervals enters through its proved contract; operands are SpecRagged.
    The last boundary of each result row is ceil(len(row)/s) (the smallest Q with Q*s >= len(row))."""
    name = "IndexableMixin._step_subset"
    qualname = "npstructures.runlengtharray:IndexableMixin._step_subset"
    serves = ["C17"]
    timeout_ms = 30000
    assumed = ["floor division by s > 0 in factored form (MUL / DIV)", "callee contract RunLengthRaggedArray.remove_empty_intervals (proved: .../contract.*)",
               "RaggedArray operations through their contracts (SpecRagged: x[..., -1], x[..., ::-1], column - x, x + scalar, x // scalar; audited)"]

    def kinds(self):
        return ["forward", "backward"]

    def run(self, ctx, kind):
        from npstructures.runlengtharray import RunLengthRaggedArray
        from ..sym.arr import div_abstraction
        st = sym_rl_ragged(ctx)
        n, VL, B, W = st["n"], st["VL"], st["B"], st["W"]
        ctx.assume_forall("B increasing (pairwise; lemma adjacent-sorted=>sorted)", lambda r_, a_, b_: z3.Implies(
            z3.And(0 <= r_, r_ < n, 0 <= a_, a_ < b_, b_ <= VL(r_)), B(r_, a_) < B(r_, b_)), arity=3)
        step = z3.Int("step")
        ctx.assume(step > 0 if kind == "forward" else step < 0)
        s = z3.simplify(abs(SInt(step)).t)
        DIV, MUL = div_abstraction(ctx, s)
        x, d = z3.Int("x"), z3.Int("d")
        ctx.prove("lemma.MUL increasing.base", MUL(x) < MUL(x + 1), pool=[x, x + 1], kind="lemma")
        ctx.prove("lemma.MUL increasing.step", z3.Implies(z3.And(d >= 0, MUL(x) < MUL(x + d + 1)), MUL(x) < MUL(x + d + 2)), pool=[x, x + d + 1, x + d + 2], kind="lemma")
        ctx.assume_forall("MUL increasing (by induction)", lambda p_, q_: z3.Implies(p_ < q_, MUL(p_) < MUL(q_)), arity=2)
        # for |step| == 1 the code skips the division: then MUL(x) == x is needed (MUL(x) == x*s by induction)
        ctx.prove("lemma.MUL(x) == x*s.base", MUL(0) == 0 * s, kind="lemma")
        ctx.prove("lemma.MUL(x) == x*s.step", z3.Implies(z3.And(x >= 0, MUL(x) == x * s), MUL(x + 1) == (x + 1) * s), pool=[x, x + 1], kind="lemma")
        ctx.assume_forall("MUL(x) == x*s (by induction)", lambda x_: z3.Implies(x_ >= 0, MUL(x_) == x_ * s))
        calls = {}
        old = RunLengthRaggedArray.__dict__["remove_empty_intervals"]
        RunLengthRaggedArray.remove_empty_intervals = staticmethod(_stub_ragged_remove_empty(calls))
        try:
            e_out, v_out = st["obj"]._step_subset(SInt(step), st["inds"], st["vals"])
        finally:
            RunLengthRaggedArray.remove_empty_intervals = old
        re = calls["remove_empty"]
        Iv, Wp, rho, e2, v2, Lv = re["B"], re["W"], re["rho"], re["e2"].fn, re["v2"].fn, re["Lv"]
        ctx.prove("post.the result is remove_empty_intervals' output", z3.BoolVal(e_out is re["e2"] and v_out is re["v2"]))
        rl = z3.Int("rl")
        ctx.skolem(z3.And(0 <= rl, rl < n))
        lenr = B(rl, VL(rl))
        last = Iv(rl, VL(rl))
        lp = [rl, VL(rl), VL(rl) - 1, z3.IntVal(0), last, last + 1]
        if z3.is_app(last) and last.num_args() == 1 and last.decl().eq(DIV):
            lp += [last.arg(0)]
        ctx.prove("post.row length: the last boundary of result row r is ceil(len(row r) / s)",
                  z3.And(e2(rl, Lv(rl)) == last, MUL(last) >= lenr, z3.Implies(last > 0, MUL(last - 1) < lenr)), pool=lp + [last - 1])
        r, q, u = z3.Int("r"), z3.Int("q"), z3.Int("u")
        length = B(r, VL(r))
        srcpos = MUL(q) if kind == "forward" else length - 1 - MUL(q)
        ctx.skolem(z3.And(0 <= r, r < n, q >= 0, 0 <= u, u < VL(r), B(r, u) <= srcpos, srcpos < B(r, u + 1)))
        i = u if kind == "forward" else VL(r) - 1 - u
        lo_, hi_ = Iv(r, i), Iv(r, i + 1)
        t = rho(r, i)
        small = [r, q, q + 1, u, u + 1, i, i + 1, VL(r), VL(r) - u, VL(r) - u - 1, lo_, lo_ + 1, hi_, hi_ + 1, z3.IntVal(0)]
        if z3.is_app(lo_) and lo_.num_args() == 1 and lo_.decl().eq(DIV):
            small += [lo_.arg(0), hi_.arg(0)]
        ctx.prove_then_assume("post.lemma: the divided run i of row r is [ceil(B'(i)/s), ceil(B'(i+1)/s)) and contains q; its value is W(r, u)",
                              z3.And(lo_ <= q, q < hi_, Wp(r, i) == W(r, u)), pool=small)
        ctx.prove("post.position q of row r lies in output run t = rho(r, i), which carries the source value",
                  z3.And(0 <= t, t < Lv(r), e2(r, t) <= q, q < e2(r, t + 1), v2(r, t) == W(r, u)), pool=[r, i, i + 1, u, q])
        ctx.prove("post.operands not modified", z3.BoolVal(st["inds"].writes == 0 and st["vals"].writes == 0))

    def concrete(self, case):
        from npstructures import RaggedArray
        from npstructures.runlengtharray import RunLengthRaggedArray, RunLengthArray
        rows, stp = case["rows"], case["step"]
        rr = RunLengthRaggedArray.from_ragged_array(RaggedArray(rows))
        i2, v2 = rr._step_subset(stp, rr._indices, rr._values)
        for r, row in enumerate(rows):
            ev, va = np.asarray(i2[r]), np.asarray(v2[r])
            dense = np.repeat(va, np.diff(ev)).tolist() if len(va) else []
            if dense != row[::stp]:
                return {"msg": f"_step_subset({stp}) on rows {rows}: row {r} decodes to {dense}, expected {row[::stp]}", "sig": "wrong:rl2d-step_subset"}

    def concretise(self, kind, model, ghost):
        return {"rows": [[1, 1, 2, 3, 3], [4, 5, 5]], "step": 2 if kind == "forward" else -2}

    def bounded_cases(self, tier, seed):
        for case in RlRaggedRavel.bounded_cases(self, tier, seed):
            for stp in (1, 2, 3, -1, -2):
                yield {"rows": case["rows"], "step": stp}


@register
class RlRaggedArgmax(Family):
    """RunLengthRaggedArray.argmax(axis=-1) for integer values: for every row the position of the FIRST occurrence of the row maximum in the decoded
    row, i.e. the start B(r, c*) of the first run whose value is the maximum of the run values (runs are non-empty, so the first dense position
    attaining the maximum is the start of the first run attaining it).  Operands are contract-level stand-ins (SpecRagged)."""
    name = "RunLengthRaggedArray.argmax"
    qualname = "npstructures.runlengtharray:RunLengthRaggedArray.argmax"
    serves = ["C17"]
    timeout_ms = 30000
    assumed = ["RaggedArray operations through their contracts (SpecRagged: row maximum in witness form, == with a column, nonzero, x[rows, cols]; audited)",
               "numpy.unique(return_index=True): first occurrence (audited)", "numpy.arange, integer-array gather"]

    def late_lemmas(self, ctx, kind, exc):
        """index bounds cannot fail: every row has a run attaining its maximum, so unique(rows) has one entry per row"""
        pass

    def run(self, ctx, kind):
        st = sym_rl_ragged(ctx, kind="int")
        n, VL, B, W = st["n"], st["VL"], st["B"], st["W"]
        VS = st["vals"]._shape.S
        vrow = st["vals"]._shape.rowof

        def pair_pool(t_):
            uq = ctx.ghost["uniques"][-1]
            nzr = ctx.ghost["spec_nonzeros"][-1]
            f = uq["first"](t_)
            return [t_, f, f + 1, uq["K"], nzr["cnt"], n, uq["uniq"](t_)]
        ctx.ghost["pool_for_pair_gather"] = pair_pool
        G = {}

        def lemmas(c_):
            """mask meaning, every row has a hit, unique(rows) == [0..n): stated when the ghosts exist, i.e. right before the final gather"""
            ex = c_.ghost["spec_extrema"][-1]
            ext, at = ex["ext"], ex["at"]
            nzr = c_.ghost["spec_nonzeros"][-1]
            M, cnt, pos, rk, rows = nzr["M"], nzr["cnt"], nzr["pos"], nzr["rk"], nzr["rows"].fn
            uq = c_.ghost["uniques"][-1]
            K, uniq, first, grp = uq["K"], uq["uniq"], uq["first"], uq["grp"]
            mrow = nzr["spec"]._shape.rowof
            r_, c2 = z3.Int("lr"), z3.Int("lc")
            p_ = VS(r_) + c2
            c_.prove_then_assume("lemma: the mask handed to nonzero marks the runs whose value is the row maximum",
                                 z3.Implies(z3.And(0 <= r_, r_ < n, 0 <= c2, c2 < VL(r_)), M(p_) == (W(r_, c2) == ext(r_))),
                                 pool=[r_, r_ + 1, c2, p_, vrow(p_), vrow(p_) + 1, mrow(p_), mrow(p_) + 1, n], kind="lemma")
            c_.assume_forall("mask cell by cell (lemma above, (r, c) arbitrary)", lambda a_, b_: z3.Implies(z3.And(0 <= a_, a_ < n, 0 <= b_, b_ < VL(a_)),
                             M(VS(a_) + b_) == (W(a_, b_) == ext(a_))), arity=2)
            k = z3.Int("k")
            ha = VS(k) + at(k)
            c_.prove("lemmaU.every row has a listed hit", z3.Implies(z3.And(0 <= k, k < n), z3.And(M(ha), 0 <= rk(ha), rk(ha) < cnt, rows(rk(ha)) == k,
                                                                                             0 <= grp(rk(ha)), grp(rk(ha)) < K, uniq(grp(rk(ha))) == k)),
                     pool=[k, k + 1, at(k), ha, ha + 1, rk(ha), pos(rk(ha)), vrow(ha), vrow(ha) + 1, mrow(ha), mrow(ha) + 1, n, VS(n), cnt, grp(rk(ha))], kind="lemma")
            c_.assume_forall("every row has a slot in unique(rows) (lemmaU)", lambda k_: z3.Implies(z3.And(0 <= k_, k_ < n), z3.And(
                0 <= grp(rk(VS(k_) + at(k_))), grp(rk(VS(k_) + at(k_))) < K, uniq(grp(rk(VS(k_) + at(k_)))) == k_)))
            slot = lambda k_: grp(rk(VS(k_) + at(k_)))
            Z = z3.IntVal(0)
            c_.prove("lemmaV.base: slot(0) == 0 when there is a row", z3.Implies(n > 0, slot(Z) == 0), pool=[Z, slot(Z), first(Z), rows(first(Z)), K, n, cnt], kind="lemma")
            c_.prove("lemmaV.step: slot(k) == k => slot(k+1) == k+1", z3.Implies(z3.And(0 <= k, k + 1 < n, slot(k) == k), slot(k + 1) == k + 1),
                     pool=[k, k + 1, slot(k), slot(k + 1), slot(k) + 1, first(k + 1), rows(first(k + 1)), first(slot(k) + 1), rows(first(slot(k) + 1)), K, n, cnt], kind="lemma")
            c_.assume_forall("slot(k) == k, so unique(rows) == [0..n) (lemmaV, by induction)", lambda k_: z3.Implies(z3.And(0 <= k_, k_ < n), z3.And(slot(k_) == k_, uniq(k_) == k_)))
            c_.prove_then_assume("lemma: unique(rows) has exactly one entry per row", K == n, pool=[n, n - 1, K, K - 1, first(K - 1), rows(first(K - 1)), slot(n - 1), Z], kind="lemma")
            G.update(ext=ext, at=at, M=M, cnt=cnt, pos=pos, rk=rk, rows=rows, cols=nzr["cols"].fn, K=K, uniq=uniq, first=first, grp=grp)
        ctx.ghost["before_pair_gather"] = lemmas
        res = st["obj"].argmax(axis=-1)
        ext, at, M, cnt, pos, rk, rows, cols, K, uniq, first, grp = (G[x] for x in ("ext", "at", "M", "cnt", "pos", "rk", "rows", "cols", "K", "uniq", "first", "grp"))
        r, c = z3.Int("r"), z3.Int("c")
        ctx.skolem(z3.And(0 <= r, r < n, 0 <= c, c < VL(r)))
        p = VS(r) + c
        ctx.prove("post.one position per row", z3.And(K == n, dim_term(res.shape_[0]) == n), pool=[n, K], live=[r, c])
        # first run attaining the maximum
        ctx.assume(W(r, c) == ext(r))
        ctx.assume_forall("c is the first run of row r with the maximal value", lambda c_: z3.Implies(z3.And(0 <= c_, c_ < c), W(r, c_) != ext(r)))
        t = rk(p)
        f = first(r)
        cf = cols(f)
        pool = [r, r + 1, c, p, t, f, cf, VS(r) + cf, pos(f), pos(t), rows(f), rows(f) + 1, rows(t), rk(pos(f)), K, cnt, n, grp(t), grp(f)]
        ctx.prove_then_assume("lemma: run c is listed, in row r", z3.And(0 <= t, t < cnt, pos(t) == p, rows(t) == r, cols(t) == c),
                              pool=[r, r + 1, c, p, t, pos(t), rows(t), rows(t) + 1, cnt, n, VS(n)], without=["lemmaU", "lemmaV", "unique."])
        ctx.prove_then_assume("lemma: the first listed hit of row r is not after it", z3.And(0 <= f, f <= t, rows(f) == r, f < cnt),
                              pool=[r, t, grp(t), f, K, n], without=["nonzero.", "mask cell"])
        ctx.prove_then_assume("lemma: the first listed hit of row r is run c", cf == c, pool=pool + [cf + 1])
        ctx.prove("post.result[r] == start of the first run of row r whose value is the row maximum", res.get(r) == B(r, c), pool=[r, f, cf, c])
        ctx.prove("post.the row maximum bounds every run value of the row", W(r, c) <= ext(r), pool=[r, c], live=[r, c])
        ctx.prove("post.operands not modified", z3.BoolVal(st["inds"].writes == 0 and st["vals"].writes == 0))

    def concrete(self, case):
        from npstructures import RaggedArray
        from npstructures.runlengtharray import RunLengthRaggedArray
        rows = case["rows"]
        rr = RunLengthRaggedArray.from_ragged_array(RaggedArray(rows))
        got = np.asarray(rr.argmax(axis=-1)).tolist()
        exp = [int(np.argmax(r)) for r in rows]
        if got != exp:
            return {"msg": f"RunLengthRaggedArray.argmax for rows {rows}: {got}, numpy per row {exp}", "sig": "wrong:rlragged-argmax"}

    def concretise(self, kind, model, ghost):
        return {"rows": [[3, 3, 0, 0, 3, 3, 3], [1, 2, 2]]}

    def bounded_cases(self, tier, seed):
        for case in RlRaggedRavel.bounded_cases(self, tier, seed):
            yield case
        yield {"rows": [[3, 3, 0, 0, 3, 3, 3], [1, 2, 2]]}
        yield {"rows": [[0, 2, 1, 2], [5], [1, 1, 4, 4, 0, 4]]}


@register
class RlRaggedConcatenate(Family):
    """np.concatenate of RunLengthRaggedArrays (rlra_concatenate, reached through RunLengthRaggedArray.__array_function__) against the contract of its
    callee: the result's boundary array is the row concatenation of the operands' boundary arrays and its value array the row concatenation of the
    operands' value arrays, both in operand order, along the rows.  With the contract of arrayfunctions.concatenate[axis=0] (C08: all rows of all
    operands in order, cells unchanged) the lemma obligations give, for every result row R of operand i: boundaries and values are those of the same row
    R - off(i) of the same operand, one boundary more than values, first boundary 0, boundaries strictly increasing - i.e. the result decodes to the
    operands' decoded rows in order."""
    name = "runlengtharray.rlra_concatenate"
    qualname = "npstructures.runlengtharray:rlra_concatenate"
    serves = ["C17"]
    assumed = ["callee contract arrayfunctions.concatenate[axis=0] (rows of all operands in order; proved in C08's family of that name)",
               "the operand list has 2 or 3 entries (unrolled; the function body is a pair of list comprehensions without loop-carried state)"]

    def kinds(self):
        return ["2", "3", "np.concatenate[2]", "np.concatenate[3]"]

    def extra_functions(self):
        return ["RunLengthRaggedArray.__array_function__", "RunLength2dArray.__init__"]

    def run(self, ctx, kind):
        import npstructures.runlengtharray as mod
        from npstructures.runlengtharray import RunLengthRaggedArray
        from ..sym.symnp import SymNumpy, SYMNP
        from .specragged import SpecRagged
        k = int(kind[-2]) if kind.endswith("]") and kind[-2].isdigit() else (2 if kind.endswith("]") else int(kind))
        sts = [sym_rl_ragged(ctx, name=f"op{i}", kind="int") for i in range(k)]
        objs = [st["obj"] for st in sts]
        calls = []

        class Cat:
            def __init__(self, parts, axis):
                self.parts, self.axis = parts, axis
        real_cat = SymNumpy.__dict__["concatenate"]

        def cat_stub(self_, arrays, *a, **kw):
            arrays = list(arrays)
            if arrays and all(isinstance(x, SpecRagged) for x in arrays):
                axis = a[0] if a else kw.get("axis", 0)
                calls.append((arrays, axis, {n: v for n, v in kw.items() if n != "axis"}))
                return Cat(arrays, axis)
            return real_cat(self_, arrays, *a, **kw)
        SymNumpy.concatenate = cat_stub
        try:
            if kind.startswith("np.concatenate"):
                out = objs[0].__array_function__(SYMNP.concatenate, (RunLengthRaggedArray,), (objs,), {})
            else:
                out = mod.rlra_concatenate(objs)
        finally:
            SymNumpy.concatenate = real_cat
        ok = (isinstance(out, RunLengthRaggedArray) and type(out) is RunLengthRaggedArray and isinstance(out._indices, Cat) and isinstance(out._values, Cat))
        if not (isinstance(out, RunLengthRaggedArray) and isinstance(out._indices, Cat) and isinstance(out._values, Cat)):
            from ..sym.core import Unsupported
            raise Unsupported("the concatenation is not built from two ragged row concatenations; the proof script knows only that shape")
        ctx.prove("post.result is a RunLengthRaggedArray of two row concatenations", z3.BoolVal(ok))
        if not ok:
            return
        ci, cv = out._indices, out._values
        ctx.prove("post.boundaries: the operands' boundary arrays in operand order, along the rows",
                  z3.BoolVal(len(ci.parts) == k and all(p is st["inds"] for p, st in zip(ci.parts, sts)) and ci.axis in (0, -2)))
        ctx.prove("post.values: the operands' value arrays in the same order, along the rows",
                  z3.BoolVal(len(cv.parts) == k and all(p is st["vals"] for p, st in zip(cv.parts, sts)) and cv.axis in (0, -2)))
        ctx.prove("post.exactly two concatenations, no further arguments", z3.BoolVal(len(calls) == 2 and all(not c[2] for c in calls)))
        ctx.prove("post.operands not modified", z3.BoolVal(all(st["inds"].writes == 0 and st["vals"].writes == 0 for st in sts)))
        # lemma over the callee contract: result rows = operand rows in order, boundaries and values of the SAME operand row, well-formed
        offs = [z3.IntVal(0)]
        for st in sts:
            offs.append(z3.simplify(offs[-1] + st["n"]))
        N = offs[-1]

        def pick(R, f):
            e = None
            for i in range(k - 1, -1, -1):
                v = f(i, R - offs[i])
                e = v if e is None else z3.If(R < offs[i + 1], v, e)
            return e
        ident = lambda parts, key: [next((j for j, st in enumerate(sts) if st[key] is p), -1) for p in parts]
        order_i, order_v = ident(ci.parts, "inds"), ident(cv.parts, "vals")
        if len(order_i) != k or len(order_v) != k or -1 in order_i or -1 in order_v:
            return
        # callee contract instantiated with the ACTUAL argument order of each call
        Le = lambda R: pick(R, lambda i, r: sts[order_i[i]]["VL"](r) + 1)
        Lv = lambda R: pick(R, lambda i, r: sts[order_v[i]]["VL"](r))
        E = lambda R, c: pick(R, lambda i, r: sts[order_i[i]]["B"](r, c))
        V = lambda R, c: pick(R, lambda i, r: sts[order_v[i]]["W"](r, c))
        R, c = z3.Int("R"), z3.Int("c")
        ctx.skolem(z3.And(0 <= R, R < N))
        pool = [R, c, c + 1, z3.IntVal(0)] + [R - o for o in offs[:-1]]
        ctx.prove("post.lemma: every result row has one boundary more than values, at least one run, first boundary 0",
                  z3.And(Le(R) == Lv(R) + 1, Lv(R) >= 1, E(R, z3.IntVal(0)) == 0), pool=pool)
        ctx.skolem(z3.And(0 <= c, c < Lv(R)))
        ctx.prove("post.lemma: boundaries of every result row increase strictly", E(R, c) < E(R, c + 1), pool=pool)
        for i in range(k):
            ctx.prove(f"post.lemma: result row off({i}) + r is operand {i}'s row r: same runs, same boundaries, same values",
                      z3.Implies(z3.And(offs[i] <= R, R < offs[i + 1]),
                                 z3.And(Lv(R) == sts[i]["VL"](R - offs[i]), E(R, c) == sts[i]["B"](R - offs[i], c), E(R, c + 1) == sts[i]["B"](R - offs[i], c + 1),
                                        V(R, c) == sts[i]["W"](R - offs[i], c))), pool=pool)

    def concrete(self, case):
        from npstructures import RaggedArray
        from npstructures.runlengtharray import RunLengthRaggedArray
        parts = case["parts"]
        rrs = [RunLengthRaggedArray.from_ragged_array(RaggedArray(p)) for p in parts]
        exp = [list(r) for p in parts for r in p]
        try:
            got = np.concatenate(rrs).to_array().tolist()
        except Exception as e:
            return {"msg": f"np.concatenate of run-length ragged arrays {parts} raised {type(e).__name__}: {e}", "sig": "raised:rlragged-concatenate"}
        if got != exp:
            return {"msg": f"np.concatenate of run-length ragged arrays {parts}: {got}, expected {exp}", "sig": "wrong:rlragged-concatenate"}

    def concretise(self, kind, model, ghost):
        return {"parts": [[[1, 1, 2], [2]], [[3, 3]], [[4], [4, 5, 5]]][:3 if "3" in kind else 2]}

    def bounded_cases(self, tier, seed):
        pool = [[[1, 1, 2], [2]], [[3, 3]], [[0], [0, 1, 1], [2, 2]], [[5, 5, 5, 6]]]
        import itertools
        for k in (2, 3):
            for parts in itertools.permutations(pool, k):
                yield {"parts": list(parts)}
