#!/bin/bash
# Builds the overlay interpreter used by every check: Python 3.12 (the repository's own /venv
# interpreter) + solver / contract wheels from the offline wheelhouse + a .pth exposing /venv's
# site-packages (numpy 2.5.3, the repository's pinned dependency set). Offline, idempotent.
set -e
cd "$(dirname "$0")"
V=.venv
if [ ! -x $V/bin/python ] || ! $V/bin/python -c "import z3, cvc5, deal, icontract, jsonschema, numpy" 2>/dev/null; then
  rm -rf $V
  /venv/bin/python -m venv $V
  PIP_NO_INDEX=1 $V/bin/python -m pip install -q --no-index --find-links /opt/veriftools/wheels \
      z3-solver cvc5 deal icontract jsonschema >/dev/null
  SP=$($V/bin/python -c "import sysconfig; print(sysconfig.get_paths()['purelib'])")
  echo "import site; site.addsitedir('/venv/lib/python3.12/site-packages')" > "$SP/zz_repo_venv.pth"
fi
$V/bin/python -c "import z3, cvc5, deal, icontract, jsonschema, numpy; print('overlay venv ok: z3', z3.get_version_string(), 'numpy', numpy.__version__)"
# audit of the assumed numpy contracts against the installed numpy (bounded; a failure is a checker error)
PYTHONPATH="$PWD" PYTHONDONTWRITEBYTECODE=1 $V/bin/python -m vf.audit --quick
