"""C08 bounded stand-in: structural array functions of ragged arrays against plain Python lists of rows.

Oracles (rows = list of lists with pairwise distinct cells, so that a misplaced cell is visible):
  concatenate axis=0   rows_1 + rows_2 + ...                       concatenate axis=-1   [r1 + r2 + ... for rows i]
  zeros/ones/empty_like  the row lengths of the operand (nothing else is stated)
  as_padded_matrix     row + [fill]*(longest-len) (side right) / [fill]*(longest-len) + row (side left)
  nonzero              [(r, c) for r, row in enumerate(rows) for c, v in enumerate(row) if v]
  where(mask, x, y)    [[x[r][c] if mask[r][c] else y[r][c] ...] ...]  (x / y ragged of the mask's shape or scalars)
  subset(mask)         [[v for v, m in zip(row, mrow) if m] ...];   ra[mask]: the same cells, flat, in order
  ragged_slice         [row[s:e] for row, s, e in zip(rows, starts, ends)] with 0 <= s <= len, -len <= e <= len
                       (Python's reading of a negative end); 1-D input: every window is cut from the whole array;
                       2-D input: window i from row i; NPSArray form: array.view(NPSArray)[starts:ends]"""
import itertools
import warnings
import numpy as np
from .common import import_repo, length_vectors, rows_for
from .raggedutil import (empty_class, flat, mk, seq_eq, short, Unsupported, nonempty_variant, rows_class, refine)

PROPERTY = "C08"
RULE = ("exhaustive per function: concatenate axis=0: every tuple of 1, 2 (rows<=R, len<=L each) and 3 (rows<=2, len<=2) "
        "operand arrays incl. zero-row operands; axis=-1: every pair (triple with smaller bounds) of arrays with the same "
        "number of rows; *_like: every array x dtype argument; as_padded_matrix: every array with >= 1 row x fill x side x "
        "dtype; nonzero / where / subset / ra[mask]: every array x EVERY boolean mask pattern of its cells (where: x and y "
        "ragged or scalar); ragged_slice: every array (rows<=3,len<=2 and rows<=2,len<=3) x every vector of per-row starts "
        "in [0,len] and ends in [-len,len] (also starts or ends omitted), 1-D arrays (size<=3, <=2 windows) and 2-D "
        "arrays (<=3 x <=2, <=2 x 3), each through ragged_slice(...) and NPSArray[starts:ends]. non-trivial = an operand "
        "has an empty row or zero rows, or a mask row is all-false, or a window is empty or uses a negative end")
BOUNDS = {"quick": {"max_rows": 3, "max_len": 3, "concat0_triples": "rows<=2,len<=2", "concat1_triples": "rows<=2,len<=2 / rows=3,len<=1",
                    "rslice_ragged": ["rows<=3,len<=2", "rows<=2,len<=3"], "rslice_1d": "size<=3, windows<=2",
                    "rslice_2d": ["n<=3,m<=2", "n<=2,m=3"]},
          "thorough": {"max_rows": 4, "max_len": 4, "mask_cells_max": 12, "concat0_pairs": "rows<=3,len<=3 plus rows<=4,len<=2",
                       "concat0_triples": "rows<=2,len<=2", "concat1_triples": "rows<=2,len<=2 / rows=3,len<=1",
                       "rslice_ragged": ["rows<=3,len<=3", "rows<=4,len<=1"], "rslice_1d": "size<=4, windows<=2",
                       "rslice_2d": ["n<=3,m<=2", "n<=2,m<=4"], "random": 30000}}


def _windows(length):
    return [(s, e) for s in range(0, length + 1) for e in range(-length, length + 1)]


def _rslice_ragged_cases(shapes):
    for lengths in shapes:
        per_row = [_windows(l) for l in lengths]
        for combo in itertools.product(*per_row):
            yield {"op": "rslice", "input": "ragged", "form": "func", "lengths": lengths,
                   "starts": [c[0] for c in combo], "ends": [c[1] for c in combo]}
        for combo in itertools.product(*[range(-l, l + 1) for l in lengths]):
            yield {"op": "rslice", "input": "ragged", "form": "func", "lengths": lengths, "starts": None, "ends": list(combo)}
        for combo in itertools.product(*[range(0, l + 1) for l in lengths]):
            yield {"op": "rslice", "input": "ragged", "form": "func", "lengths": lengths, "starts": list(combo), "ends": None}
            if lengths:
                for how in ("tail", "reversed", "cols"):
                    yield {"op": "rslice", "input": "ragged-lazy", "lazy": how, "form": "func", "lengths": lengths,
                           "starts": list(combo), "ends": [-(c % 2) if l else 0 for c, l in zip(combo, lengths)] if how != "cols" else None}


def _masks(size):
    for bits in itertools.product([0, 1], repeat=size):
        yield list(bits)


def cases(tier, seed):
    b = BOUNDS[tier]
    R, L = b["max_rows"], b["max_len"]
    shapes = list(length_vectors(R, L))
    small = list(length_vectors(2, 2))
    # ---- concatenate along rows
    pair_shapes = shapes if tier == "quick" else list(length_vectors(3, 3)) + [s for s in length_vectors(4, 2) if len(s) == 4]
    for l1 in pair_shapes:
        yield {"op": "concat0", "ops": [l1], "axis": 0}
        for l2 in pair_shapes:
            yield {"op": "concat0", "ops": [l1, l2], "axis": 0}
    for l1 in small:
        for l2 in small:
            for l3 in small:
                yield {"op": "concat0", "ops": [l1, l2, l3], "axis": 0}
            yield {"op": "concat0", "ops": [l1, l2], "axis": None}            # np.concatenate([a, b]) without axis
            yield {"op": "concat0", "ops": [l1, l2], "axis": 0, "dtypes": ["int64", "float64"]}
    # ---- concatenate along columns
    for n in range(0, 4):
        per = list(itertools.product(range(L + 1), repeat=n)) if tier == "quick" or n < 3 else list(itertools.product(range(4), repeat=n))
        for l1 in per:
            for l2 in per:
                yield {"op": "concat1", "ops": [list(l1), list(l2)], "axis": -1}
        per3 = list(itertools.product(range(3 if n <= 2 else 2), repeat=n))
        for l1 in per3:
            for l2 in per3:
                for l3 in per3:
                    yield {"op": "concat1", "ops": [list(l1), list(l2), list(l3)], "axis": -1}
                yield {"op": "concat1", "ops": [list(l1), list(l2)], "axis": 1}
                # operands of different element types: the joined rows hold the values of every operand (numpy's common type)
                for dts in (["int64", "float64"], ["bool", "int64"], ["int32", "int64"], ["float64", "int64"], ["uint8", "int64"]):
                    yield {"op": "concat1", "ops": [list(l1), list(l2)], "axis": -1, "dtypes": dts}
                yield {"op": "concat1", "ops": [list(l1)], "axis": -1}
    # ---- *_like, padded matrix
    for lengths in shapes:
        for f in ("zeros_like", "ones_like", "empty_like"):
            for dta in (None, "float64", "bool"):
                yield {"op": f, "lengths": lengths, "dtype_arg": dta}
        if len(lengths) >= 1:
            for dt, fills in (("int64", [None, 0, -1, 7]), ("float64", [0, -1.5]), ("uint8", [0, 255]), ("bool", [False, True])):
                for fill in fills:
                    for side in ((None,) if fill is None else ("right", "left")):
                        yield {"op": "padded", "lengths": lengths, "dtype": dt, "fill": fill, "side": side}
    # ---- mask functions: every mask pattern
    mask_shapes = shapes if tier == "quick" else [s for s in shapes if sum(s) <= b["mask_cells_max"]]
    for lengths in mask_shapes:
        size = sum(lengths)
        if tier == "thorough" and size > 9:
            rng = np.random.default_rng(size * 1000 + len(lengths))
            masks = [[int(x) for x in rng.integers(0, 2, size=size)] for _ in range(64)] + [[0] * size, [1] * size]
        else:
            masks = list(_masks(size))
        for m in masks:
            for form in ("func", "method"):
                for dt in ("bool", "int64"):
                    yield {"op": "nonzero", "lengths": lengths, "mask": m, "form": form, "dtype": dt}
            for x in ("ragged", "scalar"):
                for y in ("ragged", "scalar"):
                    yield {"op": "where", "lengths": lengths, "mask": m, "x": x, "y": y}
            yield {"op": "subset", "lengths": lengths, "mask": m}
            yield {"op": "maskindex", "lengths": lengths, "mask": m}
    # ---- ragged_slice
    if tier == "quick":
        rs_shapes = list(length_vectors(3, 2)) + [s for s in length_vectors(2, 3) if 3 in s]
    else:
        rs_shapes = list(length_vectors(3, 3)) + [s for s in length_vectors(4, 1) if len(s) == 4]
    yield from _rslice_ragged_cases(rs_shapes)
    max_m = 3 if tier == "quick" else 4
    for m in range(0, max_m + 1):
        for k in range(0, 3):
            for combo in itertools.product(_windows(m), repeat=k):
                for form in ("func", "nps"):
                    yield {"op": "rslice", "input": "1d", "form": form, "size": m,
                           "starts": [c[0] for c in combo], "ends": [c[1] for c in combo]}
    shapes2d = [(n, m) for n in range(0, 4) for m in range(0, 3)] + [(n, m) for n in range(0, 3) for m in range(3, max_m + 1)]
    for n, m in shapes2d:
        for combo in itertools.product(_windows(m), repeat=n):
            for form in ("func", "nps"):
                yield {"op": "rslice", "input": "2d", "form": form, "shape": [n, m],
                       "starts": [c[0] for c in combo], "ends": [c[1] for c in combo]}
    if tier == "thorough":
        rng = np.random.default_rng(seed)
        for _ in range(b["random"]):
            n = int(rng.integers(0, 7))
            lengths = [int(x) if rng.random() > 0.3 else 0 for x in rng.integers(0, 7, size=n)]
            size = sum(lengths)
            mask = [int(x) for x in rng.integers(0, 2, size=size)]
            k = int(rng.integers(0, 6))
            if k == 0:
                yield {"op": "nonzero", "lengths": lengths, "mask": mask, "form": "func", "dtype": "int64"}
            elif k == 1:
                yield {"op": "where", "lengths": lengths, "mask": mask, "x": ("ragged", "scalar")[int(rng.integers(2))],
                       "y": ("ragged", "scalar")[int(rng.integers(2))]}
            elif k == 2:
                yield {"op": ("subset", "maskindex")[int(rng.integers(2))], "lengths": lengths, "mask": mask}
            elif k == 3:
                yield {"op": "rslice", "input": "ragged", "form": "func", "lengths": lengths,
                       "starts": [int(rng.integers(0, l + 1)) for l in lengths],
                       "ends": [int(rng.integers(-l, l + 1)) for l in lengths]}
            elif k == 4:
                l2 = [int(x) if rng.random() > 0.3 else 0 for x in rng.integers(0, 7, size=int(rng.integers(0, 6)))]
                yield {"op": "concat0", "ops": [lengths, l2], "axis": 0}
            elif n >= 1:
                yield {"op": "padded", "lengths": lengths, "dtype": "int64", "fill": int(rng.integers(-3, 4)),
                       "side": ("right", "left")[int(rng.integers(2))]}


def _window_lengths(case):
    """lengths of the rows the windows of a ragged_slice case are cut from"""
    if case["input"] in ("ragged", "ragged-lazy"):
        return list(case["lengths"])
    if case["input"] == "1d":
        return [case["size"]] * len(case["starts"] if case["starts"] is not None else case["ends"])
    return [case["shape"][1]] * case["shape"][0]


def nontrivial(case):
    op = case["op"]
    if "ops" in case:
        return any(len(l) == 0 or 0 in l for l in case["ops"])
    if op == "rslice":
        ls = _window_lengths(case)
        st = case["starts"] if case["starts"] is not None else [0] * len(ls)
        en = case["ends"] if case["ends"] is not None else list(ls)
        return any(l == 0 for l in ls) or any(e < 0 or (e if e >= 0 else l + e) <= s for l, s, e in zip(ls, st, en))
    ls = case["lengths"]
    if len(ls) == 0 or 0 in ls:
        return True
    if "mask" in case:
        k = 0
        for l in ls:
            if not any(case["mask"][k:k + l]):
                return True
            k += l
    return False


# ---------------------------------------------------------------------------------------------

def _bits(case, size):
    m = case["mask"]
    if len(m) != size:                       # only for signature probes on a different shape
        m = ([1, 0, 1, 1, 0, 0, 1, 0] * (size // 8 + 1))[:size]
    return m


def _split(flat_values, lengths):
    out, k = [], 0
    for l in lengths:
        out.append(list(flat_values[k:k + l]))
        k += l
    return out


def _ragged_result(res, exp_rows, desc, what, rtol=0.0):
    from npstructures import RaggedArray
    if not isinstance(res, RaggedArray):
        return {"msg": f"{desc}: expected a RaggedArray with rows {short(exp_rows)}, got {type(res).__name__} {short(res)}",
                "what": f"not-ragged:{what}"}
    got = [np.asarray(r).tolist() for r in res]
    if [len(r) for r in got] != [len(r) for r in exp_rows] or [int(l) for l in res.lengths] != [len(r) for r in exp_rows]:
        return {"msg": f"{desc}: rows {short(got)} (lengths {[int(l) for l in res.lengths]}), expected {short(exp_rows)}",
                "what": f"wrong-lengths:{what}"}
    if not seq_eq(got, exp_rows, rtol):
        return {"msg": f"{desc}: rows {short(got)}, expected {short(exp_rows)}", "what": f"wrong:{what}"}
    return None


def _typed(rows, dt, k):
    """values that only the operand's own element type can hold (used when the operands' types differ): halves for floats, values beyond 32 bits
    or negative ones for a 64-bit operand that follows a narrower one, truth values for bool"""
    d = np.dtype(dt)
    if d.kind == "f":
        return [[v + 0.5 for v in r] for r in rows]
    if d.kind == "b":
        return [[bool(v % 2) for v in r] for r in rows]
    if d == np.int64 and k > 0:
        return [[(v + 2 ** 40) if (v % 2) else -v for v in r] for r in rows]
    if d.itemsize == 1:
        return [[v % 100 for v in r] for r in rows]
    return rows


def _raised(desc, exp, e, what):
    return {"msg": f"{desc}: expected {short(exp)}, raised {type(e).__name__}: {e}", "what": f"raised:{type(e).__name__}:{what}"}


def _check(case):
    from npstructures import RaggedArray, ragged_slice
    op = case["op"]
    if op in ("concat0", "concat1"):
        ops = case["ops"]
        dts = case.get("dtypes") or ["int64"] * len(ops)
        rows_k = [rows_for(l, base=100 * k + 1) for k, l in enumerate(ops)]
        if case.get("dtypes"):
            rows_k = [_typed(r, dt, k) for k, (r, dt) in enumerate(zip(rows_k, dts))]
        arrays = [mk(r, dt) for r, dt in zip(rows_k, dts)]
        if op == "concat0":
            exp = [r for rows in rows_k for r in rows]
            what = f"concat0:k={len(ops)}"
        else:
            if len({len(l) for l in ops}) != 1:
                raise Unsupported()
            exp = [sum((rows[i] for rows in rows_k), []) for i in range(len(ops[0]))]
            what = f"concat1:k={len(ops)}"
        desc = f"np.concatenate([{', '.join('RaggedArray(%s)' % r for r in rows_k)}]" + ("" if case["axis"] is None else f", axis={case['axis']}") + ")"
        try:
            res = np.concatenate(arrays) if case["axis"] is None else np.concatenate(arrays, axis=case["axis"])
        except Exception as e:
            return _raised(desc, exp, e, what)
        return _ragged_result(res, exp, desc, what)

    if op in ("zeros_like", "ones_like", "empty_like"):
        lengths = case["lengths"]
        rows = rows_for(lengths, base=1)
        ra = mk(rows, "int64")
        kw = {} if case["dtype_arg"] is None else {"dtype": case["dtype_arg"]}
        desc = f"np.{op}(RaggedArray({rows}){', dtype=' + case['dtype_arg'] if kw else ''})"
        try:
            res = getattr(np, op)(ra, **kw)
        except Exception as e:
            return _raised(desc, f"row lengths {lengths}", e, op)
        if not isinstance(res, RaggedArray):
            return {"msg": f"{desc}: expected a RaggedArray with row lengths {lengths}, got {type(res).__name__}", "what": f"not-ragged:{op}"}
        got = [int(l) for l in res.lengths]
        if got != lengths or [len(r) for r in res] != lengths:
            return {"msg": f"{desc}: row lengths {got} / rows {[len(r) for r in res]}, expected {lengths}", "what": f"wrong-lengths:{op}"}
        return None

    if op == "padded":
        lengths, dt, fill, side = case["lengths"], case["dtype"], case["fill"], case["side"]
        if len(lengths) == 0:
            raise Unsupported()                       # no longest row
        rows = [[bool((v * 7) % 3) for v in r] for r in rows_for(lengths, base=1)] if dt == "bool" else rows_for(lengths, base=1)
        ra = mk(rows, dt)
        width = max(lengths)
        f = 0 if fill is None else fill
        s = "right" if side is None else side
        exp = [(r + [f] * (width - len(r))) if s == "right" else ([f] * (width - len(r)) + r) for r in rows]
        what = f"padded:side={s}"
        kw = {} if fill is None else {"fill_value": fill, "side": side}
        desc = f"RaggedArray({rows}, dtype={dt}).as_padded_matrix({', '.join(f'{k}={v!r}' for k, v in kw.items())})"
        try:
            res = ra.as_padded_matrix(**kw)
        except Exception as e:
            return _raised(desc, exp, e, what)
        g = np.asarray(res)
        if g.shape != (len(lengths), width):
            return {"msg": f"{desc}: shape {g.shape}, expected {(len(lengths), width)} {short(exp)}", "what": f"wrong-shape:{what}"}
        if not seq_eq(g.tolist(), exp):
            return {"msg": f"{desc}: {short(g.tolist())}, expected {short(exp)}", "what": f"wrong:{what}"}
        if not seq_eq([np.asarray(r).tolist() for r in ra], rows):
            return {"msg": f"{desc}: the array itself was modified to {short([np.asarray(r).tolist() for r in ra])}", "what": f"modified:{what}"}
        return None

    if op in ("nonzero", "where", "subset", "maskindex"):
        lengths = case["lengths"]
        size = sum(lengths)
        bits = _bits(case, size)
        mrows = _split([bool(x) for x in bits], lengths)
        if op == "nonzero":
            dt = case["dtype"]
            vals = [bool(x) for x in bits] if dt == "bool" else [(x * (i + 1) * (-1 if i % 3 == 2 else 1)) for i, x in enumerate(bits)]
            rows = _split(vals, lengths)
            ra = mk(rows, dt)
            exp = [(r, c) for r, row in enumerate(rows) for c, v in enumerate(row) if v]
            what = f"nonzero:{case['form']}"
            desc = f"{'np.nonzero(ra)' if case['form'] == 'func' else 'ra.nonzero()'} with ra = RaggedArray({rows}, dtype={dt})"
            try:
                res = np.nonzero(ra) if case["form"] == "func" else ra.nonzero()
            except Exception as e:
                return _raised(desc, exp, e, what)
            try:
                rr, cc = res
                got = list(zip([int(x) for x in rr], [int(x) for x in cc]))
                ok = len(rr) == len(cc)
            except Exception:
                got, ok = res, False
            if not ok or got != exp:
                return {"msg": f"{desc}: coordinates {short(got)}, expected {short(exp)}", "what": f"wrong:{what}"}
            return None
        mask = mk(mrows, "bool")
        if op == "where":
            xr, yr = rows_for(lengths, base=100), rows_for(lengths, base=200)
            x = mk(xr, "int64") if case["x"] == "ragged" else -7
            y = mk(yr, "int64") if case["y"] == "ragged" else 9
            exp = [[(xr[r][c] if case["x"] == "ragged" else -7) if m else (yr[r][c] if case["y"] == "ragged" else 9)
                    for c, m in enumerate(mrow)] for r, mrow in enumerate(mrows)]
            what = f"where:x={case['x']},y={case['y']}"
            desc = (f"np.where(RaggedArray({mrows}), {'RaggedArray(%s)' % xr if case['x'] == 'ragged' else -7}, "
                    f"{'RaggedArray(%s)' % yr if case['y'] == 'ragged' else 9})")
            try:
                res = np.where(mask, x, y)
            except Exception as e:
                return _raised(desc, exp, e, what)
            v = _ragged_result(res, exp, desc, what)
            if v is None and not seq_eq([np.asarray(r).tolist() for r in mask], mrows):
                return {"msg": f"{desc}: the mask was modified", "what": f"modified:{what}"}
            return v
        rows = rows_for(lengths, base=10)
        ra = mk(rows, "int64")
        exp = [[v for v, m in zip(row, mrow) if m] for row, mrow in zip(rows, mrows)]
        if op == "subset":
            desc = f"RaggedArray({rows}).subset(RaggedArray({mrows}))"
            try:
                res = ra.subset(mask)
            except Exception as e:
                return _raised(desc, exp, e, "subset")
            return _ragged_result(res, exp, desc, "subset")
        desc = f"RaggedArray({rows})[RaggedArray({mrows})]"
        try:
            res = ra[mask]
        except Exception as e:
            return _raised(desc, flat(exp), e, "maskindex")
        got = flat([np.asarray(r).tolist() for r in res]) if isinstance(res, RaggedArray) else np.asarray(res).tolist()
        if not isinstance(got, list) or not seq_eq(got, flat(exp)):
            return {"msg": f"{desc}: selected {short(got)}, expected the cells {flat(exp)} (row by row {exp})", "what": "wrong:maskindex"}
        return None

    if op == "rslice":
        inp, form = case["input"], case["form"]
        starts = None if case["starts"] is None else np.array(case["starts"], dtype=np.int64)
        ends = None if case["ends"] is None else np.array(case["ends"], dtype=np.int64)
        if inp == "ragged":
            rows = rows_for(case["lengths"], base=10)
            arr = mk(rows, "int64")
            src = rows
            shown = f"RaggedArray({rows})"
        elif inp == "ragged-lazy":
            # the same rows, but as a not yet materialised selection of a larger array (rows sit at other offsets there)
            rows = rows_for(case["lengths"], base=10)
            how = case.get("lazy", "tail")
            if how == "tail":
                arr = mk([[1, 2, 3]] + rows, "int64")[1:]
            elif how == "reversed":
                arr = mk(rows[::-1], "int64")[::-1]
            else:
                arr = mk([[7] + r for r in rows], "int64")[:, 1:]
            src = rows
            shown = f"(lazy selection '{how}' with rows {rows})"
        elif inp == "1d":
            data = list(range(10, 10 + case["size"]))
            arr = np.array(data, dtype=np.int64)
            k = len(case["starts"] if case["starts"] is not None else case["ends"])
            src = [data] * k
            shown = f"np.array({data})"
        else:
            n, m = case["shape"]
            arr = (np.arange(n * m, dtype=np.int64) + 10).reshape(n, m)
            src = arr.tolist()
            shown = f"np.array({src}).reshape({n},{m})"
        st = case["starts"] if case["starts"] is not None else [0] * len(src)
        en = case["ends"] if case["ends"] is not None else [len(r) for r in src]
        if not (len(st) == len(en) == len(src)):
            raise Unsupported()
        exp = [r[s:e] for r, s, e in zip(src, st, en)]
        what = f"ragged_slice:{inp}:{form}"
        if form == "nps":
            from npstructures.mixin import NPSArray
            desc = f"{shown}.view(NPSArray)[{case['starts']}:{case['ends']}]"
        else:
            desc = f"ragged_slice({shown}, {case['starts']}, {case['ends']})"
        try:
            if form == "nps":
                res = arr.view(NPSArray)[starts:ends]
            elif starts is None:
                res = ragged_slice(arr, ends=ends)
            elif ends is None:
                res = ragged_slice(arr, starts)
            else:
                res = ragged_slice(arr, starts, ends)
        except Exception as e:
            return _raised(desc, exp, e, what)
        return _ragged_result(res, exp, desc, what)
    raise ValueError(op)


# ---------------------------------------------------------------------------------------------
# signature refinement: does the failure depend on empty rows / zero-row operands / empty or negative-end windows?

def _ops_class(ops):
    c = []
    if any(len(l) == 0 for l in ops):
        c.append("zero-row-operand")
    allrows = [x for l in ops for x in l]
    ec = empty_class(allrows) if allrows else None
    if ec and ec != "no-empty-row":
        c.append(ec)
    return "+".join(c) or None


def _rows_probe(case):
    if "ops" in case:
        if case["op"] == "concat0":
            return [[nonempty_variant(l) for l in case["ops"]]]
        n = len(case["ops"][0]) or 2
        return [[[max(x, 1) for x in (l if len(l) else [1] * n)] for l in case["ops"]]]
    if case["op"] == "rslice":
        if case["input"] != "ragged":
            return []
        keep = [i for i, l in enumerate(case["lengths"]) if l > 0]
        if not keep:
            return [{"__update__": {"lengths": [2, 1], "starts": [0, 0], "ends": [2, 1]}}]
        return [{"__update__": {"lengths": [case["lengths"][i] for i in keep],
                                "starts": None if case["starts"] is None else [case["starts"][i] for i in keep],
                                "ends": None if case["ends"] is None else [case["ends"][i] for i in keep]}}]
    return [nonempty_variant(case["lengths"])]


def _rows_key_class(case):
    if "ops" in case:
        return _ops_class(case["ops"])
    if case["op"] == "rslice" and case["input"] != "ragged":
        return None
    return rows_class(case["lengths"])


def _window_class(case):
    if case["op"] != "rslice":
        return None
    ls = _window_lengths(case)
    st = case["starts"] if case["starts"] is not None else [0] * len(ls)
    en = case["ends"] if case["ends"] is not None else list(ls)
    c = []
    if any(e < 0 for e in en):
        c.append("negative-end")
    if any((e if e >= 0 else l + e) <= s for l, s, e in zip(ls, st, en)):
        c.append("empty-window")
    return "+".join(c) or None


def _window_probe(case):
    """full windows on the same input"""
    ls = _window_lengths(case)
    return [{"__update__": {"starts": [0] * len(ls), "ends": list(ls)}}]


def check(case):
    import_repo()
    with warnings.catch_warnings(), np.errstate(all="ignore"):
        warnings.simplefilter("ignore")
        try:
            v = _check(case)
        except Unsupported:
            return None
        if v is None:
            return None
        rows_key = "ops" if "ops" in case else "lengths"
        axes = [("rows", rows_key, _rows_probe, lambda _cur: _rows_key_class(case))]
        if case["op"] == "rslice":
            axes.append(("window", "starts", _window_probe, lambda _cur: _window_class(case)))
        if "mask" in case:
            size = sum(case["lengths"])
            axes.append(("mask", "mask", [[1] * size], lambda m: None if all(m) else ("all-false" if not any(m) else "mixed")))
        return refine(case, v, _check, axes)
