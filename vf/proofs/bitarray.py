"""C13: bit-vector contracts of BitArray.pack / unpack / __getitem__ / sliding_window.

Theory: 64-bit bit-vectors for registers and input elements (an input element is a uint64 value below 2^b;
`astype(uint64)` of a non-negative value of any integer dtype is value preserving: assumed, audited).
b is concrete in {1,2,4,8,16,32} (the property's own domain), so the loop over the 64/b shifts in `pack`
has a concrete trip count and is executed completely; array length, register index, positions and the window
size are symbolic.  The in-register offset i = p mod k is case-split (one kind per (b, i)).

Abstract view of a packed array: digit j of register q = element q*k + j (zero beyond the length).
"""
import numpy as np
import z3

from .base import Family, register, model_int
from ..sym.core import SInt, SBool, cur, Unsupported, fresh_name
from ..sym.arr import SymArr, SBV, I, dim_term

BITS = [1, 2, 4, 8, 16, 32]


class _M(type(np.uint64)):
    def __call__(cls, x=0, *a, **k):
        if isinstance(x, SInt):
            c = cur()
            if c.branch(z3.Or(x.t < 0, x.t >= 2 ** 64), "uint64-range"):
                raise OverflowError("Python integer out of bounds for uint64")
            return x
        if isinstance(x, SBV):
            return x
        if isinstance(x, SymArr):
            if x.kind == "int":
                snap = x.snapshot()
                from ..sym.arr import forall_fact
                ok = forall_fact("uint64-range", x.ravel().shape_[0], lambda i: z3.And(x.ravel().snapshot()(i) >= 0))
                if not cur().branch(ok, "uint64-range"):
                    raise OverflowError("Python integer out of bounds for uint64")
            return x
        return np.uint64(x, *a, **k)


class SymU64(np.uint64, metaclass=_M):
    """stands for BitArray._dtype during symbolic runs: a valid numpy dtype spec (uint64) whose constructor
    lets symbolic values through (np.uint64(x) = x for 0 <= x < 2^64, OverflowError otherwise)"""


class _patched_dtype:
    def __enter__(self):
        from npstructures.bitarray import BitArray
        self.cls = BitArray
        self.old = BitArray.__dict__["_dtype"]
        BitArray._dtype = SymU64
        return self

    def __exit__(self, *a):
        self.cls._dtype = self.old


def digit(word, j, b):
    """digit j (b bits) of a 64-bit word, zero-extended to 64 bits"""
    return z3.ZeroExt(64 - b, z3.Extract(b * j + b - 1, b * j, word))


def sym_input(ctx, b, name="a"):
    n = z3.Int("n")
    ctx.assume(n >= 0)
    a = SymArr.symbolic(name, n, "bv", np.uint64, assume_len=False)
    ctx.assume_forall("fits-in-b-bits", lambda i: z3.ULT(a.fn(i), z3.BitVecVal(2 ** b, 64)))
    return n, a


def sym_packed(ctx, b, name="d"):
    """an abstract well-formed packed array: registers data(q), logical length n, digits beyond n are zero"""
    from npstructures.bitarray import BitArray
    k = 64 // b
    n = z3.Int("n")
    ctx.assume(z3.And(n >= 0, n < 2 ** 62))          # sizes below 2^63 (stated assumption)
    Q = z3.Int("Q")
    ctx.assume(Q == (n + k - 1) / k)
    data = SymArr.symbolic(name, Q, "bv", np.uint64, assume_len=False)
    elem = lambda p: digit(data.fn(p / k), 0, b) if False else None
    ba = BitArray(data, b, (SInt(n),))
    return n, Q, data, ba


def elem_of(data_fn, p, i, q, b):
    """element at position p = q*k + i of the abstract packed array"""
    return digit(data_fn(q), i, b)


@register
class Pack(Family):
    name = "BitArray.pack"
    qualname = "npstructures.bitarray:BitArray.pack"
    serves = ["C13"]
    timeout_ms = 120000        # the b=1 groups need ~13 s each unloaded (64 nested register updates)

    GROUP = 4

    def kinds(self):
        return [f"b{b}.g{g}" for b in BITS for g in range(max(1, (64 // b) // self.GROUP))]

    def run(self, ctx, kind):
        from npstructures.bitarray import BitArray
        b, g = (int(x[1:]) for x in kind.split("."))
        k = 64 // b
        digits = range(k) if k <= self.GROUP else range(g * self.GROUP, (g + 1) * self.GROUP)
        n, a = sym_input(ctx, b)
        with _patched_dtype():
            ba = BitArray.pack(a, b)
        data = ba._data
        Q = dim_term(data.shape_[0])
        ctx.prove("post.n_registers==ceil(n/k)", Q == (n + k - 1) / k)
        ctx.prove("frame.input array not written and not aliased by the registers", z3.BoolVal(a.buf.writes == 0 and data.buf is not a.buf))
        ctx.prove("post.shape==(n,)", I(ba._shape[0]) == n)
        q = z3.Int("q")
        ctx.skolem(z3.And(0 <= q, q < Q))
        for j in range(k):
            ctx.add_index(q * k + j)        # the "fits in b bits" precondition is needed at every element of the register
        goals = []
        for j in digits:
            p = q * k + j
            goals.append(digit(data.get(q), j, b) == z3.If(p < n, a.fn(p), z3.BitVecVal(0, 64)))
        ctx.prove(f"post.digits[{digits[0]}..{digits[-1]}]: digit j == a[q*k+j], 0 beyond n", z3.And(*goals))

    def concrete(self, case):
        from npstructures.bitarray import BitArray
        a = np.array(case["a"], dtype=np.uint64)
        b = case["b"]
        k = 64 // b
        ba = BitArray.pack(a, b)
        exp = []
        for q in range((len(a) + k - 1) // k):
            w = 0
            for j in range(k):
                if q * k + j < len(a):
                    w |= int(a[q * k + j]) << (b * j)
            exp.append(w)
        got = [int(x) for x in ba._data]
        if got != exp:
            return {"msg": f"pack({case['a']}, {b}): registers {got}, expected {exp}", "sig": "wrong:pack"}

    def bounded_cases(self, tier, seed):
        for b in BITS:
            k = 64 // b
            for n in (0, 1, k - 1, k, k + 1, 2 * k + 1):
                if n >= 0:
                    yield {"b": b, "a": [(i * 7 + 1) % (2 ** b) for i in range(n)]}


@register
class Unpack(Family):
    name = "BitArray.unpack"
    qualname = "npstructures.bitarray:BitArray.unpack"
    serves = ["C13"]
    timeout_ms = 30000

    def kinds(self):
        return [f"b{b}.i{i}" for b in BITS for i in range(64 // b)]

    def run(self, ctx, kind):
        b, i = (int(x[1:]) for x in kind.split("."))
        k = 64 // b
        n, Q, data, ba = sym_packed(ctx, b)
        with _patched_dtype():
            out = ba.unpack()
        ctx.prove("post.length==n", dim_term(out.shape_[0]) == n)
        q = z3.Int("q")
        p = q * k + i
        ctx.skolem(z3.And(0 <= q, p < n))
        ctx.prove("post.out[p]==digit(p mod k) of register p div k", out.get(p) == digit(data.fn(q), i, b))

    def concrete(self, case):
        from npstructures.bitarray import BitArray
        a = np.array(case["a"], dtype=np.uint64)
        out = BitArray.pack(a, case["b"]).unpack()
        if out.tolist() != a.tolist():
            return {"msg": f"unpack(pack({case['a']}, {case['b']})) = {out.tolist()}", "sig": "wrong:unpack"}

    bounded_cases = Pack.bounded_cases


@register
class GetItemInt(Family):
    name = "BitArray.__getitem__[int]"
    qualname = "npstructures.bitarray:BitArray.__getitem__"
    serves = ["C13"]

    def kinds(self):
        return [f"b{b}.i{i}" for b in BITS for i in range(64 // b)]

    def run(self, ctx, kind):
        b, i = (int(x[1:]) for x in kind.split("."))
        k = 64 // b
        n, Q, data, ba = sym_packed(ctx, b)
        q = z3.Int("q")
        p = q * k + i
        ctx.skolem(z3.And(0 <= q, p < n))
        with _patched_dtype():
            r = ba[SInt(p)]
        ctx.prove("post.result==element p", r.t == digit(data.fn(q), i, b))

    def concrete(self, case):
        from npstructures.bitarray import BitArray
        a = np.array(case["a"], dtype=np.uint64)
        ba = BitArray.pack(a, case["b"])
        got = [int(ba[p]) for p in range(len(a))]
        if got != a.tolist():
            return {"msg": f"pack({case['a']}, {case['b']})[p] for all p = {got}", "sig": "wrong:getitem-int"}

    bounded_cases = Pack.bounded_cases


@register
class GetItemList(Family):
    """packed[list]: the array handed to pack() holds, at position t, element idx[t] (and fits in b bits);
    composed with the contract of pack (verified separately) this is 'a packed array of those elements'."""
    name = "BitArray.__getitem__[list]"
    qualname = "npstructures.bitarray:BitArray.__getitem__"
    serves = ["C13"]

    def kinds(self):
        return [f"b{b}.i{i}" for b in BITS for i in range(64 // b)]

    def run(self, ctx, kind):
        from npstructures.bitarray import BitArray
        b, i = (int(x[1:]) for x in kind.split("."))
        k = 64 // b
        n, Q, data, ba = sym_packed(ctx, b)
        m = z3.Int("m")
        ctx.assume(m >= 0)
        idx = SymArr.symbolic("idx", m, "int", np.int64, assume_len=False)
        ctx.assume_forall("positions in range", lambda t: z3.Implies(z3.And(0 <= t, t < m), z3.And(0 <= idx.fn(t), idx.fn(t) < n)))
        captured = {}
        real_pack = BitArray.__dict__["pack"]

        def pack_stub(cls, array, bit_stride):
            captured["array"], captured["bit_stride"] = array, bit_stride
            return "PACKED"
        BitArray.pack = classmethod(pack_stub)
        try:
            with _patched_dtype():
                r = ba[idx]
        finally:
            BitArray.pack = real_pack
        ctx.prove("calls pack", z3.BoolVal(r == "PACKED" and int(captured["bit_stride"]) == b))
        arr = captured["array"]
        ctx.prove("post.length==len(list)", dim_term(arr.shape_[0]) == m)
        t = z3.Int("t")
        q = z3.Int("q")
        ctx.skolem(z3.And(0 <= t, t < m, idx.fn(t) == q * k + i, q >= 0))
        ctx.add_index(t)
        ctx.prove("post.packed-input[t]==element idx[t]", arr.get(t) == digit(data.fn(q), i, b))
        ctx.prove("pre(pack).fits-in-b-bits", z3.ULT(arr.get(t), z3.BitVecVal(2 ** b, 64)))

    def concrete(self, case):
        from npstructures.bitarray import BitArray
        a = np.array(case["a"], dtype=np.uint64)
        if len(a) == 0:
            return None
        ba = BitArray.pack(a, case["b"])
        pos = [len(a) - 1, 0, len(a) // 2, len(a) - 1]
        got = ba[pos].unpack().tolist()
        if got != [int(a[p]) for p in pos]:
            return {"msg": f"pack({case['a']}, {case['b']})[{pos}].unpack() = {got}", "sig": "wrong:getitem-list"}

    bounded_cases = Pack.bounded_cases


@register
class SlidingWindow(Family):
    name = "BitArray.sliding_window"
    qualname = "npstructures.bitarray:BitArray.sliding_window"
    serves = ["C13"]
    timeout_ms = 30000

    def kinds(self):
        return [f"b{b}.i{i}" for b in BITS for i in range(64 // b)]

    def run(self, ctx, kind):
        b, i = (int(x[1:]) for x in kind.split("."))
        k = 64 // b
        n, Q, data, ba = sym_packed(ctx, b)
        w = z3.Int("w")
        ctx.assume(z3.And(1 <= w, w <= k))
        with _patched_dtype():
            out = ba.sliding_window(SInt(w))
        q = z3.Int("q")
        p = q * k + i
        ctx.skolem(z3.And(0 <= q, p + w <= n))
        ctx.add_index(q, q + 1)
        ctx.prove("post.n_windows>=n-w+1", dim_term(out.shape_[0]) >= n - w + 1)
        word = out.get(p)
        goals = []
        for j in range(k):
            # element p + j lives in register q (offset i + j) or q + 1 (offset i + j - k)
            if i + j < k:
                e = digit(data.fn(q), i + j, b)
            else:
                e = digit(data.fn(q + 1), i + j - k, b)
            goals.append(digit(word, j, b) == z3.If(j < w, e, z3.BitVecVal(0, 64)))
        for g0 in range(0, k, 16):
            ctx.prove(f"post.digits[{g0}..{min(g0 + 16, k) - 1}]: digit j == element p+j for j < w, 0 above",
                      z3.And(*goals[g0:g0 + 16]))

    def concrete(self, case):
        from npstructures.bitarray import BitArray
        a = np.array(case["a"], dtype=np.uint64)
        b = case["b"]
        k = 64 // b
        ba = BitArray.pack(a, b)
        for w in sorted({1, 2, k // 2, k} - {0}):
            if w > len(a):
                continue
            got = [int(x) for x in ba.sliding_window(w)]
            exp = [sum(int(a[p + j]) << (b * j) for j in range(w)) for p in range(len(a) - w + 1)]
            if got != exp:
                return {"msg": f"pack({case['a']}, {b}).sliding_window({w}) = {got}, expected {exp}", "sig": "wrong:sliding_window"}

    bounded_cases = Pack.bounded_cases
