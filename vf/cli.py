"""check <property> [--tier quick|thorough] [--replay file]

Runs, for one property: (1) the proof families serving it (VCs from the real functions, discharged by
z3 / cvc5), (2) the family-level bounded cross-check (concrete reading of the same contracts on the real
functions), (3) the property-level bounded stand-in (public API against the oracle the statement names).
Writes /verif/evidence/<id>.json.  Exit 0 held / 1 violation (VIOLATION line) / 2 undecided / 3 checker error.
"""
import argparse
import collections
import hashlib
import importlib
import json
import multiprocessing as mp
import os
import sys
import time
import traceback

VERIF = os.path.dirname(os.path.dirname(os.path.abspath(__file__)))
REPO = os.environ.get("VERIF_REPO", "/repo")

# property -> (proof modules, bounded module or None)
PROPS = {
    "C01": (["geometry", "lemmas"], "c01"),
    "C02": (["colslice", "rowsel", "indices", "derived", "dispatch", "e2e", "lemmas"], "c02"),
    "C03": (["colslice", "rowsel", "assign", "indices", "derived", "dispatch", "broadcast", "e2e", "lemmas"], "c03"),
    "C04": (["ufunc", "broadcast", "lemmas"], "c04"),
    "C05": (["reduce", "structural", "broadcast", "lemmas"], "c05"),
    "C06": (["colslice", "rowsel", "indices", "derived", "dispatch", "frames", "e2e", "lemmas"], "c06"),
    "C07": (["scans", "broadcast", "lemmas"], "c07"),
    "C08": (["structural", "geometry", "derived", "broadcast", "lemmas"], "c08"),
    "C09": (["columns", "lemmas"], "c09"),
    "C10": (["frames", "assign", "ufunc", "derived"], "c10"),
    "C11": (["hashtable", "structural", "lemmas"], "c11"),
    "C12": (["hashtable", "geometry", "indices", "lemmas"], "c12"),
    "C13": (["bitarray"], "c13"),
    "C14": (["rle", "lemmas"], "c14"),
    "C15": (["rle", "rle2d", "structural", "lemmas"], "c15"),
    "C16": (["rle", "lemmas"], "c16"),
    "C17": (["rle2d", "rle", "structural", "lemmas"], "c17"),
    "C18": (["dataclass"], "c18"),
    "C19": (["colslice", "rowsel", "indices", "derived", "geometry", "reduce", "scans", "columns", "structural", "lemmas"], "c19"),
}

TRUSTED_BASE = [
    "CPython 3.12 executes the real function objects; the symbolic proxies (vf/sym) implement int / bool / numpy-array semantics faithfully (new code; guarded by the concrete cross-check and the numpy audit)",
    "numpy 2.5.3 primitives behave as their assumed contracts in vf/sym/symnp.py, vf/sym/theory.py, vf/sym/arr.py (audited on small inputs only)",
    "z3 5.1.0 (and cvc5 1.0.3 / z3 4.8.12 when z3 answers unknown) are sound",
    "index arithmetic is mathematical: sizes below 2^63 (2^31 in the 32-bit configuration)",
    "the induction over histories / programs that lifts per-operation contracts to for-all-histories statements is a paper argument (DESIGN section 11)",
]


def load_families(prop):
    from .proofs import base
    mods = PROPS[prop][0]
    loaded = []
    for m in mods:
        try:
            importlib.import_module("vf.proofs." + m)
            loaded.append(m)
        except ModuleNotFoundError as e:
            if ("vf.proofs." + m) not in str(e):
                raise
    return base.families_for(prop), loaded


def _proof_task(args):
    prop, fam_name, kind, timeout_ms, config = args
    os.environ["VERIF_REPO"] = REPO
    os.environ["VERIF_TIER"] = "thorough" if timeout_ms >= 60000 and os.environ.get("VERIF_TIER_ARG") == "thorough" else "quick"
    os.environ["VERIF_PROPERTY"] = prop
    try:
        from .sym import env
        env.import_repo()
        if config == "int32":
            import numpy as np
            from npstructures.raggedshape import ViewBase
            ViewBase.set_dtype(np.int32)
        from .proofs import base
        load_families(prop)
        fam = [f for f in base.REGISTRY if f.name == fam_name][0]
        r = base.run_kind(fam, kind, timeout_ms=max(timeout_ms, fam.timeout_ms), config=config)
        r["config"] = config
        return r
    except Exception as e:
        return {"family": fam_name, "kind": kind, "config": config, "obligations": [
            {"name": f"{fam_name}/{kind}/engine", "status": "undecided", "kind": "engine",
             "reason": "engine crash: " + "".join(traceback.format_exception_only(type(e), e)).strip()
                       + " | " + traceback.format_exc()[-600:], "time": 0.0}], "paths": 0, "wall_s": 0}


def _family_bounded_task(args):
    prop, fam_name, tier, seed = args
    os.environ["VERIF_REPO"] = REPO
    import warnings
    warnings.simplefilter("ignore")
    from .sym import env
    env.import_repo()
    from .proofs import base
    load_families(prop)
    fam = [f for f in base.REGISTRY if f.name == fam_name][0]
    n, nt, bad, samples = 0, 0, [], []
    t0 = time.time()
    for case in fam.bounded_cases(tier, seed):
        n += 1
        if fam.nontrivial(case):
            nt += 1
        if len(samples) < 2:
            samples.append(case)
        try:
            v = fam.concrete(case)
        except Exception as e:
            v = {"msg": "checker error: " + repr(e) + traceback.format_exc()[-300:], "sig": "CHECKER-ERROR"}
        if v is not None:
            bad.append((case, v))
            if len(bad) > 50:
                break
    return {"family": fam_name, "evaluations": n, "nontrivial": nt, "violations": bad, "samples": samples,
            "wall_s": round(time.time() - t0, 3)}


def _child(fn, task, conn):
    try:
        conn.send(fn(task))
    except BaseException as e:           # never let a worker die silently
        try:
            conn.send({"__error__": repr(e)})
        except Exception:
            pass
    finally:
        conn.close()


def run_tasks(fn, tasks, procs, deadline_s):
    """runs fn(task) for every task in its own forked process, at most `procs` at a time; a task that exceeds the
    wall-clock deadline is killed (a stuck solver call cannot stall the check) and yields a marker"""
    ctx = mp.get_context("fork")
    results = [None] * len(tasks)
    running = {}
    nxt = 0
    while nxt < len(tasks) or running:
        while nxt < len(tasks) and len(running) < procs:
            parent, child = ctx.Pipe(duplex=False)
            p = ctx.Process(target=_child, args=(fn, tasks[nxt], child))
            p.start()
            child.close()
            running[nxt] = (p, parent, time.time())
            nxt += 1
        for i, (p, conn, t0) in list(running.items()):
            done = False
            if conn.poll(0):
                try:
                    results[i] = conn.recv()
                except (EOFError, OSError):
                    results[i] = None
                done = True
            elif not p.is_alive():
                done = True
            elif time.time() - t0 > deadline_s:
                p.kill()
                results[i] = {"__timeout__": deadline_s}
                done = True
            if done:
                p.join(timeout=5)
                conn.close()
                del running[i]
        time.sleep(0.005)
    return results


def load_findings():
    p = os.path.join(VERIF, "known_findings.json")
    if not os.path.exists(p):
        return {"findings": [], "fixed": []}
    return json.load(open(p))


def finding_for(prop, source, sig, findings):
    for f in findings.get("findings", []):
        if f.get("property") != prop or f.get("status", "known") != "known":
            continue
        if f.get("sig") == sig and f.get("source", source) == source:
            return f
    return None


def write_replay(prop, payload):
    d = os.path.join(VERIF, "replays")
    os.makedirs(d, exist_ok=True)
    h = hashlib.sha256(json.dumps(payload, sort_keys=True, default=str).encode()).hexdigest()[:10]
    path = os.path.join(d, f"{prop}-{h}.json")
    with open(path, "w") as f:
        json.dump(payload, f, indent=1, default=str)
    return path


def do_replay(prop, path):
    payload = json.load(open(path))
    os.environ["VERIF_REPO"] = REPO
    from .sym import env
    env.import_repo()
    if payload.get("source") == "bounded":
        mod = importlib.import_module("vf.bounded." + payload["module"])
        v = mod.check(payload["case"])
    elif payload.get("case") is not None:
        from .proofs import base
        load_families(prop)
        fam = [f for f in base.REGISTRY if f.name == payload["family"]][0]
        v = fam.concrete(payload["case"])
    else:
        print("replay file carries no concrete input (no-failing-input-found); obligation:", payload.get("obligation"))
        print(payload.get("solver_output", ""))
        return 1
    if v is None:
        print(f"REPLAY property={prop}: the recorded input no longer violates the contract")
        return 0
    print(f"REPLAY property={prop}: still fails: {v['msg']}")
    return 1


def main(argv=None):
    ap = argparse.ArgumentParser()
    ap.add_argument("prop")
    ap.add_argument("--tier", default=os.environ.get("VERIF_TIER", "quick"), choices=["quick", "thorough"])
    ap.add_argument("--replay")
    ap.add_argument("--no-bounded", action="store_true")
    ap.add_argument("--no-proof", action="store_true")
    ap.add_argument("--procs", type=int, default=min(16, os.cpu_count() or 4))
    a = ap.parse_args(argv)
    prop = a.prop
    if prop not in PROPS:
        print(f"unknown property {prop}")
        return 3
    if a.replay:
        return do_replay(prop, a.replay)
    seed = int(os.environ.get("VERIF_SEED", "0") or 0)
    tier = a.tier
    os.environ["VERIF_TIER_ARG"] = tier
    t0 = time.time()
    os.environ["VERIF_REPO"] = REPO
    sys.path.insert(0, REPO)
    from .sym import env
    env.import_repo()
    findings = load_findings()
    lock_path = os.path.join(VERIF, "obligations.lock.json")
    lock = json.load(open(lock_path)) if os.path.exists(lock_path) else {}

    violations = []        # (source, sig, msg, replay payload)
    checker_errors = []
    notes = []

    # ---- 1. proofs ------------------------------------------------------------------------
    fams, loaded_mods = ([], [])
    proof_results = []
    if not a.no_proof:
        fams, loaded_mods = load_families(prop)
        timeout_ms = 10000 if tier == "quick" else 60000
        configs = ["int64"]
        if prop == "C19":
            configs = ["int64", "int32"]
        tasks = [(prop, f.name, k, timeout_ms, cfg) for cfg in configs for f in fams for k in f.kinds()
                 if cfg in getattr(f, "configs", ["int64", "int32"])]
        if tasks:
            deadline = 300 if tier == "quick" else 1200

            def guarded(results, tks):
                out = []
                for r, tk in zip(results, tks):
                    if not isinstance(r, dict) or "__timeout__" in r or "__error__" in r or "obligations" not in r:
                        why = ("exceeded the wall-clock budget of %ss and was stopped" % r["__timeout__"]) if isinstance(r, dict) and "__timeout__" in r \
                            else ("worker failed: %s" % (r.get("__error__") if isinstance(r, dict) else "no result"))
                        r = {"family": tk[1], "kind": tk[2], "config": tk[4], "paths": 0, "wall_s": 0, "obligations": [
                            {"name": f"{tk[1]}/{tk[2]}/engine", "status": "undecided", "kind": "engine", "reason": why, "time": 0.0}]}
                    out.append(r)
                return out
            proof_results = guarded(run_tasks(_proof_task, tasks, min(a.procs, len(tasks)), deadline), tasks)
            # solver budgets must not make verdicts flip when all cores are busy: (family, kind) tasks with a timed-out
            # obligation are run once more, few at a time, with four times the budget
            retry = [i for i, r in enumerate(proof_results)
                     if any(o["status"] == "undecided" and o.get("kind") != "engine" and "timeout" in (o.get("reason") or "")
                            for o in r["obligations"])]
            if retry:
                tasks2 = [tasks[i][:3] + (tasks[i][3] * 4, tasks[i][4]) for i in retry]
                again = guarded(run_tasks(_proof_task, tasks2, min(4, len(tasks2)), deadline * 2), tasks2)
                for i, r in zip(retry, again):
                    r["retried"] = True
                    proof_results[i] = r
    obligations = []
    for r in proof_results:
        for o in r["obligations"]:
            o["family"] = r["family"]
            o["config"] = r.get("config", "int64")
            obligations.append(o)
    for o in obligations:
        if o["status"] == "vacuous":
            checker_errors.append(f"vacuous proof: {o['name']}: {o.get('reason')}")
    obligations = [o for o in obligations if o["status"] != "vacuous"]
    n_canaries = sum(r.get("canaries", 0) for r in proof_results)
    cross = collections.Counter(o.get("cross_check") for o in obligations if o.get("cross_check"))
    for o in obligations:
        if o.get("cross_check") == "sat":
            checker_errors.append(f"solver disagreement: z3 discharged {o['name']} but cvc5 finds the instantiated VC satisfiable")
    n_ob = len(obligations)
    proved = [o for o in obligations if o["status"] == "proved"]
    by_backend = collections.Counter(o.get("solver", "?") for o in proved)
    undecided = [o for o in obligations if o["status"] not in ("proved",) and not o["status"].startswith("refuted")]
    refuted = [o for o in obligations if o["status"].startswith("refuted")]
    fam_need_bounded = set()
    for o in refuted:
        rep = o.get("replay")
        if isinstance(rep, dict):
            violations.append(("proof:" + o["family"], rep["sig"], rep["msg"],
                               {"property": prop, "source": "proof", "family": o["family"], "obligation": o["name"],
                                "case": o["case"], "msg": rep["msg"], "sig": rep["sig"], "model": o.get("model"),
                                "solver": o.get("solver")}))
        else:
            # counter-model not confirmed on the real code (or not concretisable): undecided, bounded enumerator decides
            o["orig_status"] = o["status"]
            o["status"] = "undecided"
            o["reason"] = (o.get("reason", "") + " counter-model not confirmed by replay").strip()
            undecided.append(o)
            fam_need_bounded.add(o["family"])
    for o in undecided:
        fam_need_bounded.add(o["family"])

    # lock comparison: obligations discharged on the unchanged tree (names without the path id) that now fail
    import re as _re
    strip_path = lambda name: _re.sub(r"/path=[TF]*", "", name)
    locked = lock.get(prop, {})
    if locked and n_ob == 0 and locked.get("obligations", 0) > 0:
        checker_errors.append("zero obligations generated although the lock file lists %d" % locked["obligations"])
    locked_names = {k: set(v) for k, v in locked.get("proved_names", {}).items()}
    regressed = collections.OrderedDict()          # (family, config) -> list of obligations that were discharged and now fail
    for o in obligations:
        if o["status"] == "proved" or o.get("kind") == "engine":
            continue
        key = f"{o['family']}@{o['config']}"
        was = strip_path(o["name"]) in locked_names.get(key, set()) or (
            o["name"].endswith("]") and "no-exception[" in o["name"] and key in locked_names)
        # a NEW obligation (a path or a post that the unchanged code does not have) of a family that was fully discharged on the unchanged
        # tree, refuted by the solver with the schematic hypotheses as quantifiers: the changed code fails the family's contract
        new_and_refuted = (not was and key in locked_names and (o.get("orig_status") or o["status"]) == "refuted"
                           and locked.get("proved_per_family", {}).get(key, 0) > 0)
        if was or new_and_refuted:
            regressed.setdefault((o["family"], o["config"]), []).append(o)
    regressions = [(f_, c_, len(v_)) for (f_, c_), v_ in regressed.items()]

    # ---- 2. family-level bounded cross-check -------------------------------------------------
    fam_bounded = []
    if fams and not a.no_bounded:
        tasks = [(prop, f.name, tier, seed) for f in fams]
        fam_bounded = []
        for r, tk in zip(run_tasks(_family_bounded_task, tasks, min(a.procs, len(tasks)), 600), tasks):
            if not isinstance(r, dict) or "evaluations" not in r:
                # a cross-check that does not finish inside its wall-clock budget (an overloaded machine) reduces coverage; it is not a verdict
                notes.append(f"family-level bounded cross-check of {tk[1]} did not finish inside its budget: {str(r)[:120]}")
                r = {"family": tk[1], "evaluations": 0, "nontrivial": 0, "violations": [], "samples": [], "wall_s": 0}
            fam_bounded.append(r)
        for fb in fam_bounded:
            fam_all_proved = all(o["status"] == "proved" for o in obligations if o["family"] == fb["family"]) and \
                any(o["family"] == fb["family"] for o in obligations)
            for case, v in fb["violations"]:
                if v["sig"] == "CHECKER-ERROR":
                    checker_errors.append(f"{fb['family']}: {v['msg']}")
                    continue
                if fam_all_proved:
                    checker_errors.append(f"engine inconsistency: {fb['family']} is fully proved but its contract fails "
                                          f"concretely: {v['msg']}")
                    continue
                violations.append(("family-bounded:" + fb["family"], v["sig"], v["msg"],
                                   {"property": prop, "source": "family-bounded", "family": fb["family"], "case": case,
                                    "msg": v["msg"], "sig": v["sig"]}))

    # ---- 3. property-level bounded stand-in ----------------------------------------------------
    bres = None
    bmod = PROPS[prop][1]
    if bmod and not a.no_bounded:
        try:
            importlib.import_module("vf.bounded." + bmod)
            have = True
        except ModuleNotFoundError as e:
            have = False
            if ("vf.bounded." + bmod) not in str(e):
                raise
        if have:
            from .bounded import common
            bres = common.run("vf.bounded." + bmod, tier, seed, procs=a.procs,
                              max_seconds=240 if tier == "quick" else 1500)
            for case, v in bres["violations"]:
                if v["sig"] == "CHECKER-ERROR":
                    checker_errors.append(f"bounded {bmod}: {v['msg']}")
                    continue
                violations.append(("bounded", v["sig"], v["msg"],
                                   {"property": prop, "source": "bounded", "module": bmod, "case": case,
                                    "msg": v["msg"], "sig": v["sig"]}))

    # ---- obligations that were discharged on the unchanged tree and now fail ----------------------------------------
    for (fam_name, cfg), obs_ in regressed.items():
        names = [o["name"] for o in obs_]
        real = [o for o in obs_ if (o.get("orig_status") or o["status"]).startswith("refuted")]
        hard = [o for o in obs_ if (o.get("orig_status") or o["status"]) == "refuted"]
        if not real:
            notes.append(f"UNDECIDED {fam_name}@{cfg}: {len(obs_)} obligation(s) discharged on the unchanged tree are now undecided "
                         f"({obs_[0].get('reason', '')[:160]}); no counter-model, bounded stand-in decides")
            continue
        if any(v[0] == "proof:" + fam_name for v in violations):
            continue                                    # already reported with a replayed counterexample
        fb = [v for v in violations if v[0] == "family-bounded:" + fam_name]
        detail = f"obligation(s) of a family discharged on the unchanged tree now fail: {names[:4]}" + (f" (+{len(names) - 4} more)" if len(names) > 4 else "")
        if fb:
            src, sig, msg, payload = fb[0]
            violations.append(("proof:" + fam_name, sig, detail + "; failing input from the concrete reading of the same contract: " + msg,
                               dict(payload, source="family-bounded", failed_obligations=names, solver=obs_[0].get("solver"),
                                    model=str(real[0].get("model", ""))[:1500])))
        elif hard:
            ob = hard[0]
            violations.append(("proof:" + fam_name, "obligation-failed:" + fam_name, detail + f"; solver: {ob.get('solver')} returned a counter-model",
                               {"property": prop, "source": "proof", "family": fam_name, "obligation": ob["name"], "failed_obligations": names,
                                "case": None, "solver_output": (ob.get("reason", "") + "\n" + str(ob.get("model", "")))[:3000],
                                "no_failing_input_found": True}))
        else:
            notes.append(f"UNDECIDED {fam_name}@{cfg}: {names[:3]} have a counter-model of the instantiated hypotheses only "
                         f"(quantified check inconclusive) and no failing input was found inside the bounds")

    # ---- verdict ---------------------------------------------------------------------------------
    reported, known_hits = [], collections.OrderedDict()
    seen_sig = set()
    for source, sig, msg, payload in violations:
        src_class = source.split(":")[0]
        f = finding_for(prop, src_class, sig, findings) or finding_for(prop, "any", sig, findings)
        if f is not None:
            known_hits.setdefault(sig, (f, msg))
            continue
        if (source, sig) in seen_sig:
            continue
        seen_sig.add((source, sig))
        path = write_replay(prop, payload)
        reported.append((source, sig, msg, path, payload.get("no_failing_input_found", False)))

    for sig, (f, msg) in known_hits.items():
        print(f"KNOWN-FINDING: property={prop} {f.get('what', sig)} [{sig}] e.g. {msg[:200]}")
    for source, sig, msg, path, nofail in reported:
        print(f"  {source} [{sig}] {msg[:400]}")
        print(f"VIOLATION property={prop} replay={path}" + (" no-failing-input-found" if nofail else ""))
    for n_ in notes:
        print("NOTE", n_)
    for e in checker_errors:
        print("CHECKER-ERROR", e[:600])

    # ---- evidence ----------------------------------------------------------------------------------
    n_bounded = (bres["evaluations"] if bres else 0) + sum(fb["evaluations"] for fb in fam_bounded)
    n_nontriv = (bres["distinct_nontrivial"] if bres else 0) + sum(fb["nontrivial"] for fb in fam_bounded)
    manifest_level = "other"
    try:
        man = json.load(open(os.path.join(VERIF, "MANIFEST.json")))
        for c in man["checks"]:
            if c["property_id"] == prop:
                manifest_level = c["level_claimed"]["category"]
    except Exception:
        pass
    all_discharged = n_ob > 0 and len(proved) == n_ob
    level = manifest_level if (manifest_level != "proof" or all_discharged) else "other"
    from .proofs import base as pbase
    functions = []
    for f in fams:
        obs = [o for o in obligations if o["family"] == f.name]
        st = "proved" if obs and all(o["status"] == "proved" for o in obs) else (
            "partly proved (rest bounded)" if any(o["status"] == "proved" for o in obs) else "bounded only")
        functions.append({"function": f.qualname, "family": f.name, "status": st, "obligations": len(obs),
                          "discharged": sum(o["status"] == "proved" for o in obs),
                          "source_sha": pbase.source_hash(f.qualname), "inlined": f.extra_functions(),
                          "assumed_contracts": f.assumed})
    samples = [{"obligation": o["name"], "status": o["status"], "solver": o.get("solver"), "time_s": o.get("time")}
               for o in obligations[:3]]
    if bres:
        samples += [{"bounded_case": s} for s in bres["samples"][:3]]
    for fb in fam_bounded[:2]:
        samples += [{"family_bounded_case": s, "family": fb["family"]} for s in fb["samples"][:1]]
    solver_time = sum(o.get("time", 0) or 0 for o in obligations)
    explanation = (
        f"contract-based deductive verification of the real functions: {n_ob} verification conditions generated from "
        f"{len(fams)} functions under contract (symbolic execution of the code objects compiled from {REPO}'s working tree, "
        f"numpy primitives replaced by assumed contracts), {len(proved)} discharged ({dict(by_backend)}), "
        f"{len(undecided)} undecided, {len([v for v in violations if v[0].startswith('proof')])} refuted with replayed input. "
        f"Bounded stand-in (labelled bounded, never counted as proved): {n_bounded} concrete evaluations of the same contracts / "
        f"of the property's oracle on the real code inside the stated bounds.")
    ev = {
        "property_id": prop, "tier": tier, "seed": seed, "level": level,
        "coverage": {
            "obligations": n_ob, "discharged": len(proved), "discharged_by_backend": dict(by_backend),
            "undecided": [{"name": o["name"], "reason": o.get("reason", "")[:300]} for o in undecided][:40],
            "solver_time_s": round(solver_time, 3),
            "vacuity_canaries_checked": n_canaries,
            "discharged_only_with_solver_quantifier_instantiation": sorted({strip_path(o["name"]) for o in proved if "native quantifier" in (o.get("reason") or "")})[:60],
            "cvc5_cross_check_of_discharged_VCs": dict(cross),
            "max_obligation_time_s": max([o.get("time", 0) or 0 for o in obligations] + [0]),
            "slowest_obligations": [{"name": o["name"][:200], "status": o["status"], "time_s": round(o.get("time", 0) or 0, 2)}
                                    for o in sorted(obligations, key=lambda o_: -(o_.get("time", 0) or 0))[:5] if (o.get("time", 0) or 0) >= 5],
            "checker_cmd": f"./check {prop} --tier {tier}",
            "trusted_base": TRUSTED_BASE,
            "functions_under_contract": functions,
            "proof_modules": loaded_mods,
            "evaluations": max(n_bounded, 1) if (bres or fam_bounded) else n_bounded,
            "distinct_nontrivial": n_nontriv,
            "rule": (bres["rule"] if bres else "family-level bounded cross-check only"),
            "bounds": (bres["bounds"] if bres else {}),
            "bounded_label": "bounded stand-in: never counted in `discharged`",
            "bounded_exhaustive_within_bounds": bool(bres and not bres["truncated"]),
            "family_bounded": [{k: fb[k] for k in ("family", "evaluations", "nontrivial", "wall_s")} for fb in fam_bounded],
            "samples": samples,
            "explanation": explanation,
            "known_findings_matched": [s for s in known_hits],
            "notes": notes,
            "checker_errors": checker_errors[:10],
            "lock_regressions": [list(r) for r in regressions],
        },
        "assumptions": TRUSTED_BASE + sorted({a_ for f in fams for a_ in f.assumed}),
        "wall_s": round(time.time() - t0, 2),
        "violations": len(reported),
    }
    # evaluations of seeded changes run against scratch copies: their evidence goes to a scratch directory, /verif/evidence keeps describing /repo
    ev_dir = os.environ.get("VERIF_EVIDENCE_DIR") or os.path.join(VERIF, "evidence")
    os.makedirs(ev_dir, exist_ok=True)
    with open(os.path.join(ev_dir, f"{prop}.json"), "w") as f:
        json.dump(ev, f, indent=1, default=str)
    print(f"{prop} [{tier}] obligations={n_ob} discharged={len(proved)} undecided={len(undecided)} "
          f"bounded_evaluations={n_bounded} violations={len(reported)} known={len(known_hits)} wall={ev['wall_s']}s")
    if os.environ.get("VERIF_WRITE_LOCK") == "1":
        per = collections.Counter(f"{o['family']}@{o['config']}" for o in proved)
        names = {}
        for o in proved:
            names.setdefault(f"{o['family']}@{o['config']}", set()).add(strip_path(o["name"]))
        lock[prop] = {"obligations": n_ob, "proved": len(proved), "proved_per_family": dict(per),
                      "proved_names": {k: sorted(v) for k, v in names.items()}}
        json.dump(lock, open(lock_path, "w"), indent=1, sort_keys=True)
    if reported:
        return 1
    if checker_errors:
        return 3
    if n_ob == 0 and not bres and not fam_bounded:
        print("nothing explored")
        return 2
    return 0


if __name__ == "__main__":
    sys.exit(main())
