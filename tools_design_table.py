"""Regenerates the summary table of DESIGN.md section 0 (between the summary-table markers) from obligations.lock.json (which
families are discharged for which property, how many obligations) and the two hand-written columns below."""
import json
import os
import re

HERE = os.path.dirname(os.path.abspath(__file__))

BOUNDED = {
    "C01": "dtype matrix; the file itself in `save/load` (A: `np.load` gives back what `np.savez` stored - the library's part of the round trip is proved)",
    "C02": "end-to-end composition for selector combinations outside the e2e families (which cover rows by slice / index array / boolean mask, columns by slice or none, integer forms); column steps other than 1, 2, -1, -2, -3 only through the callee families",
    "C03": "end-to-end assignment for value kinds other than a scalar (row / column / ragged values go through `_set_data_range` and the broadcast families) and selector combinations outside the e2e families",
    "C04": "numpy's result-dtype table, dtype matrix",
    "C05": "float / dtype matrix (`mean` is proved as sum / count over the callee contracts; float division uninterpreted)",
    "C06": "derived-vs-fresh comparison under every probe (representation independence end to end)",
    "C07": "`sort`: that numpy's `lexsort` order by (row, value) sorts every row in place (keys, gather and geometry are proved); `unique`, `diff` values end to end; float accumulate is the known finding",
    "C08": "the constructor from a list of rows behind `concatenate(axis=1)` (the joined row of an arbitrary iteration is proved), `ragged_slice` on 1-D / 2-D inputs, element types other than the abstract one for the padded matrix",
    "C09": "float / bool column-sum values (`mean(axis=0)` is proved as sum / col_counts over the callee contracts)",
    "C10": "differential histories (the history relation itself)",
    "C11": "histories against a dict (one lookup and one assignment are lemmas over the proved contracts; the induction over operation sequences is a paper argument)",
    "C12": "totals end to end against `collections.Counter`",
    "C13": "cross-check only",
    "C14": "dtype matrix",
    "C15": "end-to-end composition for masks and windows (mask -> windows -> ragged run-length array -> ravel); slices are composed by a proved lemma",
    "C16": "float `sum`, numpy's own `histogram` of weighted values (`mean`, `histogram` are proved as dispatch over the callee contracts)",
    "C17": "constructors (`from_array`, `from_ragged_array`, `from_intervals`), column ranges, column sums / any (`_col_sum`, `_col_any`), `concatenate` of more than 3 operands",
    "C18": "cross-check only (number of fields / operands is unrolled 1..3, hence not claimed as proof)",
    "C19": "the C01-C09 stand-ins run under both widths and compared",
}
DEFECTS = {
    "C01": "none", "C02": "4 fixed", "C03": "inherits C02's + 1 fixed (ragged mask)", "C04": "2 fixed", "C05": "5 fixed", "C06": "7 fixed",
    "C07": "1 fixed, 1 known finding (float accumulate)", "C08": "2 fixed", "C09": "1 fixed",
    "C10": "1 known finding (lazy selection detached by a read)", "C11": "5 fixed, 1 known finding (explicit modulus wider than an 8- / 16-bit key dtype)",
    "C12": "same known finding", "C13": "none", "C14": "none (clamp defect of C15 shows here too)", "C15": "1 fixed", "C16": "2 fixed",
    "C17": "2 fixed", "C18": "none", "C19": "1 fixed",
}


def main():
    lock = json.load(open(os.path.join(HERE, "obligations.lock.json")))
    rows = ["| id | families discharged (function under contract: obligations) - total proved / generated, quick tier | what stays bounded (B) | defects found on the pinned tree |",
            "|----|---|---|---|"]
    for pid in sorted(lock):
        per = {}
        for k, v in lock[pid]["proved_per_family"].items():
            fam = k.split("@")[0]
            per[fam] = per.get(fam, 0) + v
        if pid == "C19":
            fams = f"every geometry / indexing / reduction / scan / structural family re-generated under both index widths ({len(per)} families)"
        else:
            fams = ", ".join(f"`{f}`: {n}" for f, n in sorted(per.items()))
        rows.append(f"| {pid} | {fams} - **{lock[pid]['proved']} / {lock[pid]['obligations']}** | {BOUNDED[pid]} | {DEFECTS[pid]} |")
    table = "\n".join(rows)
    p = os.path.join(HERE, "DESIGN.md")
    s = open(p).read()
    s2 = re.sub(r"<!-- summary-table -->.*?<!-- /summary-table -->", "<!-- summary-table -->\n" + table + "\n<!-- /summary-table -->", s, flags=re.S)
    assert s2 != s or table in s, "markers not found"
    open(p, "w").write(s2)
    print("summary table regenerated:", len(rows) - 2, "rows")


if __name__ == "__main__":
    main()
