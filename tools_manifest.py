"""Regenerates MANIFEST.json from the table below (kept in one place so that the manifest stays valid)."""
import json
import os
import subprocess

HERE = os.path.dirname(os.path.abspath(__file__))

COMMON_NOTE = ("Trusted: CPython executing the real function objects on the symbolic proxies of vf/sym (new code, cross-checked "
               "concretely on every run); assumed numpy contracts (vf/sym/symnp.py, theory.py, arr.py; audited on small inputs "
               "only); z3 5.1.0 / cvc5 1.0.3 / z3 4.8.12 sound; index arithmetic mathematical (sizes < 2^63, < 2^31 under int32); "
               "inductions over histories/programs are paper arguments. Bounded parts are exhaustive only inside the stated bounds.")

# id -> (category, technique, text, design_ref)
CHECKS = {
    "C01": ("other", "contracts on the real geometry/constructor functions: VCs by symbolic execution + z3; bounded oracle stand-in for readers",
            "Geometry functions (prefix-sum starts, size check, flat<->(row,col) maps) are verified against contracts for all row-length vectors; the readers (iteration, tolist, astype, numpy round trip, save/load) are checked against the list of rows exhaustively inside stated bounds (bounded, not proved).", "11/C01"),
    "C02": ("other", "contracts on the real indexing functions: VCs by symbolic execution + z3/cvc5; bounded list-of-rows oracle stand-in",
            "Column-selection arithmetic (all 8 None/int slice kinds, symbolic bounds, steps and column step), integer column / element refusal, row selection on codes and the gather-index construction are proved for all inputs from the code as it is; the dispatch end-to-end is checked exhaustively against Python list indexing inside stated bounds (bounded).", "11/C02"),
    "C03": ("other", "contracts (scatter frame, same address arithmetic as reads) + bounded list-of-rows assignment oracle",
            "The address arithmetic shared with reads is proved (C02 families); the scatter frame of _set_data_range is proved; the dispatch by value kind and column-vector broadcast are checked exhaustively inside stated bounds (bounded).", "11/C03"),
    "C04": ("other", "contracts on __array_ufunc__ (uninterpreted per-element ufunc) + bounded numpy-per-row oracle",
            "Operand classification, shape guard, operand order and result assembly are proved with the ufunc uninterpreted; dtype and broadcasting are checked against numpy per row inside stated bounds (bounded).", "11/C04"),
    "C05": ("other", "contract of _reduce against the assumed reduceat contract + bounded numpy-per-row oracle",
            "_reduce (empty-row patch-up, trailing-empty-row trimming, reduceat index bounds) is proved against the assumed contract of ufunc.reduceat for all row-length vectors; wrappers and named reductions are bounded.", "11/C05"),
    "C06": ("other", "contracts over the abstract rows for all geometry kinds + bounded derived-vs-fresh comparison",
            "View composition (row subset of views, column step compounding, integer column/element on strided views) is proved; representation independence end-to-end is checked by comparing derived and freshly built arrays under every probe inside stated bounds (bounded).", "11/C06"),
    "C07": ("other", "contracts (prefix-sum telescoping) + bounded numpy-per-row oracle",
            "cumsum / accumulate are verified where the scan invariant is discharged; sort, unique, diff are bounded.", "11/C07"),
    "C08": ("other", "contracts on structural functions + bounded oracle",
            "like-constructors, concatenate(axis=0), where, ragged_slice window arithmetic are verified where discharged; the rest is bounded.", "11/C08"),
    "C09": ("other", "contracts (dtype dispatch, col_counts) + bounded oracle with dtype extremes", "column aggregates: branch structure verified, values bounded.", "11/C09"),
    "C10": ("other", "two-state contracts (frame + buffer dependence) + bounded differential histories",
            "Reads are checked not to write to existing buffers; the history relation is checked differentially for all histories inside stated bounds; one known finding (lazy selection detached by read).", "11/C10"),
    "C11": ("other", "contracts over the dictionary view + bounded dict oracle", "hash/mod arithmetic verified; lookup/assign/contains chains bounded against a Python dict.", "11/C11"),
    "C12": ("other", "contracts + bounded collections.Counter oracle", "branch structure verified; totals bounded.", "11/C12"),
    "C13": ("other", "QF_BV contracts on pack/unpack/getitem/sliding_window + bounded oracle",
            "bit-vector VCs from the real functions for every b in {1,2,4,8,16,32} with symbolic length and positions; bounded cross-check.", "11/C13"),
    "C14": ("other", "contracts (encoder canonical form, decoder) + bounded numpy oracle", "encoder canonical form verified; decoder and dtype matrix bounded.", "11/C14"),
    "C15": ("other", "contracts (slice normalisation = CPython slice.indices, position lookup) + bounded numpy oracle",
            "_get_slice normalisation proved equal to CPython's window for every None/negative/out-of-range combination; the rest bounded.", "11/C15"),
    "C16": ("other", "contracts (operand order, boundaries) + bounded numpy oracle", "scalar/unary ufunc dispatch verified; merge and reductions bounded.", "11/C16"),
    "C17": ("other", "contracts (operand order, shapes) + bounded numpy oracle", "mostly bounded, as planned in DESIGN.", "11/C17"),
    "C18": ("other", "contracts on field-wise operations + bounded oracle", "field-wise map and equal-length check verified with abstract fields; bounded cross-check.", "11/C18"),
    "C19": ("other", "re-generation of the C01/C02 obligations under int32 + bounded differential run",
            "every geometry / indexing obligation is generated and discharged under both index widths; bounded stand-ins of C01-C09 are run under both and compared.", "11/C19"),
}


def main():
    hooks_commits = []
    man = {
        "version": 1,
        "setup_cmd": "./setup.sh",
        "hooks": {"guard": "NPSTRUCTURES_VERIF", "enable": "no source hooks are needed: contracts are sidecar files under /verif/vf and the repository's functions are executed unmodified",
                  "baseline_off_cmd": "cd /repo && /venv/bin/python -m pytest -ra -q -p no:cacheprovider --timeout=900 --continue-on-collection-errors",
                  "source_commits": hooks_commits, "add_only": True},
        "engines": [
            {"name": "npvc", "path": "vf/sym", "serves_properties": sorted(CHECKS),
             "kind_free_text": "verification-condition generator: symbolic execution of the real function objects on proxy values (z3 terms, closure arrays, numpy primitives as assumed contracts), all paths, obligations discharged by z3 5.1.0 with cvc5 / z3 4.8.12 fallback"},
            {"name": "bounded", "path": "vf/bounded", "serves_properties": sorted(CHECKS),
             "kind_free_text": "bounded stand-in: exhaustive enumeration inside stated bounds against the oracle the property names; always labelled bounded"},
        ],
        "checks": [],
        "not_applicable": [],
        "notes": "See DESIGN.md. Exit codes: 0 held, 1 violation (VIOLATION line), 2 undecided/nothing explored, 3 checker error.",
    }
    for pid in sorted(CHECKS):
        cat, tech, text, ref = CHECKS[pid]
        man["checks"].append({
            "property_id": pid,
            "quick_cmd": f"./check {pid} --tier quick",
            "thorough_cmd": f"./check {pid} --tier thorough",
            "evidence_file": f"evidence/{pid}.json",
            "replay_cmd_template": f"./check {pid} --replay {{path}}",
            "engine": "npvc+bounded",
            "level_claimed": {"category": cat, "text": text, "design_ref": ref},
            "level_note": COMMON_NOTE,
            "technique": tech,
        })
    with open(os.path.join(HERE, "MANIFEST.json"), "w") as f:
        json.dump(man, f, indent=1)
    import jsonschema
    jsonschema.validate(man, json.load(open("/root/.vp/MANIFEST.schema.json")))
    print("MANIFEST.json written and valid;", len(man["checks"]), "checks")


if __name__ == "__main__":
    main()
