"""C10 bounded stand-in: inserting a read-only operation anywhere in a history changes no later result.

A history is a straight-line program over {construct, select, compute, write}; it is run once as is and
once per (position, target array, kind of read) with that read inserted; the final contents of all arrays
and the results of the history's own reads must be identical."""
import itertools
import numpy as np
from .common import import_repo, rows_for, dec_index

PROPERTY = "C10"
RULE = ("exhaustive: base histories = construct a; b = a[sel1]; optionally c = b[sel2] or d = ufunc(a); 0..2 writes to a / b / c "
        "(row, element, column-range assignments) x every insertion position x every array in scope x every kind of read "
        "(repr, str, tolist, iter, ravel, integer row, row slice, column slice, element, ufunc, row reduction, full reduction, "
        "concatenate, nonzero, astype, col_counts, equals); the history ends with a read of its own (row sums / element / integer row / "
        "integer column / reversed column slice / tolist / row slice, rotating) whose result is part of the outcome. non-trivial = the inserted read targets an array that shares a "
        "buffer with another array (a selection or its source) and a write follows it")
BOUNDS = {"quick": {"shapes": [[0, 2, 1], [3, 0, 2]], "writes": "<= 2 of {a.row0, a.col0, b.row0, b.col0, c.row0}",
                    "reads": "10 kinds"},
          "thorough": {"shapes": [[1], [2, 1], [0, 2, 1], [3, 0, 2], [1, 1, 1, 1], [2, 0, 0, 3], [4, 2], [0], [2, 2, 2]], "writes": "<= 2"}}

SEL1 = [{"slice": [1, None, None]}, {"slice": [None, None, -1]}, {"list": [1, 0]}, {"mask": "alt"},
        {"tuple": [{"slice": [None, None, None]}, {"slice": [None, None, 2]}]},
        {"tuple": [{"slice": [None, None, None]}, {"slice": [1, None, None]}]}, {"slice": [None, None, 2]},
        {"tuple": [{"slice": [None, None, None]}, {"slice": [None, None, -1]}]}, {"ellipsis": 1}]
SEL2 = [None, {"slice": [1, None, None]}, {"tuple": [{"slice": [None, None, None]}, {"slice": [None, None, -1]}]}, "ufunc"]
WRITES = [("a", "row0"), ("a", "col0"), ("a", "all"), ("b", "row0"), ("b", "col0"), ("c", "row0"), ("a", "elem"), ("b", "elem")]
READS = ["repr", "str", "tolist", "iter", "ravel", "int_row", "row_slice", "col_slice", "element", "ufunc", "row_sum",
         "np_sum", "concatenate", "nonzero", "astype", "col_counts", "equals", "int_col"]


Q_WRITES = [0, 1, 3, 4, 5]
Q_READS = ["repr", "tolist", "ravel", "int_row", "col_slice", "element", "ufunc", "row_sum", "concatenate", "int_col"]


OWN_READS = ["row_sum", "element", "int_row", "int_col", "col_slice", "tolist", "row_slice"]
_COUNTER = [0]


def base_programs(tier):
    _COUNTER[0] = 0
    for shape in BOUNDS[tier]["shapes"]:
        for s1 in SEL1:
            for s2 in SEL2:
                for nw in (0, 1, 2):
                    for ws in itertools.product(Q_WRITES if tier == "quick" else range(len(WRITES)), repeat=nw):
                        if any(WRITES[w][0] == "c" for w in ws) and s2 is None:
                            continue
                        if nw == 2 and tier == "quick" and ws[0] > ws[1]:
                            continue
                        prog = [["new", "a", shape], ["sel", "b", "a", s1]]
                        if s2 == "ufunc":
                            prog.append(["compute", "c", "b"])
                        elif s2 is not None:
                            prog.append(["sel", "c", "b", s2])
                        for w in ws:
                            prog.append(["write", WRITES[w][0], WRITES[w][1]])
                        # the history's own final read: its kind and target rotate over the programs
                        _COUNTER[0] += 1
                        tgt = "c" if (s2 is not None and _COUNTER[0] % 2) else "b"
                        prog.append(["own_read", tgt, OWN_READS[_COUNTER[0] % len(OWN_READS)]])
                        yield prog


def cases(tier, seed):
    for prog in base_programs(tier):
        names = []
        for pos in range(1, len(prog) + 1):
            op = prog[pos - 1]
            if op[0] in ("new", "sel", "compute"):
                names.append(op[1])
            if not any(o[0] == "write" for o in prog[pos:]) and tier == "quick" and pos < len(prog) - 1:
                pass
            if pos < 2:
                continue
            for tgt in names:
                for rk in (Q_READS if tier == "quick" else READS):
                    yield {"prog": prog, "pos": pos, "target": tgt, "read": rk}
    if tier == "thorough":
        rng = np.random.default_rng(seed)
        progs = list(base_programs("thorough"))
        for _ in range(20000):
            prog = [list(o) for o in progs[int(rng.integers(0, len(progs)))]]
            # two inserted reads
            pos = int(rng.integers(2, len(prog) + 1))
            names = [o[1] for o in prog[:pos] if o[0] in ("new", "sel", "compute")]
            yield {"prog": prog, "pos": pos, "target": str(rng.choice(names)), "read": str(rng.choice(READS)),
                   "second": [int(rng.integers(2, len(prog) + 1)), str(rng.choice(READS))]}


def nontrivial(case):
    prog, pos = case["prog"], case["pos"]
    return any(o[0] == "write" for o in prog[pos:]) and case["target"] in ("a", "b", "c")


def do_read(x, kind):
    n = len(x)
    if kind == "repr":
        return repr(x)
    if kind == "str":
        return str(x)
    if kind == "tolist":
        return x.tolist()
    if kind == "iter":
        return [np.asarray(r).tolist() for r in x]
    if kind == "ravel":
        return np.asarray(x.ravel()).tolist()
    if kind == "int_row":
        return np.asarray(x[0]).tolist() if n else None
    if kind == "row_slice":
        return x[1:].tolist()
    if kind == "col_slice":
        return x[:, ::-1].tolist()
    if kind == "element":
        ls = [int(l) for l in np.asarray(x.lengths)]        # lengths first: the element reads below act on the array as it is
        return [int(x[i, j]) for i in range(n) for j in range(ls[i] - 1, -1, -1)][:1] + \
               [int(x[i, j]) for i in range(n) for j in range(ls[i])]
    if kind == "int_col":
        return np.asarray(x[np.asarray(x.lengths) > 0, 0]).tolist()
    if kind == "ufunc":
        return (x + 1).tolist()
    if kind == "row_sum":
        return np.asarray(x.sum(axis=-1)).tolist()
    if kind == "np_sum":
        return int(np.sum(x))
    if kind == "concatenate":
        return np.concatenate([x, x]).tolist()
    if kind == "nonzero":
        return [np.asarray(t).tolist() for t in np.nonzero(x)]
    if kind == "astype":
        return x.astype(float).tolist()
    if kind == "col_counts":
        return np.asarray(x.col_counts()).tolist() if x.size else None
    if kind == "equals":
        return bool(x.equals(x))
    raise KeyError(kind)


def do_write(x, how):
    n = len(x)
    if how == "row0":
        if n:
            x[0] = 991
    elif how == "col0":
        x[:, 0:1] = 992
    elif how == "all":
        x[...] = 993
    elif how == "elem":
        for i in range(n):
            if x.lengths[i] > 0:
                x[i, 0] = 994
                break


def run(prog, inserts):
    """inserts: list of (pos, target, kind). Returns the observable outcome of the program."""
    from npstructures import RaggedArray
    env, log = {}, []
    for pos, op in enumerate(prog, 1):
        if op[0] == "new":
            rows = rows_for(op[2], base=10)
            env[op[1]] = RaggedArray(np.array([v for r in rows for v in r], dtype=np.int64), op[2])
        elif op[0] == "sel":
            spec = op[3]
            src = env[op[2]]
            if isinstance(spec, dict) and spec.get("mask") == "alt":
                idx = np.array([i % 2 == 0 for i in range(len(src))], dtype=bool)
            elif isinstance(spec, dict) and "list" in spec:
                if len(src) < 2:
                    idx = list(range(len(src)))
                else:
                    idx = spec["list"]
            else:
                idx = dec_index(spec)
            env[op[1]] = src[idx]
        elif op[0] == "compute":
            env[op[1]] = env[op[2]] * 2
        elif op[0] == "write":
            if op[1] in env:
                do_write(env[op[1]], op[2])
        elif op[0] == "own_read":
            if op[1] in env:
                try:
                    log.append(do_read(env[op[1]], op[2] if len(op) > 2 else "row_sum"))
                except IndexError as e:
                    log.append("IndexError")
        for ipos, tgt, kind in inserts:
            if ipos == pos and tgt in env:
                do_read(env[tgt], kind)        # result discarded: an *extra* read
    final = {k: v.tolist() for k, v in sorted(env.items())}
    return {"log": log, "final": final}


_BASE = {}


def _base(prog):
    import json
    k = json.dumps(prog)
    if k not in _BASE:
        if len(_BASE) > 64:
            _BASE.clear()
        try:
            _BASE[k] = run(prog, [])
        except Exception as e:
            _BASE[k] = e
    if isinstance(_BASE[k], Exception):
        raise _BASE[k]
    return _BASE[k]


def check(case):
    import_repo()
    prog = case["prog"]
    inserts = [(case["pos"], case["target"], case["read"])]
    if "second" in case:
        inserts.append((case["second"][0], case["target"], case["second"][1]))
    try:
        base = _base(prog)
    except Exception:
        return None          # the base history itself is not executable (e.g. write to a missing row): nothing to compare
    try:
        alt = run(prog, inserts)
    except Exception as e:
        return {"msg": f"history {prog} runs, but raises {type(e).__name__}: {e} with read {inserts} inserted",
                "sig": "read-makes-history-fail:" + case["read"]}
    if base == alt:
        return None
    diff = sorted(k for k in base["final"] if base["final"][k] != alt["final"].get(k))
    tgt = case["target"]
    desc = {"a": [], "b": ["b"], "c": ["c"]}
    role = {"a": "source", "b": "selection", "c": "selection-of-selection"}[tgt]
    # which arrays are (transitively) derived from the target
    derived = {"a": {"a", "b", "c"}, "b": {"b", "c"}, "c": {"c"}}[tgt]
    # a write follows an inserted read (either of the two when a second read is inserted: both target the same array)
    first_read = min([case["pos"]] + ([case["second"][0]] if "second" in case else []))
    later_write = any(o[0] == "write" for o in prog[first_read:])
    is_sel = tgt in ("b", "c") and any(o[0] == "sel" and o[1] == tgt and not (isinstance(o[3], dict) and "ellipsis" in o[3])
                                       for o in prog)
    if is_sel and later_write and set(diff) <= derived and base["log"] == alt["log"] or (
            is_sel and later_write and set(diff) <= derived):
        sig = "lazy-selection-detached-by-read"
    else:
        sig = f"read-changes-outcome:{role}:{case['read']}:differs={'+'.join(diff) or 'log'}"
    return {"msg": f"history {prog}: inserting read {case['read']} of {tgt} after step {case['pos']} changes the outcome: "
                   f"{base} vs {alt}", "sig": sig}
