"""Rewrites the table at the end of DESIGN.md section 19 from /verif/seeded/*/meta.json"""
import glob
import json
import os
import re

HERE = os.path.dirname(os.path.abspath(__file__))
MARK = "<!-- seeded-table -->"
END = "<!-- /seeded-table -->"


def first_line(notes, default=""):
    for l in notes.splitlines():
        l = l.strip(" #*-")
        if len(l) > 20:
            return l[:160]
    return default


rows = []
for d in sorted(glob.glob(os.path.join(HERE, "seeded", "C*_*"))):
    p = os.path.join(d, "meta.json")
    if not os.path.exists(p):
        continue
    m = json.load(open(p))
    checks = m.get("checks", {})
    c = checks.get(m["breaks_property"], {})
    by = ", ".join(c.get("caught_by", [])) or "-"
    verdict = "caught" if m.get("detected") else ("not confirmed (does not manifest on the current tree)" if not m.get("confirmed") else "MISSED")
    diff = open(os.path.join(d, "patch.diff")).read() if os.path.exists(os.path.join(d, "patch.diff")) else ""
    files = sorted(set(re.findall(r"^\+\+\+ b/(\S+)", diff, re.M)))
    hunk = re.findall(r"^@@.*@@ ?(.*)$", diff, re.M)
    where = (files[0].replace("npstructures/", "") if files else "?") + (": " + hunk[0].strip()[:60] if hunk and hunk[0].strip() else "")
    po = os.path.join(d, "proof_only.json")
    pv = "-"
    if os.path.exists(po):
        pj = json.load(open(po))
        pv = "refuted obligation reported" if pj.get("exit") == 1 else ("undecided only" if "undecided=0 " not in pj.get("summary", "") else "not noticed")
    rows.append(f"| {m['id']} | {where} | {verdict} | {by} | {c.get('exit', '-')} | {pv} |")

table = "\n".join([MARK, "", "| seeded change | where | result of `./check <property>` (quick) | reported by | exit | proofs alone (`--no-bounded`) |",
                   "|---|---|---|---|---|---|"] + rows + ["", END])
path = os.path.join(HERE, "DESIGN.md")
s = open(path).read()
if MARK in s and END in s:
    s = s[: s.index(MARK)] + table + s[s.index(END) + len(END):]
elif MARK in s:
    s = s[: s.index(MARK)] + table + "\n"
else:
    s = s.rstrip("\n") + "\n\n" + table + "\n"
open(path, "w").write(s)
print(f"{len(rows)} seeded changes tabulated")
