"""Binding of the repository's modules to the symbolic numpy namespace for the duration of a run."""
import contextlib
import importlib
import os
import sys

REPO = os.environ.get("VERIF_REPO", "/repo")
_MISSING = object()


def import_repo():
    if sys.path[0] != REPO:
        sys.path.insert(0, REPO)
    import npstructures  # noqa
    mod = sys.modules["npstructures"]
    where = os.path.dirname(os.path.abspath(mod.__file__))
    if os.path.realpath(where) != os.path.realpath(os.path.join(REPO, "npstructures")):
        raise RuntimeError(f"npstructures imported from {where}, expected {REPO}/npstructures")
    return mod


def repo_modules():
    import_repo()
    for name in ("npstructures.raggedshape", "npstructures.raggedarray", "npstructures.raggedarray.base",
                 "npstructures.raggedarray.indexablearray", "npstructures.raggedarray.raggedslice",
                 "npstructures.arrayfunctions", "npstructures.hashtable", "npstructures.bitarray",
                 "npstructures.runlengtharray", "npstructures.npdataclasses", "npstructures.mixin",
                 "npstructures.util"):
        importlib.import_module(name)
    return [m for n, m in sys.modules.items() if n == "npstructures" or n.startswith("npstructures.")]


@contextlib.contextmanager
def symbolic_modules():
    from .symnp import SYMNP, REBOUND_BUILTINS
    saved = []
    for mod in repo_modules():
        d = mod.__dict__
        for name in ("np", "_np"):
            if name in d:
                saved.append((d, name, d[name]))
                d[name] = SYMNP
        for name, f in REBOUND_BUILTINS.items():
            saved.append((d, name, d.get(name, _MISSING)))
            d[name] = f
    try:
        yield
    finally:
        for d, name, old in reversed(saved):
            if old is _MISSING:
                d.pop(name, None)
            else:
                d[name] = old
