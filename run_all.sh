#!/bin/bash
# runs every quick (or $1) check in turn; prints the summary line of each and validates the evidence
cd "$(dirname "$0")"
TIER=${1:-quick}
for p in C01 C02 C03 C04 C05 C06 C07 C08 C09 C10 C11 C12 C13 C14 C15 C16 C17 C18 C19; do
  out=$(./check $p --tier $TIER 2>&1); rc=$?
  echo "$out" | grep -E "^(VIOLATION|CHECKER-ERROR|NOTE)" | cut -c1-300
  echo "$out" | tail -1 | sed "s/$/ exit=$rc/"
done
.venv/bin/python - <<'PY'
import json, glob, jsonschema
sch=json.load(open('/root/.vp/EVIDENCE.schema.json'))
bad=0
for f in sorted(glob.glob('evidence/*.json')):
    try: jsonschema.validate(json.load(open(f)), sch)
    except Exception as e: bad+=1; print('INVALID', f, str(e)[:200])
print('evidence files:', len(glob.glob('evidence/*.json')), 'invalid:', bad)
PY
