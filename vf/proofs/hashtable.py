"""C11 / C12: HashTable / Counter plumbing around the bucket structure.

Verified here (for all inputs): the hash is a bucket index for every key sign; the scalar-valued table
refuses absent keys exactly when the bucket lookup does and answers with the shared value; assignment
materialises, locates, then writes (in this order, with the caller's keys and values); `contains` marks exactly the
query positions for which the bucket comparison found a hit.  The bucket lookup chain itself
(_keys[hashes] == keys[:, None]).nonzero() is composed of C02 / C04 / C08 operations and is covered by the bounded
stand-in (every key set / modulus / history inside the stated bounds against a Python dict)."""
import numpy as np
import z3

from .base import Family, register
from ..sym.core import SInt, cur, fresh_name
from ..sym.arr import SymArr, I, dim_term


def contract_bucket_invariant(KD, S, L, m, HASH, size, brow):
    """the bucket invariant of a HashTable over m buckets with geometry (S, L) and flat key array KD: every cell a lies in bucket brow(a), which is
    the hash of the key stored in it.  Established by HashTable.__init__ (contract.bucket-invariant), assumed by _get_indices."""
    return lambda a: z3.Implies(z3.And(0 <= a, a < size), z3.And(0 <= brow(a), brow(a) < m, S(brow(a)) <= a, a < S(brow(a)) + L(brow(a)), brow(a) == HASH(KD(a))))


def contract_table_cells(K, V, N, KD, VD, perm, inv):
    """HashTable.__init__: the N cells hold the input keys and their values in a permuted order: cell a holds key K(perm(a)) and value V(perm(a)),
    perm a bijection of the input positions (ghost inverse inv)."""
    A = lambda a: z3.Implies(z3.And(0 <= a, a < N), z3.And(KD(a) == K(perm(a)), VD(a) == V(perm(a)), 0 <= perm(a), perm(a) < N, inv(perm(a)) == a))
    B = lambda j: z3.Implies(z3.And(0 <= j, j < N), z3.And(0 <= inv(j), inv(j) < N, perm(inv(j)) == j))
    return [("table.cells", A, 1), ("table.every-input-position-has-a-cell", B, 1)]


def contract_table_geometry(S, L, m, N):
    """HashTable.__init__: the m buckets lie inside the key array of N cells"""
    return lambda h: z3.Implies(z3.And(0 <= h, h < m), z3.And(0 <= S(h), L(h) >= 0, S(h) + L(h) <= N))


def contract_get_indices(Q, q, H, O, KD, S, L, HASH):
    """_get_indices(keys) when it returns: bucket H(i) = hash of the i-th queried key and offset O(i) locate that key's cell"""
    return lambda i: z3.Implies(z3.And(0 <= i, i < q), z3.And(H(i) == HASH(Q(i)), 0 <= O(i), O(i) < L(H(i)), KD(S(H(i)) + O(i)) == Q(i)))


def bare_table(cls=None):
    from npstructures.hashtable import HashTable
    cls = cls or HashTable
    t = cls.__new__(cls)
    t._safe_mode = True
    t._value_dtype = np.dtype(np.int64)
    t._key_dtype = np.dtype(np.int64)
    return t


@register
class GetHash(Family):
    name = "HashTable._get_hash"
    qualname = "npstructures.hashtable:HashTable._get_hash"
    serves = ["C11", "C12"]
    assumed = ["numpy % on integers has the sign of the divisor (floor modulo), audited"]

    def kinds(self):
        return ["scalar", "array"]

    def run(self, ctx, kind):
        t = bare_table()
        m = z3.Int("mod")
        ctx.assume(m >= 1)
        t._mod = SInt(m)
        if kind == "scalar":
            k = z3.Int("key")
            h = t._get_hash(SInt(k))
            ctx.prove("post.0 <= hash < mod for every key sign", z3.And(0 <= h.t, h.t < m))
            ctx.prove("post.hash == key (mod m)", (k - h.t) % m == 0)
        else:
            q = z3.Int("q")
            ctx.assume(q >= 0)
            keys = SymArr.symbolic("keys", q, "int", assume_len=False)
            h = t._get_hash(keys)
            i = z3.Int("i")
            ctx.skolem(z3.And(0 <= i, i < q))
            ctx.prove("post.len", dim_term(h.shape_[0]) == q)
            ctx.prove("post.0 <= hash[i] < mod", z3.And(0 <= h.get(i), h.get(i) < m))
            ctx.prove("post.hash[i] == keys[i] (mod m)", (keys.fn(i) - h.get(i)) % m == 0)


@register
class ScalarTableLookup(Family):
    name = "HashTable.__getitem__[scalar-valued]"
    qualname = "npstructures.hashtable:HashTable.__getitem__"
    serves = ["C11"]
    assumed = ["callee contract HashTable._get_indices: raises IndexError iff some queried key is absent (proved: HashTable._get_indices)"]

    def kinds(self):
        return ["vector-present", "vector-absent", "single", "array-valued"]

    def run(self, ctx, kind):
        from npstructures.hashtable import HashTable
        t = bare_table()
        q = z3.Int("q")
        ctx.assume(q >= 0)
        keys = SymArr.symbolic("keys", q, "int", assume_len=False)
        v = z3.Int("v")
        calls = []

        def get_indices(self_, k):
            calls.append(k)
            if kind == "vector-absent":
                raise IndexError("missing")
            return ("HASHES", "OFFSETS")
        old = HashTable.__dict__["_get_indices"]
        HashTable._get_indices = get_indices
        try:
            if kind == "array-valued":
                class Vals:
                    def __getitem__(s, idx):
                        return ("VALUES-AT", idx)
                t._values = Vals()
                out = t[keys]
                ctx.prove("post.values looked up at the located (bucket, offset) pairs",
                          z3.BoolVal(out == ("VALUES-AT", ("HASHES", "OFFSETS")) and calls == [keys]))
                return
            t._values = SInt(v)
            if kind == "single":
                out = t[SInt(z3.Int("k"))]
                ctx.prove("post.single key: the shared value", out.t == v)
                return
            try:
                out = t[keys]
            except IndexError:
                ctx.prove("post.absent key refused (lookup consulted with the caller's keys)", z3.BoolVal(kind == "vector-absent" and calls == [keys]))
                return
        finally:
            HashTable._get_indices = old
        ctx.prove("post.present keys answered", z3.BoolVal(kind == "vector-present" and calls == [keys]))
        i = z3.Int("i")
        ctx.skolem(z3.And(0 <= i, i < q))
        ctx.prove("post.one value per queried key, in query order", z3.And(dim_term(out.shape_[0]) == q, out.get(i) == v))


@register
class SetItemOrder(Family):
    name = "HashTable.__setitem__"
    qualname = "npstructures.hashtable:HashTable.__setitem__"
    serves = ["C11"]
    assumed = ["callee contracts _fill_values (Map preserved), _get_indices, RaggedArray assignment (C03)"]

    def run(self, ctx, kind):
        from npstructures.hashtable import HashTable
        t = bare_table()
        log = []

        class Vals:
            def __setitem__(s, idx, val):
                log.append(("assign", idx, val))
        t._values = Vals()
        old1, old2 = HashTable.__dict__["_fill_values"], HashTable.__dict__["_get_indices"]
        HashTable._fill_values = lambda self_: log.append(("fill",))
        HashTable._get_indices = lambda self_, k: log.append(("locate", k)) or ("H", "O")
        try:
            t["KEYS"] = "VALUES"
        finally:
            HashTable._fill_values, HashTable._get_indices = old1, old2
        ctx.prove("post.materialise, then locate the caller's keys, then write the caller's values there",
                  z3.BoolVal(log == [("fill",), ("locate", "KEYS"), ("assign", ("H", "O"), "VALUES")]))


@register
class Contains(Family):
    """contains(keys)[i]  <=>  the bucket comparison produced a hit in query row i"""
    name = "HashTable.contains"
    qualname = "npstructures.hashtable:HashTable.contains"
    serves = ["C11"]
    assumed = ["callee contracts: _keys[hashes] (C02), == with a column (C04), nonzero (C08): rows = query positions with a hit",
               "numpy fancy assignment (witness form)"]

    def run(self, ctx, kind):
        t = bare_table()
        m = z3.Int("mod")
        ctx.assume(m >= 1)
        t._mod = SInt(m)
        q, k = z3.Int("q"), z3.Int("k")
        ctx.assume(z3.And(q >= 0, k >= 0))
        keys = SymArr.symbolic("keys", q, "int", assume_len=False)
        rows = SymArr.symbolic("rows", k, "int", assume_len=False)
        ctx.assume_forall("rows are query positions", lambda u: z3.Implies(z3.And(0 <= u, u < k), z3.And(0 <= rows.fn(u), rows.fn(u) < q)))
        log = []

        class Cmp:
            def nonzero(s):
                return rows, "OFFSETS"

        class Possible:
            def __eq__(s, other):
                log.append(("eq", other))
                return Cmp()

        class Keys:
            def __getitem__(s, h):
                log.append(("buckets", h))
                return Possible()
        t._keys = Keys()
        out = t.contains(keys)
        ctx.prove("post.buckets selected by the hash of the query, compared with the query as a column",
                  z3.BoolVal(len(log) == 2 and log[0][0] == "buckets" and log[1][0] == "eq" and log[1][1].ndim == 2))
        h = log[0][1]
        i = z3.Int("i")
        ctx.skolem(z3.And(0 <= i, i < q))
        ctx.prove("post.bucket index is the hash of the key", z3.And(0 <= h.get(i), h.get(i) < m, (keys.fn(i) - h.get(i)) % m == 0))
        ctx.prove("post.compared with the caller's key i", log[1][1].get(i, 0) == keys.fn(i))
        sc = ctx.ghost["scatters"][-1]
        ctx.add_index(sc["wit"](i))
        u = z3.Int("u")
        ctx.prove("post.true only where a hit was found", z3.Implies(out.get(i), z3.And(0 <= sc["wit"](i), sc["wit"](i) < k, rows.fn(sc["wit"](i)) == i)))
        ctx.skolem(z3.And(0 <= u, u < k))
        ctx.add_index(u, rows.fn(u), sc["wit"](rows.fn(u)))
        ctx.prove("post.true wherever a hit was found", out.get(rows.fn(u)))


@register
class CounterCount(Family):
    """Counter.count: which samples are looked up, and the state update  values'[p] = values[p] + #{hits at flat position p}
    in each of the four value states (no hit / shared 0 / shared non-zero scalar / per-key array).  The bucket comparison
    (self._keys[view] == keys[:, None]).nonzero() is replaced by its contract (rows, offsets of the hits)."""
    name = "Counter.count"
    qualname = "npstructures.hashtable:Counter.count"
    serves = ["C12"]
    assumed = ["callee contracts: RaggedShape.view / RaggedView.__getitem__ (C02), _keys[view] == column, nonzero (C04, C08): (rows, offsets) of the hits",
               "numpy.bincount contract", "ViewBase.ravel_multi_index (proved in vf.proofs.geometry)"]

    def kinds(self):
        return ["no-hit", "zero-scalar", "nonzero-scalar", "array"]

    def run(self, ctx, kind):
        from npstructures.hashtable import Counter
        from npstructures import RaggedArray
        from .ragged import sym_shape
        t = bare_table(Counter)
        m = z3.Int("mod")
        ctx.assume(m >= 1)
        t._mod = SInt(m)
        kshape = sym_shape(ctx, "keys")                       # the bucketed key array's geometry (m rows)
        size = kshape.S(kshape.n)
        q = z3.Int("q")
        ctx.assume(q >= 0)
        samples = SymArr.symbolic("samples", q, "int", assume_len=False)
        h = z3.Int("h")
        ctx.assume(h >= (0 if kind == "no-hit" else 1))
        if kind == "no-hit":
            ctx.assume(h == 0)
        rows = SymArr.symbolic("rows", h, "int", assume_len=False)
        offs = SymArr.symbolic("offs", h, "int", assume_len=False)
        flatpos = SymArr.symbolic("flatpos", h, "int", assume_len=False)
        ctx.assume_forall("hits address cells of the key array", lambda u: z3.Implies(z3.And(0 <= u, u < h), z3.And(0 <= flatpos.fn(u), flatpos.fn(u) < size)))
        log = []

        class View:
            def __init__(s, tag):
                s.tag = tag
                s.lengths = SymArr.symbolic("bucketlen", q, "int", assume_len=False) if tag == "all" else None

            def __getitem__(s, mask):
                log.append(("view[mask]", mask))
                return View("nonempty")

            def ravel_multi_index(s, rc):
                log.append(("ravel_multi_index", s.tag, rc))
                return flatpos

        class Cmp:
            def nonzero(s):
                return rows, offs

        class Possible:
            def __eq__(s, other):
                log.append(("eq", other))
                return Cmp()

        class KeyShape:
            def view(s, hashes):
                log.append(("shape.view", hashes))
                return View("all")

        size_v = SInt(size)

        class Keys:
            _shape = KeyShape()
            size = size_v

            def __getitem__(s, view):
                log.append(("keys[view]", view.tag, getattr(view, "empty_removed", None)))
                return Possible()
        t._keys = Keys()
        old_vals = None
        s0 = z3.Int("s0")
        if kind == "array":
            vd = SymArr.symbolic("vals", size, "int", np.int64, assume_len=False)
            old_vals = vd.snapshot()
            t._values = RaggedArray(vd, kshape.obj)
            from .reduce import telescoping
            telescoping(ctx, kshape, t._values._shape.lengths)
            ctx.add_index(kshape.n, kshape.n - 1)
        elif kind == "zero-scalar":
            t._values = 0
        elif kind == "nonzero-scalar":
            t._values = SInt(s0)
            ctx.assume(s0 != 0)
        else:
            t._values = SInt(s0)
        # the constructed RaggedArray needs the key array's shape object
        Keys._shape.n_rows = None
        import npstructures.hashtable as hmod
        made = []
        real_RA = hmod.RaggedArray

        def ra_stub(data, shape=None, dtype=None, safe_mode=True):
            made.append((data, shape, dtype))
            return ("NEW-VALUES", data)
        if kind in ("zero-scalar", "nonzero-scalar"):
            hmod.RaggedArray = ra_stub
        try:
            t.count(samples)
        finally:
            hmod.RaggedArray = real_RA
        ctx.prove("post.buckets of all samples are consulted, samples of empty buckets dropped, fast path only after that",
                  z3.BoolVal(log[0][0] == "shape.view" and log[1][0] == "view[mask]" and log[2] == ("keys[view]", "nonempty", True)))
        i = z3.Int("i")
        ctx.skolem(z3.And(0 <= i, i < q))
        ctx.prove("post.bucket of sample i is its hash", z3.And(0 <= log[0][1].get(i), log[0][1].get(i) < m, (samples.fn(i) - log[0][1].get(i)) % m == 0))
        if kind == "no-hit":
            ctx.prove("post.no hit: the state is untouched", z3.BoolVal(t._values.t.eq(s0) and len(log) == 4 and not made))
            return
        ctx.prove("post.hits are turned into flat positions of the key array", z3.BoolVal(log[-1][0] == "ravel_multi_index" and log[-1][2][0] is rows and log[-1][2][1] is offs))
        # the specification's own counting function (not the implementation's): hits(k, j) = #{u < j : flat position of hit u == k}
        hits = z3.Function(fresh_name("hits"), z3.IntSort(), z3.IntSort(), z3.IntSort())
        ctx.assume_forall("hits.base (definition)", lambda k_: hits(k_, 0) == 0)
        ctx.assume_forall("hits.step (definition)", lambda k_, j_: z3.Implies(z3.And(0 <= j_, j_ < h), hits(k_, j_ + 1) == hits(k_, j_) + z3.If(flatpos.fn(j_) == k_, 1, 0)), arity=2)
        p = z3.Int("p")
        ctx.skolem(z3.And(0 <= p, p < size))
        for bc in ctx.ghost.get("bincount", []):
            # bridge to the histogram the code happens to use (numpy.bincount's contract has its own counting recurrence): equal by induction on j
            bcnt, j = bc["cnt"], z3.Int("j")
            ctx.skolem(z3.And(0 <= j, j < h))
            ctx.prove("bridge.base: no hits counted before the first", bcnt(p, 0) == hits(p, 0), pool=[p, z3.IntVal(0)], live=[j])
            ctx.prove("bridge.step: one more hit", z3.Implies(z3.And(bc["m"] == h, bcnt(p, j) == hits(p, j)), bcnt(p, j + 1) == hits(p, j + 1)), pool=[p, j, j + 1])
            ctx.prove("bridge.the histogram is taken over all hits", bc["m"] == h, live=[j])
            ctx.assume_forall("bridge (by induction on j): the code's histogram counts the hits", lambda k_, j_, bcnt=bcnt: z3.Implies(
                z3.And(0 <= k_, k_ < size, 0 <= j_, j_ <= h), bcnt(k_, j_) == hits(k_, j_)), arity=2)
        cnt = hits
        if kind == "array":
            new = t._values.ravel()
            ctx.prove("post.values'[p] == values[p] + number of hits at p", new.get(p) == old_vals(p) + cnt(p, h))
            ctx.prove("post.same value array object and geometry", z3.BoolVal(t._values._shape is kshape.obj))
        else:
            data = made[0][0]
            base = 0 if kind == "zero-scalar" else s0
            ctx.prove("post.values'[p] == shared value + number of hits at p", data.get(p) == base + cnt(p, h))
            ctx.prove("post.one value per key cell", dim_term(data.shape_[0]) == size)
            ctx.prove("post.the new values get the key array's geometry", z3.BoolVal(made[0][1] is Keys._shape and t._values[0] == "NEW-VALUES"))

    def concrete(self, case):
        """the real Counter against collections.Counter: totals after every batch, for the key set / modulus / initial values / batches of the case"""
        import collections
        from npstructures import Counter
        keys = np.asarray(case["keys"])
        init = case.get("initial", 0)
        kw = {"mod": case["mod"]} if case.get("mod") else {}
        try:
            c = Counter(keys, np.asarray(init) if isinstance(init, list) else init, **kw)
            truth = collections.Counter()
            base = init if isinstance(init, list) else [init] * len(keys)
            for b in case["batches"]:
                c.count(np.asarray(b, dtype=keys.dtype))
                truth.update(b)
                got = np.asarray(c[keys]).tolist()
                exp = [int(i) + truth[int(k)] for i, k in zip(base, keys.tolist())]
                if got != exp:
                    return {"msg": f"Counter(keys={keys.tolist()}, initial={init}, {kw}) after batches {case['batches']}: {got}, expected {exp}", "sig": "wrong:counter-count"}
        except Exception as e:
            return {"msg": f"Counter(keys={keys.tolist()}, initial={init}, {kw}) with batches {case['batches']} raised {type(e).__name__}: {e}", "sig": f"raised:{type(e).__name__}:counter-count"}

    def concretise(self, kind, model, ghost):
        # the state of the kind; hits repeat inside one batch, few hits against many keys, non-keys in occupied and in empty buckets
        keys = [3 * i + 1 for i in range(12)]
        init = {"array": list(range(12)), "nonzero-scalar": 5}.get(kind, 0)
        return {"keys": keys, "initial": init, "mod": 17, "batches": [[4, 4, 4, 34], [7, 7, 2, 21, 7], []]}

    def bounded_cases(self, tier, seed):
        for nk in (1, 2, 5, 12, 40):
            keys = [3 * i + 1 for i in range(nk)]
            for mod in (None, 1, 7, 61):
                for init in (0, 5, list(range(nk))):
                    k0, k1 = keys[0], keys[-1]
                    for batches in ([[k0, k0, k0, k1]], [[k1], [k0, k0]], [[], [k1, k1, 2, 2, k1 + 7 * 61]], [[5], [k0, 5, k0], [k1, k1, k1, k1]],
                                    [keys + keys, [k0]], [[k0], keys, [k1, k1]]):
                        yield {"keys": keys, "initial": init, "mod": mod, "batches": batches}


@register
class GetIndices(Family):
    """HashTable._get_indices(keys): given the bucket invariant (distinct keys; bucket h holds the keys with hash h) the
    vector lookup is refused iff some queried key is absent, and otherwise offsets[i] is the position of keys[i] in its bucket.
    The chain (self._keys[hashes] == keys[:, None]).nonzero() is replaced by the contracts of its three callees
    (row selection C02, ufunc with a column C04, nonzero C08), stated over (row, column) coordinates:
      M(i, c) <=> bucket(hash_i)[c] == keys[i];  (rows, offsets) lists exactly the true cells of M in row-major order."""
    name = "HashTable._get_indices"
    qualname = "npstructures.hashtable:HashTable._get_indices"
    serves = ["C11"]
    timeout_ms = 30000
    assumed = ["callee contracts: RaggedArray[int array] (C02), == with a column vector (C04), RaggedArray.nonzero (C08)",
               "callee contract HashTable._get_hash: a function of the key with values in [0, mod) (proved in its own family)",
               "lemma strictly-increasing-selfmap (proved in vf.proofs.lemmas)"]

    def kinds(self):
        return ["vector"]

    def run(self, ctx, kind):
        from .ragged import sym_shape
        t = bare_table()
        m = z3.Int("mod")
        ctx.assume(m >= 1)
        t._mod = SInt(m)
        ks = sym_shape(ctx, "buckets")                       # geometry of the bucketed key array: m rows
        ctx.assume(ks.n == m)
        size = ks.S(ks.n)
        KD = z3.Function(fresh_name("key"), z3.IntSort(), z3.IntSort())           # flat key array
        brow = z3.Function(fresh_name("bucket_of_cell"), z3.IntSort(), z3.IntSort())
        # bucket invariant
        ctx.assume_forall("keys distinct", lambda a, b: z3.Implies(z3.And(0 <= a, a < b, b < size), KD(a) != KD(b)), arity=2)
        HASH = z3.Function(fresh_name("hash"), z3.IntSort(), z3.IntSort())       # contract of _get_hash (proved in its own family):
        ctx.assume_forall("hash range", lambda k_: z3.And(0 <= HASH(k_), HASH(k_) < m))   # a function of the key with values in [0, m)
        ctx.assume_forall("cell a lies in bucket row(a) = hash of its key", contract_bucket_invariant(KD, ks.S, ks.L, m, HASH, size, brow))
        q = z3.Int("q")
        ctx.assume(q >= 0)
        keys = SymArr.symbolic("query", q, "int", assume_len=False)
        Q = keys.fn
        # contract of the comparison matrix M and of its nonzero()
        cnt = z3.Int("cnt")
        ctx.assume(cnt >= 0)
        rows = SymArr.symbolic("rows", cnt, "int", assume_len=False)
        offs = SymArr.symbolic("offs", cnt, "int", assume_len=False)
        R, O = rows.fn, offs.fn
        log = []
        Hh = {}
        cellidx = z3.Function(fresh_name("idx_of_true_cell"), z3.IntSort(), z3.IntSort(), z3.IntSort())

        class Cmp:
            def nonzero(s):
                H = Hh["h"]
                M = lambda i, c: KD(ks.S(H(i)) + c) == Q(i)
                cx = cur()
                cx.assume_forall("nonzero: listed cells exist and are true", lambda u: z3.Implies(z3.And(0 <= u, u < cnt), z3.And(
                    0 <= R(u), R(u) < q, 0 <= O(u), O(u) < ks.L(H(R(u))), M(R(u), O(u)))))
                cx.assume_forall("nonzero: row-major order", lambda u: z3.Implies(z3.And(0 <= u, u + 1 < cnt), z3.Or(
                    R(u) < R(u + 1), z3.And(R(u) == R(u + 1), O(u) < O(u + 1)))))
                cx.assume_forall("nonzero: row-major order (rows never decrease along the listing)", lambda u, v_: z3.Implies(
                    z3.And(0 <= u, u <= v_, v_ < cnt), R(u) <= R(v_)), arity=2)
                cx.assume_forall("nonzero: every true cell is listed", lambda i, c: z3.Implies(
                    z3.And(0 <= i, i < q, 0 <= c, c < ks.L(H(i)), M(i, c)),
                    z3.And(0 <= cellidx(i, c), cellidx(i, c) < cnt, R(cellidx(i, c)) == i, O(cellidx(i, c)) == c)), arity=2)
                return rows, offs

        class Possible:
            def __eq__(s, other):
                log.append(("eq", other))
                return Cmp()

        class Keys:
            def __getitem__(s, h):
                log.append(("buckets", h))
                hs = h.snapshot()
                Hh["h"] = lambda i: hs(i)
                return Possible()

            def ravel(s):
                return "ALL-KEYS"
        t._keys = Keys()
        i = z3.Int("i")
        from npstructures.hashtable import HashTable
        old_hash = HashTable.__dict__["_get_hash"]

        def hash_stub(self_, k_):
            ksn = k_.snapshot()
            return SymArr.fresh(k_.shape_, lambda ii: HASH(ksn(ii)), "int", np.int64)
        HashTable._get_hash = hash_stub
        try:
            try:
                hashes, offsets = t._get_indices(keys)
            finally:
                HashTable._get_hash = old_hash
        except IndexError:
            H = Hh["h"]
            # refused: then some queried key is absent.  Proved by refutation: assume every key present (witness cell a_i) ...
            loc = z3.Function(fresh_name("cell_of_query"), z3.IntSort(), z3.IntSort())
            ctx.assume_forall("every queried key is in the table", lambda ii: z3.Implies(z3.And(0 <= ii, ii < q), z3.And(
                0 <= loc(ii), loc(ii) < size, KD(loc(ii)) == Q(ii))))
            # ... then row i of M has a true cell (in bucket hash_i, by the invariant), its index in the listing increases with i,
            # hence idx(i) >= i (lemma) and the listing has at least q entries: no refusal
            col = lambda ii: loc(ii) - ks.S(H(ii))
            idx = lambda ii: cellidx(ii, col(ii))
            ctx.skolem(z3.And(0 <= i, i < q))
            ctx.prove_then_assume("refusal.lemma1: the cell of key i lies in the bucket selected for it", z3.And(brow(loc(i)) == H(i), 0 <= col(i), col(i) < ks.L(H(i))),
                                  pool=[i, loc(i), brow(loc(i)), H(i)])
            ctx.assume_forall("lemma1 for all i", lambda ii: z3.Implies(z3.And(0 <= ii, ii < q), z3.And(brow(loc(ii)) == H(ii), 0 <= col(ii), col(ii) < ks.L(H(ii)))))
            ctx.prove_then_assume("refusal.lemma2: listing index of row i+1's cell is beyond that of row i", z3.Implies(i + 1 < q, idx(i) < idx(i + 1)),
                                  pool=[i, i + 1, idx(i), idx(i + 1), idx(i) + 1, col(i), col(i + 1)], kind="lemma")
            ctx.assume_forall("idx increasing => idx(i) >= i (lemma strictly-increasing-selfmap)", lambda ii: z3.Implies(z3.And(0 <= ii, ii < q), idx(ii) >= ii))
            ctx.prove("raises=>some queried key is absent", z3.BoolVal(False), pool=[q - 1, idx(q - 1), col(q - 1), z3.IntVal(0)])
            return
        H = Hh["h"]
        ctx.prove("post.hashes returned are the buckets consulted", z3.BoolVal(hashes is log[0][1] and offsets is offs))
        ctx.skolem(z3.And(0 <= i, i < q))
        ctx.prove("post.bucket of key i is its hash", H(i) == HASH(Q(i)))
        ctx.prove("post.compared with the query as a column", log[1][1].get(i, 0) == Q(i))
        # returned: cnt >= q.  At most one true cell per row (distinct keys) => rows strictly increasing => rows = identity
        u = z3.Int("u")
        ctx.skolem(z3.And(0 <= u, u + 1 < cnt))
        ctx.prove_then_assume("returns.lemma1: at most one hit per query row, so rows strictly increase", R(u) < R(u + 1),
                              pool=[u, u + 1, R(u), R(u + 1), ks.S(H(R(u))) + O(u), ks.S(H(R(u))) + O(u + 1), H(R(u))], kind="lemma")
        ctx.assume_forall("rows strictly increasing", lambda uu: z3.Implies(z3.And(0 <= uu, uu + 1 < cnt), R(uu) < R(uu + 1)))
        ctx.assume_forall("rows(u) >= u (lemma strictly-increasing-selfmap)", lambda uu: z3.Implies(z3.And(0 <= uu, uu < cnt), R(uu) >= uu))
        ctx.assume_forall("rows(u) <= q - cnt + u (same lemma, from the top)", lambda uu: z3.Implies(z3.And(0 <= uu, uu < cnt), R(uu) <= q - cnt + uu))
        ctx.prove("post.one hit per queried key, in query order", z3.And(cnt == q, R(i) == i), pool=[i, q - 1, z3.IntVal(0), cnt - 1])
        ctx.prove("post.offsets[i] is the position of keys[i] in its bucket", z3.And(0 <= O(i), O(i) < ks.L(H(i)), KD(ks.S(H(i)) + O(i)) == Q(i)),
                  pool=[i, q - 1, z3.IntVal(0), cnt - 1])
        ctx.prove("contract.get_indices", contract_get_indices(Q, q, H, O, KD, ks.S, ks.L, HASH)(i), pool=[i, q - 1, z3.IntVal(0), cnt - 1])


def _bucket_lemmas(ctx, st):
    """The counting argument behind HashTable.__init__ (five inductions, each a base and a step obligation):
    hs = sorted hashes (length N, values in [0, m)), CNT(v, i) = #{t < i : hs[t] == v} (np.unique's counts), lengths[h] scattered from
    the counts, PS = prefix sums of lengths (RaggedShape.__init__), LT(h, i) = #{t < i : hs[t] < h} (ghost spec function).
      D  CNT(h, i) > 0  =>  some t < i has hs[t] == h          (witness)          E  lengths[h] == CNT(h, N)
      A' LT(h+1, i) == LT(h, i) + CNT(h, i)                     Z  LT(0, i) == 0    A  PS(h) == LT(h, N)
      P  partition: LT(h, i) <= i, hs[LT(h,i)] >= h if LT(h,i) < i, hs[LT(h,i)-1] < h if LT(h,i) > 0   (hs sorted)
    Returns the ghost functions."""
    m, N = st["m"], st["N"]
    uq = ctx.ghost["uniques"][-1]
    CNT, uniq, K_, grp, hs = uq["CNT"], uq["uniq"], uq["K"], uq["grp"], uq["a"]
    pss = [p for p in ctx.ghost["prefix_sums"] if p["n"].eq(z3.simplify(m)) or True]
    ps, Ls = pss[-1]["ps"], pss[-1]["x"]
    sc = ctx.ghost["scatters"][-1]
    Z, One = z3.IntVal(0), z3.IntVal(1)
    LT = z3.Function(fresh_name("LT"), z3.IntSort(), z3.IntSort(), z3.IntSort())
    ctx.assume_forall("LT.base (spec)", lambda h_: LT(h_, 0) == 0)
    ctx.assume_forall("LT.step (spec)", lambda h_, i_: z3.Implies(z3.And(0 <= i_, i_ < N), LT(h_, i_ + 1) == LT(h_, i_) + z3.If(hs(i_) < h_, 1, 0)), arity=2)
    h, i = z3.Int("h"), z3.Int("i")
    rng_i = z3.And(0 <= i, i < N)
    ctx.prove_then_assume("lemma0: the sorted hashes are bucket numbers", z3.Implies(rng_i, z3.And(0 <= hs(i), hs(i) < m)), pool=[i], kind="lemma")
    ctx.assume_forall("lemma0 for all i", lambda i_: z3.Implies(z3.And(0 <= i_, i_ < N), z3.And(0 <= hs(i_), hs(i_) < m)))
    # D
    wt = z3.Function(fresh_name("occ"), z3.IntSort(), z3.IntSort(), z3.IntSort())
    Dp = lambda h_, i_, w_: z3.Implies(CNT(h_, i_) > 0, z3.And(0 <= w_, w_ < i_, hs(w_) == h_))
    ctx.prove("lemmaD.base", Dp(h, Z, Z), pool=[h, Z], kind="lemma")
    ctx.prove("lemmaD.step", z3.Implies(z3.And(rng_i, Dp(h, i, wt(h, i))), Dp(h, i + 1, z3.If(hs(i) == h, i, wt(h, i)))), pool=[h, i, i + 1, wt(h, i)], kind="lemma")
    ctx.assume_forall("lemmaD (by induction on i)", lambda h_, i_: z3.Implies(z3.And(0 <= i_, i_ <= N), Dp(h_, i_, wt(h_, i_))), arity=2)
    # E
    w0 = wt(h, N)
    ctx.prove("lemmaE: lengths[h] == CNT(h, N)", z3.Implies(z3.And(0 <= h, h < m), Ls(h) == CNT(h, N)),
              pool=[h, N, w0, grp(w0), sc["wit"](h), uniq(sc["wit"](h)), K_, uq["first"](sc["wit"](h)), uq["first"](grp(w0))], kind="lemma")
    ctx.assume_forall("lemmaE for all h", lambda h_: z3.Implies(z3.And(0 <= h_, h_ < m), Ls(h_) == CNT(h_, N)))
    # A'
    ctx.prove("lemmaA'.base", LT(h + 1, Z) == LT(h, Z) + CNT(h, Z), pool=[h, h + 1, Z], kind="lemma")
    ctx.prove("lemmaA'.step", z3.Implies(z3.And(rng_i, LT(h + 1, i) == LT(h, i) + CNT(h, i)), LT(h + 1, i + 1) == LT(h, i + 1) + CNT(h, i + 1)),
              pool=[h, h + 1, i, i + 1], kind="lemma")
    ctx.assume_forall("lemmaA' (by induction on i)", lambda h_, i_: z3.Implies(z3.And(0 <= i_, i_ <= N), LT(h_ + 1, i_) == LT(h_, i_) + CNT(h_, i_)), arity=2)
    # Z
    ctx.prove("lemmaZ.base", LT(Z, Z) == 0, pool=[Z], kind="lemma")
    ctx.prove("lemmaZ.step", z3.Implies(z3.And(rng_i, LT(Z, i) == 0), LT(Z, i + 1) == 0), pool=[Z, i, i + 1], kind="lemma")
    ctx.assume_forall("lemmaZ (by induction on i)", lambda i_: z3.Implies(z3.And(0 <= i_, i_ <= N), LT(Z, i_) == 0))
    # A
    ctx.prove("lemmaA.base: PS(0) == LT(0, N)", ps(0) == LT(Z, N), pool=[Z, N], kind="lemma")
    ctx.prove("lemmaA.step", z3.Implies(z3.And(0 <= h, h < m, ps(h) == LT(h, N)), ps(h + 1) == LT(h + 1, N)), pool=[h, h + 1, N], kind="lemma")
    ctx.assume_forall("lemmaA (by induction on h): the start of bucket h is the number of smaller hashes", lambda h_: z3.Implies(z3.And(0 <= h_, h_ <= m), ps(h_) == LT(h_, N)))
    # P
    Pp = lambda h_, i_: z3.And(0 <= LT(h_, i_), LT(h_, i_) <= i_, z3.Implies(LT(h_, i_) < i_, hs(LT(h_, i_)) >= h_), z3.Implies(LT(h_, i_) > 0, hs(LT(h_, i_) - 1) < h_))
    ctx.prove("lemmaP.base", Pp(h, Z), pool=[h, Z], kind="lemma")
    ctx.prove("lemmaP.step (uses sortedness)", z3.Implies(z3.And(rng_i, Pp(h, i)), Pp(h, i + 1)), pool=[h, i, i + 1, LT(h, i), LT(h, i) - 1, LT(h, i) + 1], kind="lemma")
    ctx.assume_forall("lemmaP (by induction on i)", lambda h_, i_: z3.Implies(z3.And(0 <= i_, i_ <= N), Pp(h_, i_)), arity=2)
    return {"LT": LT, "ps": ps, "Ls": Ls, "hs": hs, "CNT": CNT}


@register
class TableInit(Family):
    """HashTable.__init__(keys, values, mod): establishes the bucket invariant that every lookup relies on -
    m = mod buckets; every cell a of the bucketed key array holds keys[args[a]] for a permutation args of the input positions, lies in bucket
    hash(its key), and the value array has the same geometry with values[args[a]] at the same cell; nothing is lost or duplicated (args is a
    permutation); the constructor's own size check cannot fail.  The hash is the abstract function of HashTable._get_hash's contract."""
    name = "HashTable.__init__"
    qualname = "npstructures.hashtable:HashTable.__init__"
    serves = ["C11", "C12"]
    timeout_ms = 30000
    assumed = ["callee contract HashTable._get_hash: a function of the key with values in [0, mod) (proved in its own family)",
               "numpy.argsort: a sorting permutation (witness form, audited)", "numpy.unique(return_counts=True): counting function (audited)",
               "numpy fancy assignment (witness form)", "numpy.cumsum = prefix sums (RaggedShape.__init__, proved in its own family, executed here)"]

    def extra_functions(self):
        return ["HashTable._build_ragged_array", "RaggedArray.__init__", "RaggedShape.__init__"]

    def _setup(self, ctx):
        from npstructures.hashtable import HashTable
        m, N = z3.Int("mod"), z3.Int("N")
        ctx.assume(z3.And(m >= 1, N >= 1))
        keys = SymArr.symbolic("keys", N, "int", np.int64, assume_len=False)
        vals = SymArr.symbolic("vals", N, "elem", np.int64, assume_len=False)
        HASH = z3.Function(fresh_name("hash"), z3.IntSort(), z3.IntSort())
        ctx.assume_forall("hash range", lambda k_: z3.And(0 <= HASH(k_), HASH(k_) < m))
        st = {"m": m, "N": N, "keys": keys, "vals": vals, "HASH": HASH}
        ctx.ghost["st"] = st
        ctx.add_index(z3.IntVal(0), m, N, m - 1, N - 1)
        return st

    def late_lemmas(self, ctx, kind, exc):
        st = ctx.ghost["st"]
        if ctx.ghost.get("uniques") and ctx.ghost.get("prefix_sums") and ctx.ghost.get("scatters") and not isinstance(exc, IndexError):
            g = _bucket_lemmas(ctx, st)
            m, N = st["m"], st["N"]
            LT, hs = g["LT"], g["hs"]
            # all hashes are < m, so LT(m, N) == N: the bucket lengths add up to the number of keys
            ctx.prove_then_assume("late.lemma: the bucket lengths add up to the number of keys", g["ps"](m) == N,
                                  pool=[m, N, LT(m, N), LT(m, N) - 1, LT(m, N) + 1, z3.IntVal(0)], kind="lemma")

    def run(self, ctx, kind):
        from npstructures.hashtable import HashTable
        st = self._setup(ctx)
        m, N, keys, vals, HASH = st["m"], st["N"], st["keys"], st["vals"], st["HASH"]
        Kf, Vf = keys.fn, vals.fn
        old_hash = HashTable.__dict__["_get_hash"]

        def hash_stub(self_, k_):
            ksn = k_.snapshot()
            return SymArr.fresh(k_.shape_, lambda ii: HASH(ksn(ii)), "int", np.int64)
        HashTable._get_hash = hash_stub
        try:
            t = HashTable(keys, vals, mod=SInt(m))
        finally:
            HashTable._get_hash = old_hash
        g = _bucket_lemmas(ctx, st)
        LT, ps, hs = g["LT"], g["ps"], g["hs"]
        ag = ctx.ghost["argsorts"][-1]
        perm, inv = ag["perm"], ag["inv"]
        sh = t._keys._shape
        KD = t._keys.ravel()
        VD = t._values.ravel()
        ctx.prove("post.mod buckets", I(sh.n_rows) == m)
        ctx.prove("post.keys and values share one geometry object", z3.BoolVal(t._values._shape is t._keys._shape))
        ctx.prove("post.as many cells as keys", z3.And(dim_term(KD.shape_[0]) == N, dim_term(VD.shape_[0]) == N, ps(m) == N),
                  pool=[m, N, LT(m, N), LT(m, N) - 1, LT(m, N) + 1, z3.IntVal(0)])
        a = z3.Int("a")
        ctx.skolem(z3.And(0 <= a, a < N))
        b = hs(a)
        ctx.prove("post.cell a holds input key args[a] and its value, args a permutation of the input positions",
                  z3.And(KD.get(a) == Kf(perm(a)), VD.get(a) == Vf(perm(a)), 0 <= perm(a), perm(a) < N, inv(perm(a)) == a), pool=[a, perm(a)])
        ctx.prove("post.every input key is in exactly one cell", z3.And(0 <= inv(a), inv(a) < N, perm(inv(a)) == a, KD.get(inv(a)) == Kf(a)), pool=[a, inv(a)])
        ctx.prove_then_assume("post.lemma: the sorted hash at cell a is the hash of the key stored there", b == HASH(KD.get(a)), pool=[a, perm(a)])
        pool = [a, a + 1, b, b + 1, N, m, LT(b, N), LT(b, N) - 1, LT(b + 1, N), LT(b + 1, N) - 1]
        ctx.prove_then_assume("post.bucket invariant: cell a lies in bucket hash(key at a):  starts[b] <= a < starts[b] + lengths[b]",
                  z3.And(0 <= b, b < m, sh.starts.get(b) <= a, a < sh.starts.get(b) + sh.lengths.get(b)), pool=pool,
                  without=["lemmaD", "lemmaE", "lemmaA'", "lemmaZ", "unique.", "scatter", "LT.base"])
        # the contracts as the lookup lemma and _get_indices use them (same formulas)
        ctx.prove("contract.bucket-invariant", contract_bucket_invariant(KD.get, sh.starts.get, sh.lengths.get, m, HASH, N, hs)(a), pool=[a],
                  without=["lemma", "LT.", "unique.", "argsort", "PS.step", "scatter"])
        cells = contract_table_cells(Kf, Vf, N, KD.get, VD.get, perm, inv)
        ctx.prove("contract." + cells[0][0], cells[0][1](a), pool=[a, perm(a)])
        ctx.prove("contract." + cells[1][0], cells[1][1](a), pool=[a, inv(a)])
        hb = z3.Int("hb")
        ctx.skolem(z3.And(0 <= hb, hb < m))
        ctx.prove_then_assume("lemma: bucket lengths are counts (non-negative)", g["Ls"](hb) >= 0, pool=[hb, N])
        # prefix sums of non-negative lengths are monotone (lemma PS-monotone, vf.proofs.lemmas)
        ctx.assume_forall("PS-monotone (lemma library; lengths are non-negative by the lemma above)", lambda x_, y_: z3.Implies(z3.And(0 <= x_, x_ <= y_, y_ <= m), ps(x_) <= ps(y_)), arity=2)
        ctx.prove("contract.table-geometry", contract_table_geometry(sh.starts.get, sh.lengths.get, m, N)(hb), pool=[hb, hb + 1, m, z3.IntVal(0), N, LT(m, N), LT(m, N) - 1, LT(m, N) + 1])
        ctx.prove("post.inputs not modified", z3.BoolVal(keys.buf.writes == 0 and vals.buf.writes == 0))

    def concrete(self, case):
        from npstructures import HashTable
        ks, mod = case["keys"], case["mod"]
        t = HashTable(np.array(ks), np.array([10 * k for k in ks]), mod=mod)
        rows = t._keys.tolist()
        vrows = t._values.tolist()
        ok = len(rows) == mod and sorted(x for r in rows for x in r) == sorted(ks) and all(k % mod == h for h, r in enumerate(rows) for k in r) and \
            all(v == 10 * k for r, vr in zip(rows, vrows) for k, v in zip(r, vr))
        if not ok:
            return {"msg": f"HashTable({ks}, 10*keys, mod={mod}): buckets {rows}, values {vrows}", "sig": "wrong:table-init"}

    def concretise(self, kind, model, ghost):
        return {"keys": [7, 2, 12, 5], "mod": 5}

    def bounded_cases(self, tier, seed):
        import itertools
        for n in range(1, 5):
            for ks in itertools.permutations([0, 3, 4, 7, 9, -2], n):
                for mod in (1, 2, 3, 5):
                    yield {"keys": list(ks), "mod": mod}


@register
class TableLookupLemma(Family):
    """C11's core as a lemma over the proved contracts (hypotheses: the shared contract formulas of HashTable.__init__ and _get_indices, and the
    element gather values[h, o] = flat[starts[h] + o]): for a table built from distinct keys K[0..N) with values V, whenever _get_indices returns for a
    query, the value fetched for the i-th queried key is V[j] for THE input position j with K[j] == query[i] - the dictionary {K[j]: V[j]}."""
    name = "lemma: HashTable lookup returns the value stored with the key"
    qualname = "npstructures.hashtable:HashTable.__getitem__"
    serves = ["C11", "C12"]
    assumed = ["callee contracts HashTable.__init__ (contract.bucket-invariant, contract.table.*) and _get_indices (contract.get_indices), proved in their families",
               "RaggedArray element gather values[hashes, offsets] = flat values[starts[hash] + offset] (proved: IndexableArray._get_element)"]

    def run(self, ctx, kind):
        from ..sym.arr import ElemSort
        II = (z3.IntSort(), z3.IntSort())
        fn = lambda nm, *srt: z3.Function(nm, *srt)
        K, V = fn("K", *II), fn("V", z3.IntSort(), ElemSort)
        KD, VD = fn("KD", *II), fn("VD", z3.IntSort(), ElemSort)
        S, L, perm, inv, HASH, brow = fn("S", *II), fn("L", *II), fn("perm", *II), fn("inv", *II), fn("HASH", *II), fn("brow", *II)
        Q, H, O = fn("Q", *II), fn("H", *II), fn("O", *II)
        N, m, q = z3.Int("N"), z3.Int("m"), z3.Int("q")
        ctx.assume(z3.And(N >= 1, m >= 1, q >= 0))
        ctx.assume_forall("input keys are distinct", lambda a_, b_: z3.Implies(z3.And(0 <= a_, a_ < b_, b_ < N), K(a_) != K(b_)), arity=2)
        ctx.assume_forall("bucket invariant", contract_bucket_invariant(KD, S, L, m, HASH, N, brow))
        for nm, f, ar in contract_table_cells(K, V, N, KD, VD, perm, inv):
            ctx.assume_forall(nm, f, arity=ar)
        ctx.assume_forall("get_indices", contract_get_indices(Q, q, H, O, KD, S, L, HASH))
        i, j = z3.Int("i"), z3.Int("j")
        ctx.skolem(z3.And(0 <= i, i < q, 0 <= j, j < N, K(j) == Q(i)))
        c = S(H(i)) + O(i)
        # the cell lies inside the key array: the buckets partition [0, N) (S(h) + L(h) <= N for every bucket is part of the table's geometry)
        ctx.assume_forall("buckets lie inside the key array", contract_table_geometry(S, L, m, N))
        ctx.assume_forall("hash range (contract of _get_hash)", lambda k_: z3.And(0 <= HASH(k_), HASH(k_) < m))
        ctx.prove_then_assume("lemma: the located cell exists and holds the queried key", z3.And(0 <= c, c < N, KD(c) == Q(i)), pool=[i, H(i), Q(i)], live=[j])
        ctx.prove_then_assume("lemma: it is the cell of input position j (keys are distinct)", perm(c) == j, pool=[c, perm(c), j, i])
        ctx.prove("post.values[hashes[i], offsets[i]] == V[j]: the value stored with the key", VD(c) == V(j), pool=[c, i, j])
        # cells of distinct keys differ, so the table has one cell per key: KD injective
        a_, b_ = z3.Int("ca"), z3.Int("cb")
        ctx.skolem(z3.And(0 <= a_, a_ < b_, b_ < N))
        ctx.prove("post.the cells hold distinct keys", KD(a_) != KD(b_), pool=[a_, b_, perm(a_), perm(b_)], live=[i, j])


@register
class TableAssignLemma(Family):
    """C11's assignment clause as a lemma over the proved contracts: after `table[A] = W` (A a vector of keys, repeats allowed) the value cell of an input
    key K[j] holds W[i] for the LAST i with A[i] == K[j], and is unchanged if no assigned key equals K[j] ("changes those keys only"); the key cells are
    not written.  Hypotheses: the shared contract formulas of HashTable.__init__ and _get_indices and the element scatter values[h, o] = w (numpy's
    fancy assignment in witness form: every listed cell is written, the last writer wins, no other cell changes)."""
    name = "lemma: HashTable assignment changes the assigned keys only"
    qualname = "npstructures.hashtable:HashTable.__setitem__"
    serves = ["C11"]
    assumed = ["callee contracts HashTable.__init__ (contract.bucket-invariant, contract.table.*) and _get_indices (contract.get_indices), proved in their families",
               "RaggedArray element scatter values[hashes, offsets] = w writes the flat cells starts[hash] + offset, last writer wins, nothing else (C03 families; "
               "numpy fancy assignment in witness form)", "HashTable.__setitem__ = fill, locate, write (proved: HashTable.__setitem__)"]

    def kinds(self):
        return ["assigned", "untouched"]

    def run(self, ctx, kind):
        from ..sym.arr import ElemSort
        II = (z3.IntSort(), z3.IntSort())
        fn = lambda nm, *srt: z3.Function(nm, *srt)
        K, V = fn("K", *II), fn("V", z3.IntSort(), ElemSort)
        KD, VD0, VD1 = fn("KD", *II), fn("VD0", z3.IntSort(), ElemSort), fn("VD1", z3.IntSort(), ElemSort)
        S, L, perm, inv, HASH, brow = fn("S", *II), fn("L", *II), fn("perm", *II), fn("inv", *II), fn("HASH", *II), fn("brow", *II)
        A, H, O, wit = fn("A", *II), fn("H", *II), fn("O", *II), fn("wit", *II)
        W = fn("W", z3.IntSort(), ElemSort)
        N, m, a = z3.Int("N"), z3.Int("m"), z3.Int("a")
        ctx.assume(z3.And(N >= 1, m >= 1, a >= 0))
        ctx.assume_forall("input keys are distinct", lambda a_, b_: z3.Implies(z3.And(0 <= a_, a_ < b_, b_ < N), K(a_) != K(b_)), arity=2)
        ctx.assume_forall("bucket invariant", contract_bucket_invariant(KD, S, L, m, HASH, N, brow))
        for nm, f, ar in contract_table_cells(K, V, N, KD, VD0, perm, inv):
            ctx.assume_forall(nm, f, arity=ar)
        ctx.assume_forall("get_indices", contract_get_indices(A, a, H, O, KD, S, L, HASH))
        ctx.assume_forall("buckets lie inside the key array", contract_table_geometry(S, L, m, N))
        ctx.assume_forall("hash range (contract of _get_hash)", lambda k_: z3.And(0 <= HASH(k_), HASH(k_) < m))
        cell = lambda i_: S(H(i_)) + O(i_)
        hit = lambda c_: z3.And(0 <= wit(c_), wit(c_) < a, cell(wit(c_)) == c_)
        ctx.assume_forall("scatter: every listed cell is written, the witness is the last writer", lambda i_: z3.Implies(z3.And(0 <= i_, i_ < a),
                          z3.And(hit(cell(i_)), wit(cell(i_)) >= i_)))
        ctx.assume_forall("scatter: a written cell gets its last writer's value, every other cell keeps its value", lambda c_: z3.Implies(z3.And(0 <= c_, c_ < N),
                          VD1(c_) == z3.If(hit(c_), W(wit(c_)), VD0(c_))))
        j = z3.Int("j")
        cj = inv(j)
        w = wit(cj)
        if kind == "untouched":
            ctx.skolem(z3.And(0 <= j, j < N))
            ctx.assume_forall("no assigned key equals K[j]", lambda i_: z3.Implies(z3.And(0 <= i_, i_ < a), A(i_) != K(j)))
            ctx.prove_then_assume("lemma: a writer of K[j]'s cell would have located K[j]", z3.Implies(hit(cj), A(w) == K(j)), pool=[j, cj, w, H(w), A(w)])
            ctx.prove("post.the value stored with an unassigned key is unchanged", VD1(cj) == VD0(cj), pool=[j, cj, w])
            return
        i = z3.Int("i")
        ctx.skolem(z3.And(0 <= j, j < N, 0 <= i, i < a, A(i) == K(j)))
        ctx.assume_forall("i is the last position assigning to K[j]", lambda i_: z3.Implies(z3.And(i < i_, i_ < a), A(i_) != K(j)))
        c = cell(i)
        ctx.prove_then_assume("lemma: the located cell exists and holds the assigned key", z3.And(0 <= c, c < N, KD(c) == A(i)), pool=[i, H(i), A(i)], live=[j])
        ctx.prove_then_assume("lemma: it is the cell of input position j (keys are distinct)", z3.And(perm(c) == j, c == cj), pool=[c, perm(c), j, i, cj])
        ctx.prove_then_assume("lemma: its last writer is i", w == i, pool=[i, j, cj, c, w, H(w), A(w)])
        ctx.prove("post.the value stored with an assigned key is the last value assigned to it", VD1(cj) == W(i), pool=[i, j, cj, c, w])
        # frame: the key cells are not an operand of the scatter (KD is the same function before and after), so the key set never changes
