"""C05: RaggedArray._reduce against the assumed contract of ufunc.reduceat.

Contract (from the property): for every row r,
   L(r) > 0  =>  result[r] = U(identity, fold_U(row r))        (numpy's reduce starts from the identity; for ufuncs
                                                                 without identity: result[r] = fold_U(row r))
   L(r) = 0  =>  result[r] = identity                           (only for ufuncs that have one)
and no exception, wherever the empty rows are.  fold_U(D, s, e) is the uninterpreted left fold of the assumed
reduceat / reduce contracts, so the statement holds for every ufunc at once.
"""
import numpy as np
import z3

from .base import Family, register, model_int
from .ragged import sym_ragged
from ..sym.core import SInt, cur
from ..sym.arr import SymArr, I, dim_term, ELEM_CONST, apply_binary
from ..sym.theory import prefix_sum, fold_fn


def telescoping(ctx, g, arr):
    """PS of the lengths view equals S (lemma proved by induction in RaggedArray.readers/size)"""
    ps = prefix_sum(arr)
    ctx.assume_forall("telescoping: PS_lengths == S", lambda q: z3.Implies(z3.And(0 <= q, q <= g.n), ps(q) == g.S(q)))
    return ps


@register
class Reduce(Family):
    name = "RaggedArray._reduce"
    qualname = "npstructures.raggedarray:RaggedArray._reduce"
    serves = ["C05", "C19"]
    assumed = ["ufunc.reduceat contract (DESIGN section 5)", "ufunc.reduce of an empty array = identity",
               "numpy.searchsorted on a sorted array", "numpy.pad(constant)",
               "identity law U(identity, identity) = identity",
               "associativity of ufuncs that have an identity: numpy.reduce(row) = U(identity, left fold of the row)"]

    def kinds(self):
        return ["add", "maximum", "logical_and", "add.keepdims"]

    def extra_functions(self):
        return ["RaggedBase.size", "RaggedBase.ravel", "RaggedArray.__len__"]

    def run(self, ctx, kind):
        uname = kind.split(".")[0]
        ufunc = getattr(np, uname)
        g = sym_ragged(ctx, kind="elem")
        ctx.ghost["g"] = g
        ra = g.ra
        telescoping(ctx, g, ra._shape.lengths)
        ctx.add_index(g.n - 1, g.n)
        if ufunc.identity is not None and not uname.startswith("logical"):
            e0 = ELEM_CONST(ufunc.identity)
            ctx.assume(apply_binary(uname, e0, e0) == e0)        # identity law U(id, id) = id (assumed, listed)
        res = ra._reduce(ufunc, ra, axis=-1, keepdims=kind.endswith("keepdims"))
        fold = fold_fn(uname, g.D)
        r = g.row()
        ctx.add_index(r + 1)
        if kind.endswith("keepdims"):
            ctx.prove("post.shape==(n,1)", z3.And(dim_term(res.shape_[0]) == g.n, z3.BoolVal(res.ndim == 2)))
            val = res.get(r, 0)
        else:
            ctx.prove("post.len==n", dim_term(res.shape_[0]) == g.n)
            val = res.get(r)
        from ..sym.arr import coerce_term
        kindt = "bool" if uname.startswith("logical") else "elem"
        val = coerce_term(val, kindt)
        f = fold(g.S(r), g.S(r) + g.L(r))
        if ufunc.identity is None:
            ctx.prove("post.nonempty row: result[r]==fold(row r)", z3.Implies(g.L(r) > 0, val == f))
        else:
            ident = ELEM_CONST(ufunc.identity) if kindt == "elem" else z3.BoolVal(bool(ufunc.identity))
            ctx.prove("post.nonempty row: result[r]==U(identity, fold(row r))",
                      z3.Implies(g.L(r) > 0, val == apply_binary(uname, ident, f)))
            ctx.prove("post.empty row: result[r]==identity",
                      z3.Implies(g.L(r) == 0, val == ident))

    def concretise(self, kind, model, ghost):
        g = ghost["g"]
        n = min(max(model_int(model, g.n), 0), 5)
        return {"lengths": [min(max(model_int(model, g.L(z3.IntVal(r))), 0), 4) for r in range(n)], "ufunc": kind.split(".")[0]}

    def concrete(self, case):
        from npstructures import RaggedArray
        ls = case["lengths"]
        tot = sum(ls)
        rows, v = [], 3
        for l in ls:
            rows.append([((v + i) * 7) % 11 - 3 for i in range(l)])
            v += l
        ra = RaggedArray(np.array([x for r in rows for x in r], dtype=np.int64), ls)
        uf = getattr(np, case["ufunc"])
        try:
            got = uf.reduce(ra, axis=-1)
        except Exception as e:
            if uf.identity is None and tot == 0:
                return None
            return {"msg": f"np.{case['ufunc']}.reduce on rows {rows} raised {type(e).__name__}: {e}", "sig": "raised:_reduce"}
        for r, row in enumerate(rows):
            if row or uf.identity is not None:
                exp = uf.reduce(np.array(row, dtype=np.int64))
                if got[r] != exp:
                    return {"msg": f"np.{case['ufunc']}.reduce on rows {rows}: row {r} gives {got[r]}, numpy {exp}", "sig": "wrong:_reduce"}

    def bounded_cases(self, tier, seed):
        from ..bounded.common import length_vectors
        for ls in length_vectors(4, 2):
            for u in ("add", "maximum", "logical_and", "bitwise_xor", "multiply"):
                yield {"lengths": ls, "ufunc": u}

    def nontrivial(self, case):
        return 0 in case["lengths"]
