"""Regenerates MANIFEST.json from the table below (kept in one place so that the manifest stays valid)."""
import json
import os
import subprocess

HERE = os.path.dirname(os.path.abspath(__file__))

COMMON_NOTE = ("Trusted: CPython executing the real function objects on the symbolic proxies of vf/sym (new code, cross-checked "
               "concretely on every run); assumed numpy contracts (vf/sym/symnp.py, theory.py, arr.py; audited on small inputs "
               "only); z3 5.1.0 / cvc5 1.0.3 / z3 4.8.12 sound; index arithmetic mathematical (sizes < 2^63, < 2^31 under int32); "
               "inductions over histories/programs are paper arguments. Bounded parts are exhaustive only inside the stated bounds.")

# id -> (category, technique, text, design_ref)
CHECKS = {
    "C01": ("other", "contract-based deductive verification of the real functions (VCs by symbolic execution of the code objects, z3/cvc5) + bounded list-of-rows stand-in",
            "Proved for every row-length vector: the prefix-sum geometry built by RaggedShape.__init__, size, ravel/unravel_multi_index, index_array (four inductions), the constructor's size check, len/shape/lengths/size/ravel/astype, to_numpy_array, from_tuple_shape, iteration / tolist (the real generator run for an arbitrary iteration index k: row k has L(k) cells D[S(k)+c]; CPython's zip / generator protocol assumed). the save/load round trip up to the file (save stores the flat data and the geometry codes, load rebuilds the same rows from exactly those; np.savez/np.load assumed to give back what was stored). Bounded (exhaustive inside stated bounds, never counted as proved): dtype matrix, the real file round trip.", "0, 20, 11/C01"),
    "C02": ("other", "contract-based deductive verification (incl. an inductive scan invariant for build_indices) + bounded Python-list-indexing stand-in",
            "Proved for all inputs: column-slice arithmetic for all 8 None/int kinds with symbolic bounds, steps and column step; integer column / element refusal; row selection on codes for int / slice / index array / mask; build_indices (scatter-then-scan, unbounded rows); get_shape / get_flat_indices preconditions; __getitem__ and _get_row_subset dispatch; and the composition mechanised for ra[rowslice, colslice]: the real chain __getitem__ -> view_rows -> col_slice -> ravel -> gather executed on a symbolic array (only get_flat_indices replaced by its proved contract) gives, cell by cell, Python list indexing - for rows selected by a slice (bounds / steps symbolic), an integer index array or a boolean mask, columns by a slice (bounds symbolic, step in {1,2,-1,-2,-3}) or none, and for the integer forms ra[i, j], ra[i], ra[i, a:b:s], ra[rows, j]. Combinations outside these are bounded.", "0, 20, 11/C02"),
    "C03": ("other", "contract-based deductive verification (address arithmetic shared with reads, scatter frame, XOR-scan broadcast) + bounded list-assignment stand-in",
            "Proved: everything of C02's address computation, _set_data_range (addressed cells get their values, every other cell unchanged, no other buffer written; index array / mask / slice), __setitem__ dispatch per value kind incl. refusal of mismatching ragged values, _raw_broadcast (column-vector values) with its wrappers; and the composition mechanised for ra[rowslice, colslice] = scalar: exactly the cells list indexing selects get the value, every other cell keeps its value (frame), with only get_flat_indices replaced by its proved contract (same selector kinds as for reads, incl. ra[i, j] = v, ra[i] = v, ra[rows, j] = v). Non-scalar values end to end are bounded (their broadcasting is proved in __setitem__ / _raw_broadcast).", "0, 20, 11/C03"),
    "C04": ("other", "contract-based deductive verification with the ufunc as an uninterpreted function + bounded numpy-per-row stand-in",
            "Proved for every ufunc at once: operand classification, operand order, shape guard (refusal iff row lengths differ), result assembly, dtype handed to the column broadcast, operands not written; _raw_broadcast proved. numpy's result dtype table and the dtype matrix are bounded.", "0, 20, 11/C04"),
    "C05": ("other", "contract of _reduce against the assumed reduceat contract + wrapper dispatch + bounded numpy-per-row stand-in",
            "Proved for all row-length vectors: _reduce (trailing-empty-row trimming, reduceat index bounds, identity for empty rows, keepdims, axis=None) for representatives add / maximum / logical_and with the fold uninterpreted; the reduction wrapper and named reductions' dispatch; argmax / argmin (_arg_extremum: first column equal to the row extremum, 0 for rows without one; np.unique and nonzero contracts); mean(axis) = the callee's sum(axis) of an array holding the same cells divided by the row length / col_counts (float division uninterpreted). The dtype matrix and float values are bounded.", "0, 20, 11/C05"),
    "C06": ("other", "contracts over the abstract rows for view receivers + materialisation frame + bounded derived-vs-fresh comparison",
            "Proved: row subset of views, column-step compounding, integer column on strided views, materialisation (rows preserved, fresh buffer, source not written), lazy __getitem__ dispatch; the mechanised compositions of C02 / C03 (a 2-D slice selection read back cell by cell, and written through, equals list indexing), also for receivers that are themselves lazy row or column selections (column steps compound). Representation independence under every probe (a newly derived array vs a fresh one) is bounded.", "0, 20, 11/C06"),
    "C07": ("other", "contracts (prefix-sum telescoping, shifted-prefix-sum lemma) + bounded numpy-per-row stand-in",
            "Proved: cumsum and add/subtract/xor accumulate restart at every row (integer data as mathematical integers / 64-bit words), diff plumbing (row r keeps max(L-n,0) differences of its own cells), index_array for sort; sort(axis=-1) against numpy.lexsort's contract (keys = the receiver's own cells and, as primary key, the row number of every flat position of its own geometry; result gathered through the returned order with the receiver's geometry; fresh and lazily selected receivers). That an order sorted by (row, value) sorts each row in place (a counting argument), unique and diff values end to end are bounded. One known finding (float accumulate).", "0, 20, 11/C07"),
    "C08": ("other", "contracts on structural functions + bounded stand-in",
            "Proved: concatenate(axis=0) for 2 and 3 operands, concatenate(axis=1 / -1) for 2 and 3 operands (the real comprehension over zip of the real row generators run for an arbitrary iteration k: the row handed to the constructor is row k of operand 0, then of operand 1, .. ; exactly n iterations; built by the first operand's class; CPython's zip / comprehension protocol and the constructor from a row list assumed), zeros/ones/empty_like, where, nonzero, ragged_slice window arithmetic, unravel_multi_index, _raw_broadcast (mask broadcast), subset (row r keeps exactly its True-masked cells in order; fold-of-booleans = rank difference and prefix-sum-of-counts lemmas). as_padded_matrix for both sides (cell (r, c) of the (n, longest row) matrix is the row's own cell or the fill value; 2-D index matrix, clamp, gather, scatter of the fill positions, reshape; flat positions r*W+c in factored form). concatenate(axis=1) (a Python loop over rows) is bounded.", "0, 20, 11/C08"),
    "C09": ("other", "contracts (col_counts by three inductions, dtype dispatch) + bounded stand-in with dtype extremes",
            "Proved: col_counts[j] = number of rows longer than j, for all row-length vectors; sum(axis=0) accumulator / dtype / index dispatch; the column-sum VALUES of integer arrays (result[k] = sum of the k-th cells of the rows that have one, two inductions over the add.at accumulation, integers mathematical); get_column_values; mean(axis=0) = sum(axis=0) / col_counts() over the callee contracts (float division uninterpreted). Float / bool column-sum values are bounded.", "0, 20, 11/C09"),
    "C10": ("other", "two-state frame contracts on read-only operations + bounded differential histories",
            "Proved: 13 read-only operations on fresh receivers and 5 on lazily selected ones write no pre-existing buffer and preserve the rows; the buffer-dependence obligation on lazily selected receivers is refuted and is the recorded known finding. The history relation itself is bounded.", "0, 20, 11/C10"),
    "C11": ("other", "contracts around the bucket structure + bounded Python-dict stand-in",
            "Proved: hash is a bucket index for every key sign, _get_indices against its callees' contracts (refusal iff a key is absent; the offsets locate the keys), scalar-valued lookup/refusal, assignment order, contains scatter. the constructor establishes the bucket invariant (every cell lies in the bucket of its key's hash, keys and values permuted alike, nothing lost; five inductions over the sort / unique-counts / prefix-sum chain). and the lookup lemma over the shared contract formulas of __init__ and _get_indices: for distinct keys the value fetched for a queried key is the value stored with that key (the dictionary {K[j]: V[j]}); the assignment lemma over the same formulas: after table[A] = W the cell of an input key holds the last value assigned to it and is unchanged if no assigned key equals it (changes those keys only; the key cells are not written). Histories against a dict (the induction over operation sequences) are bounded. One known finding (8-bit key dtype with a wider modulus).", "0, 20, 11/C11"),
    "C12": ("other", "contract of Counter.count's state update + bounded collections.Counter stand-in",
            "Proved: which samples are looked up and values' = values + hits per flat position in all four value states (bincount contract), ravel_multi_index, hash. the constructor's bucket invariant (HashTable.__init__). Totals end-to-end against collections.Counter are bounded.", "0, 20, 11/C12"),
    "C13": ("proof", "contract-based deductive verification in QF_BV + linear integer arithmetic of the real pack / unpack / __getitem__ / sliding_window",
            "Every clause of the property is a discharged obligation generated from the real functions: pack (digit j of register q = element qk+j, zero beyond n, input untouched), unpack, integer and list indexing, sliding_window for every window size, for every b in {1,2,4,8,16,32} and every in-register offset (the property's own finite domain), with length, register index, positions and window size symbolic. A bounded cross-check runs in addition.", "0, 20, 11/C13"),
    "C14": ("other", "contracts (encoder canonical form, decoder XOR scan with invariant, constructor) + bounded numpy stand-in",
            "Proved: from_array gives canonical boundaries with adjacent runs different and run values taken at run starts; to_array decodes bit for bit (scan invariant); constructor invariants; slice windows; the canonicalisation helpers remove_empty_intervals and join_runs (np.delete contract, chain induction); concatenate; and the round trip to_array(from_array(x)) == x as a lemma over the shared contract formulas of the two functions (identical for bit patterns; for numpy's == up to the exchange of ==-equal neighbours). The dtype matrix is bounded.", "0, 20, 11/C14"),
    "C15": ("other", "contracts (slice window = CPython's clamped window, position lookup, sub-range extraction) + bounded numpy stand-in",
            "Proved: _get_slice hands exactly CPython's clamped window to _start_to_end for all 8 None/int kinds; _start_to_end (scalar form) returns a canonical sub-array with the dense content; _step_subset for every non-zero step of symbolic size (factored floor division, proved callee contracts of remove_empty_intervals / join_runs); _get_position; __getitem__ / _getitem_bool dispatch for every index kind. the vector form of _start_to_end (the windows behind run-length masks and rla[starts:stops]) and RunLengthRaggedArray.ravel, with the ragged operands as contract-level stand-ins (SpecRagged, audited against the real RaggedArray); and the composition for slices as a lemma over the shared contract formulas of _get_slice / _start_to_end / _step_subset: rla[a:b:s] has len(range(n)[a:b:s]) positions and position q holds the value at first + q*step, for every step. The composition for masks / windows is bounded.", "0, 20, 11/C15"),
    "C16": ("other", "contracts (operand order, boundaries kept, any/all/max) + bounded numpy stand-in",
            "Proved: unary / scalar ufuncs keep boundaries and apply U in operand order, operands untouched; the binary merge _apply_binary_func for two arrays with unrelated boundaries (every position gets U(first, other) in operand order; argsort / searchsorted contracts, partition-point induction, proved callee contracts); any/all/max equal the dense ones; sum of integer arrays equals the sum of the decoded array (two inductions, products length * value handled by the solver's nonlinear arithmetic); concatenate; mean = the callee's sum over the same runs divided by the decoded length, histogram = numpy's histogram of the run values weighted by the run lengths (dispatch obligations). Float sums and numpy's histogram itself are bounded / assumed.", "0, 20, 11/C16"),
    "C17": ("other", "dispatch contracts (operand order, lock-step row selection) + bounded numpy stand-in",
            "Proved: ufunc operand order for scalar / column on either side in both classes; row selection indexes boundaries and values with the same selector; reduction / structure plumbing (which ragged reduction is applied to which operand); RunLength2dArray.join_runs (lock-step filtering, real ragged machinery); with the ragged operands as contract-level stand-ins (SpecRagged, audited): RunLengthRaggedArray.ravel, the integer-column selection rr[:, j] (two inductions), RunLengthRaggedArray.remove_empty_intervals (row by row the 1-D helper's contract; lock-step of boundaries and values; six inductions), the 2-D _step_subset for every non-zero step of symbolic size (against that contract, factored floor division), the row sums of integer arrays (sum(axis=-1) equals the sum of each decoded row), argmax (the first position of the row maximum), mean (row sums divided by the decoded row lengths; column means = sum(axis=0) / col_counts() over the callee contracts), col_counts (value at column k = number of rows longer than k; np.unique with counts, three inductions), the window extraction behind rla[starts:stops], np.concatenate of 2 / 3 ragged run-length arrays (boundaries and values joined along the rows in the same operand order; with the proved contract of the ragged row concatenation every result row is the same row of the same operand, well-formed). Constructors, column ranges, column sums are bounded.", "0, 20, 11/C17"),
    "C18": ("other", "contracts on field-wise operations with abstract fields (k = 1..3 fields unrolled, all lengths and selectors symbolic) + bounded stand-in",
            "Proved: equal-length check, __getitem__ for int / slice / index array / mask, concatenate of 2 and 3 objects, ==, astype by name, iteration, VarLenArray concatenate for 2 and 3 operands with all sizes symbolic. The number of fields / operands is concrete (unrolled), hence not claimed as proof.", "0, 20, 11/C18"),
    "C19": ("other", "re-generation of every geometry / indexing / reduction obligation under int32 (paired-word view model) + bounded differential run",
            "Proved under both index widths with the same contracts: all C01/C02/C05/C06/C07/C08/C09 geometry, indexing, reduction, scan and structural families (1500+ obligations). The C01-C09 stand-ins are run under both widths and compared (bounded).", "0, 20, 11/C19"),
}


def main():
    hooks_commits = []
    man = {
        "version": 1,
        "setup_cmd": "./setup.sh",
        "hooks": {"guard": "NPSTRUCTURES_VERIF", "enable": "no source hooks are needed: contracts are sidecar files under /verif/vf and the repository's functions are executed unmodified",
                  "baseline_off_cmd": "cd /repo && /venv/bin/python -m pytest -ra -q -p no:cacheprovider --timeout=900 --continue-on-collection-errors",
                  "source_commits": hooks_commits, "add_only": True},
        "engines": [
            {"name": "npvc", "path": "vf/sym", "serves_properties": sorted(CHECKS),
             "kind_free_text": "verification-condition generator: symbolic execution of the real function objects on proxy values (z3 terms, closure arrays, numpy primitives as assumed contracts), all paths, obligations discharged by z3 5.1.0 with cvc5 / z3 4.8.12 fallback"},
            {"name": "bounded", "path": "vf/bounded", "serves_properties": sorted(CHECKS),
             "kind_free_text": "bounded stand-in: exhaustive enumeration inside stated bounds against the oracle the property names; always labelled bounded"},
        ],
        "checks": [],
        "not_applicable": [],
        "notes": "See DESIGN.md. Exit codes: 0 held, 1 violation (VIOLATION line), 2 undecided/nothing explored, 3 checker error.",
    }
    for pid in sorted(CHECKS):
        cat, tech, text, ref = CHECKS[pid]
        man["checks"].append({
            "property_id": pid,
            "quick_cmd": f"./check {pid} --tier quick",
            "thorough_cmd": f"./check {pid} --tier thorough",
            "evidence_file": f"evidence/{pid}.json",
            "replay_cmd_template": f"./check {pid} --replay {{path}}",
            "engine": "npvc+bounded",
            "level_claimed": {"category": cat, "text": text, "design_ref": ref},
            "level_note": COMMON_NOTE,
            "technique": tech,
        })
    with open(os.path.join(HERE, "MANIFEST.json"), "w") as f:
        json.dump(man, f, indent=1)
    import jsonschema
    jsonschema.validate(man, json.load(open("/root/.vp/MANIFEST.schema.json")))
    print("MANIFEST.json written and valid;", len(man["checks"]), "checks")


if __name__ == "__main__":
    main()
