"""C02-O2 / C06 / C19: row selection on the (start, length) codes.

`sel` is the function from result row to source row that a row selector denotes on a list of n rows
(CPython list indexing): slice -> first + r'*step for r' < count; integer list -> wrap(idx[r']);
boolean mask -> the r'-th true position; integer -> wrap(i).  Contract of every row-selection function:
the result's codes are (start[sel(r')], length[sel(r')]) for r' < m, m = number of selected rows, and
an integer (in a list or alone) outside [-n, n) is refused.
Both index-width configurations are verified (the int32 branch pairs (start, length) into one 64-bit word).
"""
import itertools
import numpy as np
import z3

from .base import Family, register, model_int
from .ragged import sym_shape, sym_view, sym_view2, index_dtype
from .colslice import SL_KINDS, slice_components, model_slice
from ..sym.core import SInt, cur
from ..sym.arr import SymArr, I, dim_term, pyslice, wrap_index, nonzero_facts

SEL_KINDS = ["int", "intarray", "mask"] + ["slice:" + k for k in SL_KINDS]


def make_selector(ctx, kind, n):
    """-> (python selector object, m term, sel function, validity condition or None)"""
    if kind == "int":
        i = z3.Int("i")
        ok = z3.And(i >= -n, i < n)
        return SInt(i), z3.IntVal(1), (lambda r: wrap_index(i, n)), ok
    if kind == "intarray":
        m = z3.Int("m")
        ctx.assume(m >= 0)
        idx = SymArr.symbolic("idx", m, "int", assume_len=False)
        ctx.ghost["idx"] = idx.fn
        return idx, m, (lambda r: wrap_index(idx.fn(r), n)), ("all", m, lambda t: z3.And(idx.fn(t) >= -n, idx.fn(t) < n))
    if kind == "mask":
        mk = SymArr.symbolic("mask", n, "bool", bool, assume_len=False)
        return mk, None, None, None
    comps = slice_components(ctx, kind.split(":")[1])
    first, cnt, step = pyslice(SInt(n), *comps)
    return slice(*comps), I(cnt), (lambda r: I(first) + r * I(step)), None


def check_codes(ctx, g, kind, selector, m, sel, out_starts, out_lengths, out_n):
    """post: out has m rows, row r' = source row sel(r')"""
    if kind == "mask":
        nz = getattr(out_starts, "nz", None)
        if nz is None:
            # the gather carried its nonzero facts on an intermediate; recover via a fresh statement of the contract
            nz = nonzero_facts(selector, "post")
        m = nz.cnt
        sel = lambda r: nz.pos(r)
    ctx.prove("post.n_rows==m", out_n == m)
    r = z3.Int("rp")
    ctx.skolem(z3.And(0 <= r, r < m))
    ctx.add_index(r, sel(r))
    ctx.prove("post.sel in range", z3.And(0 <= sel(r), sel(r) < g.n))
    ctx.prove("post.start[r']==start[sel(r')]", out_starts.get(r) == g.S(sel(r)))
    ctx.prove("post.length[r']==length[sel(r')]", out_lengths.get(r) == g.L(sel(r)))


class _RowSelBase(Family):
    serves = ["C02", "C03", "C06", "C19"]
    assumed = ["numpy basic / integer-array / boolean indexing of a (n,2) matrix", "ndarray.view between int32 pairs and uint64 words"]

    def kinds(self):
        return SEL_KINDS

    def source(self, ctx):
        raise NotImplementedError

    def call(self, obj, selector):
        raise NotImplementedError

    def unpack(self, out):
        return out.starts, out.lengths, dim_term(out.starts.shape_[0])

    def run(self, ctx, kind):
        g = self.source(ctx)
        ctx.ghost["g"] = g
        selector, m, sel, valid = make_selector(ctx, kind, g.n)
        refusable = valid is not None
        try:
            out = self.call(g.obj, selector)
        except IndexError:
            if not refusable:
                raise
            if isinstance(valid, tuple):
                _, mm, cond = valid
                ctx.assume_forall("all indices valid", lambda t: z3.Implies(z3.And(0 <= t, t < mm), cond(t)))
                ctx.prove("raises=>some index outside [-n,n)", z3.BoolVal(False))
            else:
                ctx.prove("raises=>index outside [-n,n)", z3.Not(valid))
            return
        if refusable:
            if isinstance(valid, tuple):
                _, mm, cond = valid
                t = z3.Int("t")
                ctx.skolem(z3.And(0 <= t, t < mm))
                ctx.add_index(t)
                ctx.prove("returns=>all indices inside [-n,n)", cond(t))
            else:
                ctx.prove("returns=>index inside [-n,n)", valid)
        s, l, nn = self.unpack(out)
        if kind == "mask":
            # the mask gather is an intermediate (n,2)[mask]: locate its facts
            self.mask_post(ctx, g, selector, s, l, nn)
        else:
            check_codes(ctx, g, kind, selector, m, sel, s, l, nn)

    def mask_post(self, ctx, g, mask, s, l, nn):
        # contract in terms of the mask itself: out row r' is a source row q with mask[q], rows in increasing order,
        # and every true row appears: stated through the rank function of numpy's boolean-mask gather
        facts = ctx.ghost.get("cache_nzlast")
        nzs = [o for o in ctx.ghost.get("nonzero_facts", [])]
        if not nzs:
            raise Exception("no mask gather happened")
        nz = nzs[-1]
        ctx.prove("post.n_rows==#true", nn == nz.cnt)
        r = z3.Int("rp")
        ctx.skolem(z3.And(0 <= r, r < nz.cnt))
        ctx.add_index(r, nz.pos(r))
        ctx.prove("post.start[r']==start[pos(r')]", s.get(r) == g.S(nz.pos(r)))
        ctx.prove("post.length[r']==length[pos(r')]", l.get(r) == g.L(nz.pos(r)))

    def concretise(self, kind, model, ghost):
        g = ghost["g"]
        n = min(max(model_int(model, g.n), 0), 5)
        case = {"lengths": [min(max(model_int(model, g.L(z3.IntVal(r))), 0), 3) for r in range(n)], "kind": kind}
        if kind == "int":
            case["sel"] = model_int(model, z3.Int("i"))
        elif kind == "intarray":
            m = min(max(model_int(model, z3.Int("m")), 0), 4)
            case["sel"] = {"list": [model_int(model, ghost["idx"](z3.IntVal(t))) for t in range(m)]}
        elif kind.startswith("slice"):
            case["sel"] = {"slice": model_slice(model, kind.split(":")[1])}
        else:
            return None
        return case

    def concrete(self, case):
        from npstructures import RaggedArray
        from ..bounded.common import dec_index, rows_for
        ls = case["lengths"]
        rows = rows_for(ls, base=10)
        ra = RaggedArray(np.array([v for r in rows for v in r], dtype=np.int64), ls)
        sel = dec_index(case["sel"])
        try:
            exp = rows[sel] if not isinstance(sel, list) else [rows[i] for i in sel]
            experr = None
        except IndexError as e:
            exp, experr = None, e
        try:
            got = ra[sel]
            got = got.tolist() if hasattr(got, "tolist") else got
            goterr = None
        except Exception as e:
            got, goterr = None, e
        if experr is not None:
            if goterr is None:
                return {"msg": f"rows {rows}[{case['sel']}] must be refused, got {got}", "sig": "not-refused:rowsel"}
            return None
        if goterr is not None or (got != exp and not (len(exp) == 0 and len(got) == 0)):
            return {"msg": f"rows {rows}[{case['sel']}]: expected {exp}, got {got} {goterr!r}", "sig": "wrong:rowsel"}

    def bounded_cases(self, tier, seed):
        from ..bounded.common import length_vectors
        for ls in length_vectors(3, 2):
            n = len(ls)
            for i in range(-n - 1, n + 1):
                yield {"lengths": ls, "kind": "int", "sel": i}
            for a in (None, -4, -1, 0, 1, 4):
                for b in (None, -4, -1, 0, 2, 4):
                    for s in (None, 1, 2, -1, -2):
                        yield {"lengths": ls, "kind": "slice", "sel": {"slice": [a, b, s]}}
            for combo in itertools.product(range(-n - 1, n + 1), repeat=2):
                yield {"lengths": ls, "kind": "intarray", "sel": {"list": list(combo)}}


@register
class IndexRows(_RowSelBase):
    name = "ViewBase._index_rows"
    qualname = "npstructures.raggedshape:ViewBase._index_rows"

    def source(self, ctx):
        return sym_shape(ctx)

    def call(self, obj, selector):
        return obj._index_rows(selector)

    def unpack(self, out):
        codes = out
        return codes[::2], codes[1::2], z3.simplify(dim_term(codes.shape_[0]) / 2)


@register
class ShapeViewRows(_RowSelBase):
    name = "RaggedShape.view_rows"
    qualname = "npstructures.raggedshape:RaggedShape.view_rows"

    def kinds(self):
        return [k for k in SEL_KINDS if k != "int"]

    def extra_functions(self):
        return ["ViewBase._index_rows", "RaggedView2.__post_init__"]

    def source(self, ctx):
        return sym_shape(ctx)

    def call(self, obj, selector):
        v = obj.view_rows(selector)
        cur().prove("post.col_step==1", I(v.col_step) == 1)
        return v


@register
class ShapeView(_RowSelBase):
    name = "RaggedShape.view"
    qualname = "npstructures.raggedshape:RaggedShape.view"

    def kinds(self):
        return [k for k in SEL_KINDS if k != "int"]

    def extra_functions(self):
        return ["ViewBase._index_rows", "ViewBase.__init__"]

    def source(self, ctx):
        return sym_shape(ctx)

    def call(self, obj, selector):
        return obj.view(selector)


@register
class ViewView(_RowSelBase):
    name = "RaggedView.view"
    qualname = "npstructures.raggedshape:RaggedView.view"
    serves = ["C06", "C19"]

    def kinds(self):
        return [k for k in SEL_KINDS if k != "int"]

    def source(self, ctx):
        return sym_view(ctx)

    def call(self, obj, selector):
        return obj.view(selector)

    def bounded_cases(self, tier, seed):
        return iter(())


@register
class View2ViewRows(_RowSelBase):
    """row subset of a (possibly strided) column view keeps the column step"""
    name = "RaggedView2.view_rows"
    qualname = "npstructures.raggedshape:RaggedView2.view_rows"
    serves = ["C06", "C19"]
    configs = ["int64"]

    def kinds(self):
        return [k for k in SEL_KINDS if k != "int"]

    def source(self, ctx):
        return sym_view2(ctx)

    def call(self, obj, selector):
        v = obj.view_rows(selector)
        cur().prove("post.col_step kept", I(v.col_step) == cur().ghost["g"].step)
        return v

    def bounded_cases(self, tier, seed):
        return iter(())
