"""C02-O6 / C03 / C06: the gather-index construction (scatter-then-scan) of raggedshape.build_indices,
with an inductive scan invariant supplied here (the sidecar proof script of DESIGN section 6).

Contract.  view: rows with flat start VS(r); to_shape: RaggedShape of lengths L'(r) >= 0 (starts S' = PS_L');
step != 0; precondition  VE(r) = VS(r) + (L'(r) - 1) * step + 1  for non-empty rows (what RaggedView.ends /
RaggedView2.ends provide; the product x*step is written mulstep(x) with mulstep(0)=0, mulstep(x+1)=mulstep(x)+step,
so that every verification condition is linear).  Result idx with  len(idx) = S'(n)  and  idx[S'(r) + c] = VS(r) + c * step  for c < L'(r).

Proof.  B = the builder before the scan, C(j) = cumsum(B)[j].  Invariant
        Inv(j):  C(j) = VS(rho(j)) + step * (j - S'(rho(j)))        rho(j) = the (non-empty) row containing flat position j
base j = 0; step j -> j+1 by cases "same row" (B[j+1] = step: j+1 is no scatter target) and "next row"
(B[j+1] = VS(r) - VE(q) + 1 with q the previous non-empty row, located through the flatnonzero contract).
"""
import numpy as np
import z3

from .base import Family, register, model_int
from .ragged import sym_shape
from ..sym.core import SInt, cur, fresh_name
from ..sym.arr import SymArr, I, dim_term


class DuckView:
    """the abstract `view` parameter of build_indices (it only reads starts, ends, _dtype)"""
    _dtype = np.int64


def setup(ctx, step_kind):
    T = sym_shape(ctx, "to")
    n = T.n
    vs = SymArr.symbolic("VS", n, "int", assume_len=False)
    ve = SymArr.symbolic("VE", n, "int", assume_len=False)
    if step_kind == "None":
        step_v, step = None, z3.IntVal(1)
    else:
        step = z3.Int("step")
        ctx.assume(step != 0)
        step_v = SInt(step)
    # mul(x) = step * x, introduced by its recurrence (keeps every verification condition linear)
    mul = z3.Function(fresh_name("mulstep"), z3.IntSort(), z3.IntSort())
    ctx.assume(mul(0) == 0)
    ctx.assume_forall("mulstep", lambda x: mul(x + 1) == mul(x) + step)
    ctx.assume_forall("pre: ends of non-empty rows", lambda r: z3.Implies(z3.And(0 <= r, r < n, T.L(r) > 0),
                                                                      ve.fn(r) == vs.fn(r) + mul(T.L(r) - 1) + 1))
    view = DuckView()
    view.starts, view.ends = vs, ve
    return T, vs.fn, ve.fn, step, step_v, view, mul


@register
class BuildIndices(Family):
    name = "raggedshape.build_indices"
    qualname = "npstructures.raggedshape:build_indices"
    serves = ["C02", "C03", "C06", "C19"]
    timeout_ms = 60000
    assumed = ["numpy.flatnonzero contract (positions strictly increasing, rank function)", "numpy fancy assignment (witness form)",
               "numpy.cumsum = prefix sums", "lemma partition-point (existence of the row containing a flat position; proved by induction in vf.proofs.lemmas)"]

    def kinds(self):
        return ["sym", "None"]

    def run(self, ctx, kind):
        from npstructures.raggedshape import build_indices
        T, VS, VE, step, step_v, view, mul = setup(ctx, kind)
        n, S, L = T.n, T.S, T.L
        size = S(n)
        ctx.ghost["T"] = T
        # ghost: rho(j) = row containing flat position j (partition lemma)
        rho = z3.Function(fresh_name("rho"), z3.IntSort(), z3.IntSort())
        ctx.assume_forall("rho", lambda j: z3.Implies(z3.And(0 <= j, j < size), z3.And(
            0 <= rho(j), rho(j) < n, S(rho(j)) <= j, j < S(rho(j) + 1), L(rho(j)) > 0)))
        ctx.add_index(z3.IntVal(0), n, n - 1, rho(z3.IntVal(0)), rho(z3.IntVal(0)) + 1)
        res, shp = build_indices(view, T.obj, step_v)
        ctx.prove("post.shape returned unchanged", z3.BoolVal(shp is T.obj))
        if isinstance(res, np.ndarray):
            ctx.prove("post.empty result only for an empty shape", z3.And(size == 0, z3.BoolVal(res.size == 0)))
            return
        ctx.prove("post.len==S'(n)", dim_term(res.shape_[0]) == size)
        ps = ctx.ghost["prefix_sums"][-1]["ps"]
        C = lambda j: ps(j + 1)                                  # the scanned value at j
        nzs = ctx.ghost.get("nonzero_facts", [])
        some_empty = bool(nzs)
        sc = ctx.ghost["scatters"][-1] if ctx.ghost.get("scatters") else None
        if some_empty:
            nz = nzs[-1]
            pos, rk, K = nz.pos, nz.rk, nz.cnt
        else:
            pos, rk, K = (lambda t: t), (lambda r: r), n
            # on this path every row is non-empty (np.all(lengths != 0)): stated by the forall-fact of np.all
        Inv = lambda j: C(j) == VS(rho(j)) + mul(j - S(rho(j)))

        # ---- uniqueness of the containing row (from monotone S'): used as a schema over pairs --------------------------
        # (r non-empty, S'(r) <= j < S'(r+1))  =>  r = rho(j)   follows from S'.mono at (r+1, rho(j)) and (rho(j)+1, r)

        # ---- base --------------------------------------------------------------------------------------------------
        Z, ONE = z3.IntVal(0), z3.IntVal(1)
        r0 = rho(Z)
        p0 = pos(Z)
        ctx.prove_then_assume("base.lemma: the row containing position 0 is the first non-empty row",
                              z3.Implies(size > 0, z3.And(S(r0) == 0, p0 == r0)),
                              pool=[Z, ONE, r0, r0 + 1, rk(r0), p0, p0 + 1, n])
        ctx.prove_then_assume("base: Inv(0)", z3.Implies(size > 0, Inv(Z)), pool=[Z, ONE, r0, p0])

        # ---- step --------------------------------------------------------------------------------------------------
        j = z3.Int("j")
        ctx.skolem(z3.And(0 <= j, j + 1 < size))
        ctx.assume(Inv(j))                                       # induction hypothesis
        q, r = rho(j), rho(j + 1)
        w = sc["wit"](j + 1) if sc is not None else None
        wt = [w, w + 1, pos(w + 1), pos(w + 1) + 1] if w is not None else []
        same = (r == q)
        # case A: same row
        ctx.prove_then_assume("step.same-row.lemma: position j+1 is not the start of a non-empty row (no scatter target)",
                              z3.Implies(same, ps(j + 2) == ps(j + 1) + step),
                              pool=[j, j + 1, j + 2, q, q + 1] + wt)
        ctx.prove("step.same-row: Inv(j) => Inv(j+1)", z3.Implies(same, Inv(j + 1)), pool=[j, j + 1, q, j - S(q)])
        # case B: next non-empty row
        ctx.prove_then_assume("step.next-row.lemma1: j+1 starts row r and ends row q", z3.Implies(z3.Not(same), z3.And(
            S(r) == j + 1, S(q + 1) == j + 1, q < r)), pool=[j, j + 1, q, q + 1, r, r + 1])
        tq = rk(r) - 1
        ctx.prove_then_assume("step.next-row.lemma2: q is the previous non-empty row", z3.Implies(z3.Not(same), z3.And(
            rk(r) >= 1, pos(tq) == q, pos(rk(r)) == r)),
            pool=[j, j + 1, q, q + 1, r, r + 1, rk(q), rk(r), tq, rk(q) + 1] + ([pos(tq), pos(tq) + 1] if some_empty else []))
        if w is not None:
            ctx.prove_then_assume("step.next-row.lemma3: the scatter writes position j+1 from entry rk(r)-1", z3.Implies(
                z3.Not(same), w == tq), pool=[j + 1, r, r + 1, tq, rk(r)] + wt + [rk(pos(w + 1))])
        ctx.prove_then_assume("step.next-row.lemma4: B[j+1] = VS(r) - VE(q) + 1", z3.Implies(
            z3.Not(same), ps(j + 2) == ps(j + 1) + VS(r) - VE(q) + 1), pool=[j + 1, j + 2, tq, rk(r), q, r] + wt[:2])
        ctx.prove_then_assume("step.next-row.lemma5: row q has j+1-S'(q) cells", z3.Implies(
            z3.Not(same), z3.And(L(q) - 1 == j - S(q), mul(L(q) - 1) == mul(j - S(q)))), pool=[q, q + 1, j])
        ctx.prove("step.next-row: Inv(j) => Inv(j+1)", z3.Implies(z3.Not(same), Inv(j + 1)), pool=[j, j + 1, q, r])

        # ---- conclusion: Inv holds everywhere (induction), hence the address map ---------------------------------------
        ctx.assume_forall("Inv (by induction: base + step above)", lambda t: z3.Implies(z3.And(0 <= t, t < size), Inv(t)))
        rr = T.row("row")
        c = z3.Int("c")
        ctx.skolem(z3.And(0 <= c, c < L(rr)))
        p = S(rr) + c
        ctx.prove_then_assume("post.lemma: rho(S'(r)+c) == r", rho(p) == rr, pool=[c, p, rr, rr + 1, rho(p), rho(p) + 1])
        ctx.prove("post.idx[S'(r)+c] == VS(r) + c*step   (c*step as mulstep(c): mulstep(0)=0, mulstep(x+1)=mulstep(x)+step)",
                  res.get(p) == VS(rr) + mul(c), pool=[p, rr, c])

    def concretise(self, kind, model, ghost):
        T = ghost["T"]
        n = min(max(model_int(model, T.n), 0), 5)
        return {"lengths": [min(max(model_int(model, T.L(z3.IntVal(r))), 0), 3) for r in range(n)],
                "step": 1 if kind == "None" else (model_int(model, z3.Int("step")) or 1)}

    def concrete(self, case):
        from npstructures.raggedshape import build_indices, RaggedShape, BasicView
        ls, step = case["lengths"], case["step"]
        vs = [100 + 37 * i for i in range(len(ls))]
        ve = [s + (l - 1) * step + 1 for s, l in zip(vs, ls)]      # mulstep(l-1) = (l-1)*step
        view = BasicView(np.array(vs, dtype=np.int64), np.array(ve, dtype=np.int64))
        idx, _ = build_indices(view, RaggedShape(ls), step)
        exp = [s + c * step for s, l in zip(vs, ls) for c in range(l)]
        if np.asarray(idx).tolist() != exp:
            return {"msg": f"build_indices(starts={vs}, lengths={ls}, step={step}) = {np.asarray(idx).tolist()}, expected {exp}",
                    "sig": "wrong:build_indices"}

    def bounded_cases(self, tier, seed):
        from ..bounded.common import length_vectors
        for ls in length_vectors(4, 3):
            for step in (1, 2, -1, -3):
                yield {"lengths": ls, "step": step}

    def nontrivial(self, case):
        return 0 in case["lengths"]


@register
class FlatIndicesFast(Family):
    """RaggedView._get_flat_indices_fast (used when the view is known to have no empty row, i.e. by Counter.count):
    idx[S'(r) + c] = start(r) + c.  Scatter-then-scan with invariant  C(j) = start(rho(j)) + j - S'(rho(j))."""
    name = "RaggedView._get_flat_indices_fast"
    qualname = "npstructures.raggedshape:RaggedView._get_flat_indices_fast"
    serves = ["C12", "C02", "C19"]
    timeout_ms = 30000
    assumed = ["callee contract RaggedView.get_shape (proved in vf.proofs.derived)", "numpy fancy assignment (witness form)", "numpy.cumsum(out=)",
               "numpy.diff", "lemma partition-point (proved by induction in vf.proofs.lemmas)"]

    def run(self, ctx, kind):
        from npstructures.raggedshape import RaggedView
        from .ragged import sym_view
        v = sym_view(ctx)
        n, VS, L = v.n, v.S, v.L
        ctx.assume(n >= 1)
        ctx.assume_forall("requires: no empty row", lambda r: z3.Implies(z3.And(0 <= r, r < n), L(r) >= 1))
        T = sym_shape(ctx, "to")
        ctx.assume(T.n == n)
        ctx.assume_forall("shape of the view's lengths", lambda r: z3.Implies(z3.And(0 <= r, r < n), T.L(r) == L(r)))
        S = T.S
        size = S(n)
        rho = z3.Function(fresh_name("rho"), z3.IntSort(), z3.IntSort())
        ctx.assume_forall("rho", lambda j: z3.Implies(z3.And(0 <= j, j < size), z3.And(0 <= rho(j), rho(j) < n, S(rho(j)) <= j, j < S(rho(j) + 1))))
        ctx.add_index(z3.IntVal(0), z3.IntVal(1), n, n - 1)
        old = RaggedView.__dict__["get_shape"]
        RaggedView.get_shape = lambda self_: T.obj
        try:
            idx, shp = v.obj._get_flat_indices_fast()
        finally:
            RaggedView.get_shape = old
        ctx.prove("post.shape returned and marked as free of empty rows", z3.BoolVal(shp is T.obj and shp.empty_removed is True))
        ctx.prove("post.len==S'(n)", dim_term(idx.shape_[0]) == size)
        ps = ctx.ghost["prefix_sums"][-1]["ps"]
        sc = ctx.ghost["scatters"][-1]
        C = lambda j: ps(j + 1)
        Inv = lambda j: C(j) == VS(rho(j)) + j - S(rho(j))
        Z = z3.IntVal(0)
        r0 = rho(Z)
        ctx.prove_then_assume("base.lemma: position 0 lies in row 0", r0 == 0, pool=[Z, r0, r0 + 1, z3.IntVal(1), n])
        ctx.prove_then_assume("base: Inv(0)", Inv(Z), pool=[Z, z3.IntVal(1), r0, sc["wit"](Z), sc["wit"](Z) + 1])
        j = z3.Int("j")
        ctx.skolem(z3.And(0 <= j, j + 1 < size))
        ctx.assume(Inv(j))
        q, r = rho(j), rho(j + 1)
        w = sc["wit"](j + 1)
        same = q == r
        ctx.prove_then_assume("step.same-row.lemma: j+1 is no row start: B[j+1] == 1", z3.Implies(same, ps(j + 2) == ps(j + 1) + 1),
                              pool=[j, j + 1, j + 2, q, q + 1, w, w + 1, w + 2, Z])
        ctx.prove("step.same-row: Inv(j) => Inv(j+1)", z3.Implies(same, Inv(j + 1)), pool=[j, j + 1, q])
        ctx.prove_then_assume("step.next-row.lemma1: r == q+1 starts at j+1", z3.Implies(z3.Not(same), z3.And(r == q + 1, S(r) == j + 1)),
                              pool=[j, j + 1, q, q + 1, r, r + 1])
        ctx.prove_then_assume("step.next-row.lemma2: B[j+1] == start(r) - start(q) - L(q) + 1", z3.Implies(
            z3.Not(same), ps(j + 2) == ps(j + 1) + VS(r) - VS(q) - L(q) + 1), pool=[j + 1, j + 2, q, q + 1, r, r + 1, w, w + 1, w + 2, Z])
        ctx.prove("step.next-row: Inv(j) => Inv(j+1)", z3.Implies(z3.Not(same), Inv(j + 1)), pool=[j, j + 1, q, q + 1, r])
        ctx.assume_forall("Inv (by induction)", lambda t: z3.Implies(z3.And(0 <= t, t < size), Inv(t)))
        rr = T.row("row")
        c = z3.Int("c")
        ctx.skolem(z3.And(0 <= c, c < L(rr)))
        p = S(rr) + c
        ctx.prove_then_assume("post.lemma: rho(S'(r)+c) == r", rho(p) == rr, pool=[c, p, rr, rr + 1, rho(p), rho(p) + 1])
        ctx.prove("post.idx[S'(r)+c] == start(r) + c", idx.get(p) == VS(rr) + c, pool=[p, rr, c])

    def concrete(self, case):
        from npstructures.raggedshape import RaggedView
        ls = [l + 1 for l in case["lengths"]]
        if not ls:
            return None
        vs = [100 + 37 * i for i in range(len(ls))]
        v = RaggedView(np.array(vs), np.array(ls))
        v.empty_removed = True
        idx, _ = v.get_flat_indices()
        exp = [s + c for s, l in zip(vs, ls) for c in range(l)]
        if np.asarray(idx).tolist() != exp:
            return {"msg": f"_get_flat_indices_fast(starts={vs}, lengths={ls}) = {np.asarray(idx).tolist()}", "sig": "wrong:_get_flat_indices_fast"}

    def bounded_cases(self, tier, seed):
        from ..bounded.common import length_vectors
        for ls in length_vectors(4, 2, 1):
            yield {"lengths": ls}
