"""C18 bounded stand-in: every operation of small npdataclass tables against a tuple of numpy arrays that is
indexed / concatenated / compared field by field; VarLenArray concatenation against right-aligned, left-zero-padded
Python lists."""
import functools
import itertools
import numpy as np
from .common import import_repo, slices, dec_index, SLICE_BOUNDS, SLICE_STEPS

PROPERTY = "C18"
RULE = ("exhaustive: dataclasses with 1, 2 and 3 array fields (1-D and 2-D fields in every position; int64, float64, "
        "uint8, bool and str elements; every cell value distinct per field so that a misaligned row is visible) x common "
        "length 0..N x operation: construction (equal lengths accepted and len == that length; every tuple of unequal "
        "field lengths refused), indexing with every in-range integer (also negative, also numpy integer), every slice "
        "with start/stop/step from a small set, every integer list up to length 3 (repeats, negatives, unordered), "
        "every boolean mask (ndarray and list), iteration, np.concatenate of 1..3 objects with every combination of "
        "lengths, == against an equal copy / a copy differing in one cell of one field / a shorter, longer or "
        "broadcast-compatible object, astype to every narrower (subset, also reordered) class; VarLenArray "
        "concatenation for every tuple of up to 3 arrays with 0..2 rows and widths 1..3. "
        "non-trivial = the class has more than one field (or VarLenArray widths differ) and the case involves a length-0 "
        "table or operand, a negative / repeated / unordered / stepped selector, a partial mask, operands of different "
        "lengths, a difference confined to one cell, a reordered target class, or unequal field lengths")
BOUNDS = {
    "quick": {"classes": ["A1(x)", "A2(y:2-D)", "B(x,y:2-D float)", "YX(y:2-D,x)", "C(x,y:2-D,z float)",
                          "S(s:str,u:uint8,m:2-D bool)"],
              "length": "0..5", "slices": "bounds {None,-5,-3,-2,-1,0,1,2,3,5} x steps {None,1,2,3,-1,-2,-3}",
              "int lists": "length<=3 over -n..n-1 (n<=4); n=5: length<=2 over -n..n-1, length 3 over 0..n-1", "masks": "all 2^n, ndarray and list",
              "concatenate": "1..3 objects, lengths 0..4 each",
              "construct_bad": "field lengths 0..3, not all equal",
              "varlen": "1..3 arrays, rows 0..2, widths 1..3, dtypes int64/float64/uint8"},
    "thorough": {"classes": "as quick + D4(a,b:2-D,c,d:2-D width 1)", "length": "0..6",
                 "slices": "bounds {None,-8,-7,-5,-3,-2,-1,0,1,2,3,5,7,8} x steps {None,1,2,3,4,-1,-2,-3,-4}",
                 "int lists": "length<=3 over -n..n-1 (n<=5); n=6: length<=2 over -n..n-1, length 3 over 0..n-1", "masks": "all 2^n, ndarray and list",
                 "concatenate": "1..4 objects, lengths 0..4 each (0..3 for four objects)",
                 "construct_bad": "field lengths 0..4, not all equal",
                 "varlen": "1..4 arrays, rows 0..2, widths 1..4 (1..3 for four arrays)",
                 "random": "100000 cases: random class (1..5 fields, random dtype/width), length<=12, random operation"}}

# class name -> [(field name, dtype, width)] ; width 0 = 1-D field, width w>0 = 2-D field of shape (n, w)
CLASSES = {
    "A1": [["x", "int64", 0]],
    "A2": [["y", "int64", 2]],
    "Z": [["z", "float64", 0]],
    "B": [["x", "int64", 0], ["y", "float64", 3]],
    "YX": [["y", "int64", 2], ["x", "int64", 0]],
    "ZX": [["z", "float64", 0], ["x", "int64", 0]],
    "C": [["x", "int64", 0], ["y", "int64", 2], ["z", "float64", 0]],
    "ZYX": [["z", "float64", 0], ["y", "int64", 2], ["x", "int64", 0]],
    "S": [["s", "str", 0], ["u", "uint8", 0], ["m", "bool", 1]],
    "M": [["m", "bool", 1]],
    "US": [["u", "uint8", 0], ["s", "str", 0]],
    "D4": [["a", "int64", 0], ["b", "float64", 2], ["c", "uint8", 0], ["d", "int64", 1]],
    "DB": [["d", "int64", 1], ["b", "float64", 2]],
    "CA": [["c", "uint8", 0], ["a", "int64", 0]],
}
MAIN = ["A1", "A2", "B", "YX", "C", "S"]
NARROWER = {"A1": ["A1"], "A2": ["A2"], "B": ["A1", "YX", "B"], "YX": ["A1", "A2", "B", "YX"],
            "C": ["A1", "A2", "Z", "B", "YX", "ZX", "ZYX", "C"], "S": ["M", "US", "S"],
            "D4": ["DB", "CA", "D4"]}

T_SLICE_BOUNDS = [None, -8, -7, -5, -3, -2, -1, 0, 1, 2, 3, 5, 7, 8]
T_SLICE_STEPS = [None, 1, 2, 3, 4, -1, -2, -3, -4]


@functools.lru_cache(maxsize=2048)
def _make_class(name, spec):
    import_repo()
    from npstructures.npdataclasses import npdataclass
    base = type(name, (), {"__annotations__": {f: np.ndarray for f, _, _ in spec}})
    return npdataclass(base)


def get_class(case_or_name):
    """-> (class, spec)"""
    if isinstance(case_or_name, dict):
        name = case_or_name["cls"]
        spec = case_or_name.get("spec") or CLASSES[name]
    else:
        name, spec = case_or_name, CLASSES[case_or_name]
    spec = tuple((f, d, int(w)) for f, d, w in spec)
    return _make_class(name, spec), spec


def field_data(j, dtype, width, n, o=0, const=False):
    """field j of operand o with n rows: every cell distinct (within the dtype's means)"""
    shape = (n,) if width == 0 else (n, width)
    w = max(width, 1)
    cells = []
    for i in range(n):
        r = 0 if const else i
        for c in range(w):
            v = 1000 * (j + 1) + 100 * o + r * w + c + 1
            if dtype == "float64":
                cells.append(v + 0.5)
            elif dtype == "uint8":
                cells.append((17 * j + 50 * o + r * w + c + 1) % 256)
            elif dtype == "bool":
                cells.append((r + c + o + j) % 2 == 0)
            elif dtype == "str":
                cells.append(f"f{j}o{o}r{r}c{c}")
            else:
                cells.append(v)
    if dtype == "str":
        a = np.array(cells, dtype="U12") if cells else np.zeros(0, dtype="U12")
    else:
        a = np.array(cells, dtype=dtype)
    return a.reshape(shape)


def fields_for(spec, n, o=0, const=False):
    return [field_data(j, d, w, n, o, const) for j, (f, d, w) in enumerate(spec)]


def selectors(n, tier):
    thorough = tier == "thorough"
    sel = []
    for i in range(-n, n):
        sel.append(i)
        sel.append({"npint": i})
    sl = slices(T_SLICE_BOUNDS, T_SLICE_STEPS) if thorough else slices(SLICE_BOUNDS, SLICE_STEPS)
    sel += [{"slice": list(s)} for s in sl]
    maxlen_neg = (3 if n <= 5 else 2) if thorough else (3 if n <= 4 else 2)
    for k in range(0, maxlen_neg + 1):
        for combo in itertools.product(range(-n, n), repeat=k):
            sel.append({"list": list(combo)})
    if maxlen_neg < 3:
        for combo in itertools.product(range(n), repeat=3):
            sel.append({"list": list(combo)})
    for m in itertools.product([False, True], repeat=n):
        sel.append({"mask": list(m)})
        if n > 0:
            sel.append({"boollist": list(m)})
    return sel


def eq_variants(spec, n):
    out = ["same"]
    for j, (f, d, w) in enumerate(spec):
        for i in range(n):
            out.append({"diff": [j, i]})
    if n >= 1:
        out += ["shorter", "longer"]
    if n >= 2:
        out += ["bcast1", "bcast1r"]
    if n >= 1 and any(w and w >= 2 for _, _, w in spec):
        out += ["width1", "width1r"]
    return out


def varlen_shapes(max_arrays, max_rows, max_width):
    one = [(r, w) for r in range(max_rows + 1) for w in range(1, max_width + 1)]
    for k in range(1, max_arrays + 1):
        for combo in itertools.product(one, repeat=k):
            yield [list(s) for s in combo]


def cases(tier, seed):
    thorough = tier == "thorough"
    N = 6 if thorough else 5
    classes = MAIN + (["D4"] if thorough else [])
    for cls in classes:
        spec = CLASSES[cls]
        k = len(spec)
        for n in range(N + 1):
            yield {"op": "construct", "cls": cls, "n": n}
            yield {"op": "iter", "cls": cls, "n": n}
            for s in selectors(n, tier):
                yield {"op": "getitem", "cls": cls, "n": n, "sel": s}
            for v in eq_variants(spec, n):
                yield {"op": "eq", "cls": cls, "n": n, "variant": v}
            for t in NARROWER[cls]:
                yield {"op": "astype", "cls": cls, "n": n, "target": t}
        if k > 1:
            L = 4 if thorough else 3
            for lens in itertools.product(range(L + 1), repeat=k):
                if len(set(lens)) > 1:
                    yield {"op": "construct_bad", "cls": cls, "lens": list(lens)}
        for cnt in range(1, (4 if thorough else 3) + 1):
            top = 3 if cnt == 4 else 4
            for ns in itertools.product(range(top + 1), repeat=cnt):
                yield {"op": "concat", "cls": cls, "ns": list(ns)}
    for dt in ("int64", "float64", "uint8"):
        if thorough:
            for shapes in varlen_shapes(3, 2, 4):
                yield {"op": "varlen", "shapes": shapes, "dtype": dt}
            for shapes in varlen_shapes(4, 2, 3):
                if len(shapes) == 4:
                    yield {"op": "varlen", "shapes": shapes, "dtype": dt}
        else:
            for shapes in varlen_shapes(3, 2, 3):
                yield {"op": "varlen", "shapes": shapes, "dtype": dt}
    if thorough:
        rng = np.random.default_rng(seed)
        dts = ["int64", "float64", "uint8", "bool", "str"]
        for _ in range(100000):
            k = int(rng.integers(1, 6))
            spec = [[f"f{j}", dts[int(rng.integers(0, 5))], int(rng.choice([0, 0, 1, 2, 3]))] for j in range(k)]
            n = int(rng.integers(0, 13))
            base = {"cls": "R%d" % k, "spec": spec}
            kind = int(rng.integers(0, 7))
            if kind == 0:
                sk = int(rng.integers(0, 4))
                if sk == 0 and n > 0:
                    s = int(rng.integers(-n, n))
                elif sk == 1:
                    def rb():
                        return None if rng.random() < 0.3 else int(rng.integers(-15, 16))
                    s = {"slice": [rb(), rb(), None if rng.random() < 0.3 else int(rng.choice([1, 2, 3, 5, -1, -2, -3, -5]))]}
                elif sk == 2 and n > 0:
                    s = {"list": [int(x) for x in rng.integers(-n, n, size=int(rng.integers(0, 8)))]}
                else:
                    s = {"mask": [bool(x) for x in rng.integers(0, 2, size=n)]}
                yield dict(base, op="getitem", n=n, sel=s)
            elif kind == 1:
                yield dict(base, op="iter", n=n)
            elif kind == 2:
                yield dict(base, op="concat", ns=[int(x) for x in rng.integers(0, 8, size=int(rng.integers(1, 6)))])
            elif kind == 3:
                vs = eq_variants(spec, n)
                yield dict(base, op="eq", n=n, variant=vs[int(rng.integers(0, len(vs)))])
            elif kind == 4:
                keep = [int(j) for j in rng.permutation(k)[:int(rng.integers(1, k + 1))]]
                yield dict(base, op="astype", n=n, target="T%d" % len(keep), target_spec=[spec[j] for j in keep])
            elif kind == 5 and k > 1:
                lens = [int(x) for x in rng.integers(0, 6, size=k)]
                if len(set(lens)) == 1:
                    lens[int(rng.integers(0, k))] += 1
                yield dict(base, op="construct_bad", lens=lens)
            else:
                cnt = int(rng.integers(1, 6))
                yield {"op": "varlen", "dtype": ["int64", "float64", "uint8"][int(rng.integers(0, 3))],
                       "shapes": [[int(rng.integers(0, 5)), int(rng.integers(1, 7))] for _ in range(cnt)]}


def nontrivial(case):
    op = case["op"]
    if op == "varlen":
        return len({w for r, w in case["shapes"]}) > 1
    spec = case.get("spec") or CLASSES[case["cls"]]
    if len(spec) < 2:
        return False
    if op == "construct_bad":
        return True
    if op == "concat":
        ns = case["ns"]
        return 0 in ns or len(set(ns)) > 1
    n = case["n"]
    if n == 0:
        return True
    if op == "getitem":
        s = case["sel"]
        if isinstance(s, int):
            return s < 0
        if "npint" in s:
            return s["npint"] < 0
        if "slice" in s:
            a, b, st = s["slice"]
            return st not in (None, 1) or any(x is not None and (x < 0 or x > n) for x in (a, b))
        if "list" in s:
            l = s["list"]
            return len(l) == 0 or any(x < 0 for x in l) or any(x >= y for x, y in zip(l, l[1:]))
        m = s.get("mask", s.get("boollist"))
        return not all(m)
    if op == "eq":
        return case["variant"] != "same"
    if op == "astype":
        tspec = case.get("target_spec") or CLASSES[case["target"]]
        names = [f for f, _, _ in spec]
        pos = [names.index(f) for f, _, _ in tspec]
        return pos != sorted(pos) or len(tspec) < len(spec)
    return False        # construct / iter on a non-empty table


# ---------------------------------------------------------------------------------------------


def _same(got, exp):
    """values and shape (dtype is not part of the statement)"""
    try:
        g = np.asarray(got)
    except Exception:
        return False
    e = np.asarray(exp)
    if g.shape != e.shape:
        return False
    if e.size == 0:
        return True
    if e.dtype.kind in "US" or g.dtype.kind in "US":
        return g.dtype.kind == e.dtype.kind and g.tolist() == e.tolist()
    return g.tolist() == e.tolist()


def _show(fields):
    return [np.asarray(f).tolist() for f in fields]


def _decode_sel(s):
    if isinstance(s, dict):
        if "npint" in s:
            return np.int64(s["npint"])
        if "boollist" in s:
            return [bool(x) for x in s["boollist"]]
        if "list" in s:
            return [int(x) for x in s["list"]]
    return dec_index(s)


def _sel_sig(s):
    if isinstance(s, int):
        return "int" + ("-" if s < 0 else "+")
    if "npint" in s:
        return "npint" + ("-" if s["npint"] < 0 else "+")
    if "slice" in s:
        st = s["slice"][2]
        return "slice" + ("-" if st is not None and st < 0 else "+")
    if "list" in s:
        return "list" if s["list"] else "list-empty"
    return next(iter(s))


def _table_mismatch(res, cls, spec, exp_fields, exp_len):
    """-> None | (what, text) comparing an npdataclass result with the expected tuple of arrays"""
    if not isinstance(res, cls):
        return "class", f"result is a {type(res).__name__}, expected {cls.__name__}"
    try:
        ln = len(res)
    except Exception as e:
        return "len", f"len(result) raised {type(e).__name__}: {e}"
    if ln != exp_len:
        return "len", f"len(result)={ln}, expected {exp_len}"
    for (f, d, w), e in zip(spec, exp_fields):
        g = getattr(res, f)
        if not _same(g, e):
            return "field", f"field {f}: expected {np.asarray(e).tolist()}, got {np.asarray(g).tolist()}"
    return None


def check(case):
    import_repo()
    op = case["op"]
    if op == "varlen":
        return _check_varlen(case)
    cls, spec = get_class(case)
    k = len(spec)
    ck = f"k{min(k, 3)}"
    head = f"{case['cls']}{[tuple(s) for s in spec]}"

    if op == "construct_bad":
        lens = case["lens"]
        assert len(lens) == k and len(set(lens)) > 1
        fields = [field_data(j, d, w, lens[j]) for j, (f, d, w) in enumerate(spec)]
        try:
            obj = cls(*fields)
        except Exception:
            return None
        which = "first-longest" if lens[0] == max(lens) else "first-not-longest"
        return {"msg": f"{head}: construction with field lengths {lens} was not refused (len(result)={_safe_len(obj)})",
                "sig": f"not-refused:construct:{ck}:{which}"}

    if op == "concat":
        ns = case["ns"]
        parts = [fields_for(spec, n, o) for o, n in enumerate(ns)]
        try:
            objs = [cls(*p) for p in parts]
        except Exception as e:
            return {"msg": f"{head}: construction with equal lengths raised {type(e).__name__}: {e}",
                    "sig": f"raised:{type(e).__name__}:construct:{ck}"}
        exp = [np.concatenate([p[j] for p in parts]) for j in range(k)]
        kind = ("single" if len(ns) == 1 else "multi") + ("-empty" if 0 in ns else "")
        try:
            res = np.concatenate(objs)
        except Exception as e:
            return {"msg": f"{head}: np.concatenate of objects with lengths {ns} raised {type(e).__name__}: {e}",
                    "sig": f"raised:{type(e).__name__}:concat:{ck}:{kind}"}
        bad = _table_mismatch(res, cls, spec, exp, sum(ns))
        if bad:
            return {"msg": f"{head}: np.concatenate of objects with lengths {ns}: {bad[1]}",
                    "sig": f"wrong:concat:{bad[0]}:{ck}:{kind}"}
        return None

    n = case["n"]
    fields = fields_for(spec, n)
    keep = [f.copy() for f in fields]
    try:
        obj = cls(*fields)
    except Exception as e:
        return {"msg": f"{head}: construction with equal lengths {n} raised {type(e).__name__}: {e}",
                "sig": f"raised:{type(e).__name__}:construct:{ck}"}
    ek = "empty" if n == 0 else "nonempty"

    if op == "construct":
        bad = _table_mismatch(obj, cls, spec, keep, n)
        if bad:
            return {"msg": f"{head}: table constructed with {n} rows: {bad[1]}", "sig": f"wrong:construct:{bad[0]}:{ck}:{ek}"}
        return None

    if op == "iter":
        try:
            entries = list(obj)
        except Exception as e:
            return {"msg": f"{head} n={n}: iteration raised {type(e).__name__}: {e}", "sig": f"raised:{type(e).__name__}:iter:{ck}:{ek}"}
        if len(entries) != n:
            return {"msg": f"{head} n={n}: iteration yields {len(entries)} entries", "sig": f"wrong:iter:count:{ck}:{ek}"}
        for t, ent in enumerate(entries):
            for (f, d, w), col in zip(spec, keep):
                try:
                    g = getattr(ent, f)
                except Exception as e:
                    return {"msg": f"{head} n={n}: entry {t} of the iteration has no field {f}: {ent!r}",
                            "sig": f"wrong:iter:entry-shape:{ck}"}
                if not _same(g, col[t]):
                    return {"msg": f"{head} n={n}: entry {t} of the iteration, field {f}: expected {col[t].tolist()}, "
                                   f"got {np.asarray(g).tolist()}", "sig": f"wrong:iter:field:{ck}"}
            try:
                direct = obj[t]
                for (f, d, w) in spec:
                    if not _same(getattr(ent, f), getattr(direct, f)):
                        return {"msg": f"{head} n={n}: entry {t} of the iteration differs from obj[{t}] in field {f}",
                                "sig": f"wrong:iter:vs-getitem:{ck}"}
            except Exception as e:
                return {"msg": f"{head} n={n}: obj[{t}] raised {type(e).__name__}: {e}",
                        "sig": f"raised:{type(e).__name__}:getitem:int+:{ck}"}
        return None

    if op == "getitem":
        s = case["sel"]
        sel = _decode_sel(s)
        ss = _sel_sig(s)
        exp = [f[sel] for f in keep]          # oracle: numpy indexing, field by field (in-range selectors only)
        try:
            res = obj[sel]
        except Exception as e:
            return {"msg": f"{head} n={n}: obj[{s}] raised {type(e).__name__}: {e}", "sig": f"raised:{type(e).__name__}:getitem:{ss}:{ck}:{ek}"}
        if isinstance(s, int) or "npint" in s:
            for (f, d, w), e in zip(spec, exp):
                try:
                    g = getattr(res, f)
                except Exception:
                    return {"msg": f"{head} n={n}: obj[{s}] has no field {f}: {res!r}", "sig": f"wrong:getitem:entry-shape:{ss}:{ck}"}
                if not _same(g, e):
                    return {"msg": f"{head} n={n}: obj[{s}] field {f}: expected {np.asarray(e).tolist()}, got "
                                   f"{np.asarray(g).tolist()}; fields={_show(keep)}", "sig": f"wrong:getitem:field:{ss}:{ck}"}
            return None
        bad = _table_mismatch(res, cls, spec, exp, len(exp[0]))
        if bad:
            return {"msg": f"{head} n={n}: obj[{s}]: {bad[1]}; fields={_show(keep)}", "sig": f"wrong:getitem:{bad[0]}:{ss}:{ck}:{ek}"}
        return None

    if op == "eq":
        v = case["variant"]
        if v == "same":
            other = [f.copy() for f in keep]
        elif v == "shorter":
            other = fields_for(spec, n - 1)
        elif v == "longer":
            other = fields_for(spec, n + 1)
        elif v in ("width1", "width1r"):
            # same number of entries, but a 2-D field of width 1 against width w whose rows are constant: numpy would broadcast
            fields = [f.copy() for f in keep]
            other = [f.copy() for f in keep]
            for j, (fname, d, w) in enumerate(spec):
                if w and w >= 2:
                    first = fields[j][:, :1].copy()
                    fields[j] = np.repeat(first, w, axis=1)
                    other[j] = first
            keep = [f.copy() for f in fields]
            obj = cls(*fields)
        elif v in ("bcast1", "bcast1r"):
            # a one-row table against an n-row table whose rows are all equal to that row: numpy would broadcast
            fields = fields_for(spec, n, const=True)
            keep = [f.copy() for f in fields]
            obj = cls(*fields)
            other = fields_for(spec, 1, const=True)
        else:
            j, i = v["diff"]
            other = [f.copy() for f in keep]
            col = other[j]
            cell = (i,) if col.ndim == 1 else (i, col.shape[1] - 1)
            alt = fields_for(spec, n, o=3)[j]
            col[cell] = alt[cell] if alt[cell] != col[cell] else ~col[cell]
            assert col[cell] != keep[j][cell]
        exp = all(a.shape == b.shape and a.tolist() == b.tolist() for a, b in zip(keep, other))
        vk = v if isinstance(v, str) else ("diff-last-field" if v["diff"][0] == k - 1 else "diff-earlier-field")
        try:
            o2 = cls(*other)
            left, right = (o2, obj) if v in ("bcast1r", "width1r") else (obj, o2)
            res = left == right
            res = bool(res)
        except Exception as e:
            return {"msg": f"{head} n={n}: == ({v}) raised {type(e).__name__}: {e}", "sig": f"raised:{type(e).__name__}:eq:{vk}:{ck}:{ek}"}
        if res != exp:
            return {"msg": f"{head} n={n}: == ({v}) of {_show(keep)} and {_show(other)} expected {exp}, got {res}",
                    "sig": f"wrong:eq:{vk}:{ck}:{ek}"}
        return None

    if op == "astype":
        tspec = case.get("target_spec") or CLASSES[case["target"]]
        tcls, tspec = get_class({"cls": case["target"], "spec": tspec})
        names = [f for f, _, _ in spec]
        exp = [keep[names.index(f)] for f, _, _ in tspec]
        pos = [names.index(f) for f, _, _ in tspec]
        tk = ("reordered" if pos != sorted(pos) else "ordered") + ("-same-width" if len(tspec) == k else "-narrower")
        try:
            res = obj.astype(tcls)
        except Exception as e:
            return {"msg": f"{head} n={n}: astype({case['target']}{[f for f, _, _ in tspec]}) raised {type(e).__name__}: {e}",
                    "sig": f"raised:{type(e).__name__}:astype:{tk}:{ek}"}
        bad = _table_mismatch(res, tcls, tspec, exp, n)
        if bad:
            return {"msg": f"{head} n={n}: astype({case['target']}{[f for f, _, _ in tspec]}): {bad[1]}",
                    "sig": f"wrong:astype:{bad[0]}:{tk}:{ek}"}
        return None
    raise ValueError(op)


def _safe_len(x):
    try:
        return len(x)
    except Exception as e:
        return f"<{type(e).__name__}>"


def _check_varlen(case):
    from npstructures.npdataclasses import VarLenArray
    shapes, dt = case["shapes"], case["dtype"]
    rows_all, arrays, v = [], [], 1
    for r, w in shapes:
        rows = []
        for _ in range(r):
            rows.append([(v + c) % 251 + 1 for c in range(w)])      # never zero: padding stays visible
            v += w
        rows_all.append(rows)
        arrays.append(np.array(rows, dtype=dt).reshape(r, w))
    maxw = max(w for r, w in shapes)
    exp = [[0] * (maxw - len(row)) + row for rows in rows_all for row in rows]
    widths = {w for r, w in shapes}
    kind = ("equal-widths" if len(widths) == 1 else "mixed-widths") + ("-empty-operand" if any(r == 0 for r, w in shapes) else "")
    try:
        res = np.concatenate(tuple(VarLenArray(a) for a in arrays))
    except Exception as e:
        return {"msg": f"VarLenArray concatenate of shapes {shapes} ({dt}) raised {type(e).__name__}: {e}",
                "sig": f"raised:{type(e).__name__}:varlen:{kind}"}
    if not isinstance(res, VarLenArray):
        return {"msg": f"VarLenArray concatenate of shapes {shapes} returned a {type(res).__name__}", "sig": f"wrong:varlen:class:{kind}"}
    got = np.asarray(res.array)
    if got.shape != (len(exp), maxw):
        return {"msg": f"VarLenArray concatenate of shapes {shapes} ({dt}): result shape {got.shape}, expected {(len(exp), maxw)}",
                "sig": f"wrong:varlen:shape:{kind}"}
    if got.tolist() != exp:
        return {"msg": f"VarLenArray concatenate of {[a.tolist() for a in arrays]} ({dt}): expected {exp}, got {got.tolist()}",
                "sig": f"wrong:varlen:values:{kind}"}
    return None
