"""SpecRagged: a contract-level stand-in for a RaggedArray operand.

The run-length classes of C15 / C17 are written against the RaggedArray API (`x[:, -1]`, `x[:, :-1]`, `x + column`, `x.ravel()`,
`x[..., 0] = v`, ...).  Executing the real RaggedArray machinery underneath every such call explodes into hundreds of paths whose
infeasibility needs the lemmas of the C01-C06 families.  Modular verification does not do that: the caller is checked against the
callee's CONTRACT.  A SpecRagged *is* those contracts: n rows, L(r) cells in row r, cell(r, c), and every operation returns the value the
proved contract of the real operation prescribes, with the real operation's refusal conditions as `pre(...)` obligations at the call site:

  operation                       contract used (proved in)                                            precondition obligation
  x[:, j]   (integer column)      cell (r, j mod L(r)) of every row (col_slice[int], _get_element)      every row has that column
  x[:, a:b:s]                     row r = row[a:b:s] by CPython's slice rule (col_slice[slice])          -
  x (+) scalar / column / y       cell-wise U in operand order, column entry r for row r                 same row lengths for y
                                  (RaggedArray.__array_ufunc__, broadcast_values / _raw_broadcast)
  x.ravel()                       flat[S(r) + c] = cell(r, c), S = prefix sums of L  (RaggedArray.readers, RaggedShape.__init__)
  x[..., j] = v                   cell (r, j mod L(r)) := v / v[r], all other cells unchanged            every row has that column
                                  (__setitem__, _set_data_range)
  len / lengths / starts / size   the geometry (RaggedShape.__init__)

SpecRagged is audited against the real RaggedArray on small concrete arrays by vf/audit.py (same harness as the numpy contracts), so a
mismatch between this table and the real class shows up as an audit failure."""
import numbers

import numpy as np
import z3

from ..sym.core import SInt, SBool, cur, fresh_name, Unsupported
from ..sym.arr import SymArr, SElem, I, dim_term, pyslice, apply_binary, apply_unary, coerce_term, kind_of_term, scalar_term, as_operand


class SpecShape:
    def __init__(self, n, L, name="spec"):
        c = cur()
        self.n = dim_term(n) if not z3.is_expr(n) else n
        self.L = L
        S = z3.Function(fresh_name(name + "_S"), z3.IntSort(), z3.IntSort())
        self.S = S
        n_ = self.n
        # S = exclusive prefix sums of L (definition) and its proved consequences (lemmas PS-monotone, PS-nonneg)
        c.assume(S(0) == 0)
        c.assume_forall(name + ".S.step", lambda r: z3.Implies(z3.And(0 <= r, r < n_), z3.And(S(r + 1) == S(r) + L(r), L(r) >= 0)))
        c.assume_forall(name + ".S.mono", lambda a, b: z3.Implies(z3.And(0 <= a, a <= b, b <= n_), S(a) <= S(b)), arity=2)
        c.assume_forall(name + ".S>=0", lambda r: z3.Implies(z3.And(0 <= r, r <= n_), S(r) >= 0))
        # every flat position lies in exactly one row (lemma partition-point)
        rowof = z3.Function(fresh_name(name + "_rowof"), z3.IntSort(), z3.IntSort())
        self.rowof = rowof
        c.assume_forall(name + ".rowof", lambda j: z3.Implies(z3.And(0 <= j, j < S(n_)), z3.And(0 <= rowof(j), rowof(j) < n_, S(rowof(j)) <= j, j < S(rowof(j) + 1))))
        c.add_index(z3.IntVal(0), n_)

    @property
    def n_rows(self):
        return SInt(self.n)

    @property
    def lengths(self):
        return SymArr.fresh((self.n,), lambda r: self.L(r), "int", np.int64)

    @property
    def starts(self):
        return SymArr.fresh((self.n,), lambda r: self.S(r), "int", np.int64)

    @property
    def ends(self):
        return SymArr.fresh((self.n,), lambda r: self.S(r) + self.L(r), "int", np.int64)

    @property
    def size(self):
        return SInt(self.S(self.n))


def _ragged_base():
    from npstructures import RaggedArray
    return RaggedArray


def same_geometry(a, b, what):
    """call-site obligation: the two geometries have the same number of rows and the same row lengths; afterwards (lemma same-lengths=>same-starts,
    proved in vf.proofs.lemmas, and uniqueness of the row containing a flat position) their starts and row-of-position functions coincide"""
    if a is b:
        return
    c = cur()
    r0 = z3.Int(fresh_name("pre_r"))
    c.prove(f"pre({what}): same number of rows and same row lengths", z3.And(a.n == b.n, z3.Implies(z3.And(0 <= r0, r0 < a.n), a.L(r0) == b.L(r0))),
            kind="pre", pool=[r0])
    c.assume(a.n == b.n)
    c.assume_forall("same lengths => same starts", lambda r: z3.Implies(z3.And(0 <= r, r <= a.n), a.S(r) == b.S(r)))
    c.assume_forall("same lengths => same row of a flat position", lambda j: z3.Implies(z3.And(0 <= j, j < a.S(a.n)), a.rowof(j) == b.rowof(j)))


class _SpecRaggedMixin:
    """see the module docstring; mixed into a subclass of the real RaggedArray (so that `isinstance(x, RaggedArray)` dispatch in the callers takes
    the ragged branch) that overrides every operation the callers use; an operation that is not overridden fails on the missing data buffer and
    is reported as an engine error, never as a proof"""

    def __init__(self, shape, cell, kind, dtype, name="spec"):
        self._shape, self.cell, self.kind, self._dtype, self.name = shape, cell, kind, np.dtype(dtype), name
        self.writes = 0
        self.is_contigous = True
        self._safe_mode = True

    @property
    def dtype(self):
        return self._dtype

    # -- geometry ---------------------------------------------------------------------------
    def __len__(self):
        return SInt(self._shape.n)

    @property
    def shape(self):
        return (SInt(self._shape.n), self._shape.lengths)

    @property
    def lengths(self):
        return self._shape.lengths

    @property
    def size(self):
        return self._shape.size

    @property
    def ndim(self):
        return 2

    def _require_column(self, j, what):
        c = cur()
        sh = self._shape
        r0 = z3.Int(fresh_name("pre_r"))
        jt = I(j)
        c.prove(f"pre({what}): every row has column {j}", z3.Implies(z3.And(0 <= r0, r0 < sh.n), z3.And(-sh.L(r0) <= jt, jt < sh.L(r0))),
                kind="pre", pool=[r0, r0 + 1])

    def _col(self, j, r):
        jt = I(j)
        return z3.If(jt < 0, jt + self._shape.L(r), jt)

    def ravel(self):
        sh = self._shape
        cell, kind = self.cell, self.kind
        flat = SymArr.fresh((sh.S(sh.n),), lambda j: cell(sh.rowof(j), j - sh.S(sh.rowof(j))), kind, self.dtype)
        flat.spec = self
        return flat

    def nonzero(self):
        """contract of RaggedArray.nonzero (proved: RaggedArray.nonzero/contract.*): coordinates of the truthy cells in flat order"""
        from .structural import contract_ragged_nonzero
        c = cur()
        sh, cell, kind = self._shape, self.cell, self.kind
        M = lambda j: coerce_term(cell(sh.rowof(j), j - sh.S(sh.rowof(j))), "bool")
        cnt = z3.Int(fresh_name("nzcnt"))
        pos = z3.Function(fresh_name("nzpos"), z3.IntSort(), z3.IntSort())
        rk = z3.Function(fresh_name("nzrk"), z3.IntSort(), z3.IntSort())
        rows = SymArr.symbolic("nzrows", cnt, "int", np.int64, assume_len=False)
        cols = SymArr.symbolic("nzcols", cnt, "int", np.int64, assume_len=False)

        class G:
            pass
        g = G()
        g.n, g.S, g.L = sh.n, sh.S, sh.L
        ground, schemas = contract_ragged_nonzero(g, M, rows.fn, cols.fn, cnt, pos, rk)
        for f in ground:
            c.assume(f)
        for nm, fn, ar in schemas:
            c.assume_forall(nm, fn, arity=ar)
        c.ghost.setdefault("spec_nonzeros", []).append({"M": M, "cnt": cnt, "pos": pos, "rk": rk, "rows": rows, "cols": cols, "spec": self})
        return rows, cols

    def astype(self, dtype):
        from ..sym.arr import sort_of_dtype
        dtype = np.dtype(dtype)
        nk = sort_of_dtype(dtype)
        cell = self.cell
        if self.kind == "elem" and nk == "elem" and dtype != self._dtype:
            from ..sym.arr import UF, ElemSort
            cast = UF("cast_" + dtype.name, ElemSort, ElemSort)       # same uninterpreted cast as SymArr.astype
            return SpecRagged(self._shape, lambda r, c_: cast(cell(r, c_)), "elem", dtype, f"astype({self.name})")
        if nk == self.kind:
            return SpecRagged(self._shape, self.cell, self.kind, dtype, self.name)
        return SpecRagged(self._shape, lambda r, c_: coerce_term(cell(r, c_), nk), nk, dtype, f"astype({self.name})")

    def __repr__(self):
        return f"SpecRagged({self.name})"

    __str__ = __repr__

    # -- reading ----------------------------------------------------------------------------
    def __getitem__(self, idx):
        if idx is Ellipsis or (isinstance(idx, slice) and idx == slice(None)):
            return self
        if isinstance(idx, SpecRagged):
            # boolean ragged mask of the same geometry: the selected cells in flat (row-major) order  (IndexableArray.__getitem__ / subset contract)
            c = cur()
            if idx.kind != "bool":
                raise Unsupported("SpecRagged indexed by a non-boolean ragged array")
            same_geometry(self._shape, idx._shape, "mask indexing")
            from ..sym.arr import mask_gather
            return mask_gather(self.ravel(), idx.ravel())
        if not isinstance(idx, tuple):
            raise Unsupported(f"SpecRagged row selection {type(idx).__name__}")
        idx = tuple(i for i in idx)
        if len(idx) == 2 and all(isinstance(e, (SymArr, np.ndarray)) and getattr(e, "ndim", 0) == 1 for e in idx):
            idx = tuple(e if isinstance(e, SymArr) else as_operand(e)[1] for e in idx)
        if len(idx) == 2 and isinstance(idx[0], SymArr) and isinstance(idx[1], SymArr) and idx[0].kind == "int" and idx[1].kind == "int":
            # x[rows, cols] with two index vectors: the cells (rows[t], cols[t]) (contract of _get_element); every pair must name an existing cell
            ra_, ca_ = idx
            c = cur()
            sh, cell = self._shape, self.cell
            hook = c.ghost.get("before_pair_gather")
            if hook is not None:
                hook(c)                      # the caller's proof script may state lemmas (as obligations of their own) needed for the precondition
            t0 = z3.Int(fresh_name("pre_t"))
            rs, cs = ra_.snapshot(), ca_.snapshot()
            k = dim_term(ra_.shape_[0])
            c.prove("pre(x[rows, cols]): as many columns as rows, every pair names an existing cell",
                    z3.And(dim_term(ca_.shape_[0]) == k, z3.Implies(z3.And(0 <= t0, t0 < k), z3.And(0 <= rs(t0), rs(t0) < sh.n, 0 <= cs(t0), cs(t0) < sh.L(rs(t0))))),
                    kind="pre", pool=[t0] + list(cur().ghost.get("pool_for_pair_gather", lambda t_: [])(t0)))
            return SymArr.fresh((k,), lambda t: cell(rs(t), cs(t)), self.kind, self._dtype)
        if len(idx) == 2 and (idx[0] is Ellipsis or (isinstance(idx[0], slice) and idx[0] == slice(None))):
            col = idx[1]
        elif len(idx) == 2 and idx[1] is Ellipsis:
            raise Unsupported("SpecRagged row selection")
        else:
            raise Unsupported(f"SpecRagged index {idx!r}")
        sh, cell = self._shape, self.cell
        if isinstance(col, (numbers.Integral, np.integer, SInt)):
            self._require_column(col, f"{self.name}[:, {col}]")
            return SymArr.fresh((sh.n,), lambda r: cell(r, self._col(col, r)), self.kind, self.dtype)
        if hasattr(col, "start") and hasattr(col, "stop"):
            a, b, s = col.start, col.stop, col.step

            def parts(r):
                return pyslice(SInt(sh.L(r)), a, b, s)
            L2 = lambda r: I(parts(r)[1])
            shp2 = SpecShape(sh.n, L2, self.name + "_cols")
            return SpecRagged(shp2, lambda r, c_: cell(r, I(parts(r)[0]) + c_ * I(parts(r)[2])), self.kind, self.dtype, self.name + "_cols")
        raise Unsupported(f"SpecRagged column selector {type(col).__name__}")

    # -- ufuncs -----------------------------------------------------------------------------
    def _reduce_rows(self, ufunc, keepdims=False):
        """contract of RaggedArray._reduce along the rows (proved in RaggedArray._reduce): row r gives U(identity, fold of the row), the identity for
        an empty row; fold is the left fold of the assumed reduceat contract over the flat data"""
        from ..sym.theory import fold_fn, identity_term
        name = ufunc.__name__
        if ufunc.identity is None:
            if name not in ("maximum", "minimum") or self.kind != "int":
                raise Unsupported("SpecRagged row reduction with a ufunc without identity (other than max / min of integers)")
            # max / min of every (non-empty: call-site obligation) row, witness form: an upper (lower) bound of the row that is attained
            sh, cell = self._shape, self.cell
            c = cur()
            r0 = z3.Int(fresh_name("pre_r"))
            c.prove(f"pre({name}.reduce along the rows): every row is non-empty", z3.Implies(z3.And(0 <= r0, r0 < sh.n), sh.L(r0) >= 1), kind="pre", pool=[r0])
            ext = z3.Function(fresh_name("rowext"), z3.IntSort(), z3.IntSort())
            at = z3.Function(fresh_name("rowext_at"), z3.IntSort(), z3.IntSort())
            cmp_ = (lambda a_, b_: a_ <= b_) if name == "maximum" else (lambda a_, b_: a_ >= b_)
            c.assume_forall(name + ".rows.bound", lambda r, k: z3.Implies(z3.And(0 <= r, r < sh.n, 0 <= k, k < sh.L(r)), cmp_(cell(r, k), ext(r))), arity=2)
            c.assume_forall(name + ".rows.attained", lambda r: z3.Implies(z3.And(0 <= r, r < sh.n), z3.And(0 <= at(r), at(r) < sh.L(r), cell(r, at(r)) == ext(r))))
            res = SymArr.fresh((sh.n,), lambda r: ext(r), "int", self._dtype)
            cur().ghost.setdefault("spec_extrema", []).append({"ext": ext, "at": at, "spec": self, "name": name})
            return res[:, None] if keepdims else res
        sh = self._shape
        flat = self.ravel()
        fold = fold_fn(name, flat)
        k = kind_of_term(fold(z3.IntVal(0), z3.IntVal(1)))
        ident = identity_term(ufunc, k)
        res = SymArr.fresh((sh.n,), lambda r: z3.If(sh.L(r) > 0, apply_binary(name, ident, fold(sh.S(r), sh.S(r) + sh.L(r))), ident), k,
                           np.dtype(bool) if k == "bool" else (np.dtype(np.int64) if self.kind == "bool" else self._dtype))
        res.row_fold = {"fold": fold, "flat": flat, "spec": self}
        cur().ghost.setdefault("spec_reductions", []).append(res.row_fold)
        return res[:, None] if keepdims else res

    def __array_ufunc__(self, ufunc, method, *inputs, **kwargs):
        if method == "reduce" and kwargs.get("axis", 0) in (-1, 1) and inputs[0] is self:
            return self._reduce_rows(ufunc, keepdims=kwargs.get("keepdims", False))
        if method != "__call__" or kwargs:
            raise Unsupported(f"SpecRagged ufunc method {method}")
        name = ufunc.__name__
        sh = self._shape
        c = cur()
        ops = []
        for x in inputs:
            if isinstance(x, SpecRagged):
                same_geometry(sh, x._shape, "ufunc")
                ops.append(x.cell)
                continue
            o = as_operand(x)
            if o[0] == "scalar":
                t = o[1]
                ops.append(lambda r, c_, t=t: t)
                continue
            arr = o[1]
            if arr.ndim == 2:
                c.prove("pre(ufunc): the array operand is an (n_rows, 1) column", z3.And(dim_term(arr.shape_[0]) == sh.n, dim_term(arr.shape_[1]) == 1), kind="pre")
                snap = arr.snapshot()
                ops.append(lambda r, c_, snap=snap: snap(r, z3.IntVal(0)))
            else:
                raise Unsupported("SpecRagged ufunc with a 1-D array operand (numpy would broadcast it along the rows)")
        ab = c.ghost.get("div_abstraction")
        if name == "floor_divide" and len(ops) == 2 and ab is not None and not isinstance(inputs[1], SpecRagged) \
                and as_operand(inputs[1])[0] == "scalar" and ab["divisor"].eq(z3.simplify(as_operand(inputs[1])[1])):
            # division by the registered symbolic positive divisor in factored form (see sym.arr.div_abstraction); bound when the operation is made
            DIV = ab["DIV"]
            f = lambda r, c_: DIV(ops[0](r, c_))
        elif len(ops) == 1:
            f = lambda r, c_: apply_unary(name, ops[0](r, c_))
        else:
            f = lambda r, c_: apply_binary(name, ops[0](r, c_), ops[1](r, c_))
        probe = f(z3.IntVal(0), z3.IntVal(0))
        k = kind_of_term(probe)
        dt = np.dtype(bool) if k == "bool" else self.dtype
        return SpecRagged(sh, f, k, dt, f"{name}({self.name})")

    def __array_function__(self, func, types, args, kwargs):
        name = getattr(func, "__name__", "")
        if name in ("ones_like", "zeros_like", "empty_like") and args and args[0] is self:
            dtype = np.dtype(kwargs.get("dtype") or self._dtype)
            if dtype == np.dtype(bool):
                val, kind = z3.BoolVal(name == "ones_like"), "bool"
            elif dtype.kind in "iu":
                val, kind = z3.IntVal(1 if name == "ones_like" else 0), "int"
            else:
                raise Unsupported(f"SpecRagged {name} with dtype {dtype}")
            return SpecRagged(self._shape, lambda r, c_: val, kind, dtype, f"{name}({self.name})")
        if name == "nonzero" and args and args[0] is self:
            return self.nonzero()
        if name in ("sum", "any", "all", "max", "min", "prod", "amax", "amin"):
            # np.<reduction>(x, axis=-1): the real dispatch (RaggedArray.__array_function__ -> x.<name>(...) -> reduction wrapper -> ufunc.reduce),
            # which ends in __array_ufunc__(..., "reduce") above
            return _ragged_base().__array_function__(self, func, types, args, kwargs)
        raise Unsupported(f"SpecRagged array function {name}")

    # -- writing ----------------------------------------------------------------------------
    def __setitem__(self, idx, value):
        if not (isinstance(idx, tuple) and len(idx) == 2 and (idx[0] is Ellipsis or (isinstance(idx[0], slice) and idx[0] == slice(None)))):
            raise Unsupported(f"SpecRagged assignment index {idx!r}")
        col = idx[1]
        if hasattr(col, "start") and hasattr(col, "stop"):
            return self._set_columns(col, value)
        if not isinstance(col, (numbers.Integral, np.integer, SInt)):
            raise Unsupported("SpecRagged assignment to a column selector of this kind")
        self._require_column(col, f"{self.name}[..., {col}] = v")
        sh, old, kind = self._shape, self.cell, self.kind
        o = as_operand(value)
        if o[0] == "scalar":
            v = lambda r: coerce_term(o[1], kind)
        else:
            arr = o[1]
            snap = arr.snapshot()
            if arr.ndim == 1:
                cur().prove("pre(assignment): one value per row", dim_term(arr.shape_[0]) == sh.n, kind="pre")
                v = lambda r: coerce_term(snap(r), kind)
            else:
                cur().prove("pre(assignment): an (n_rows, 1) column of values", z3.And(dim_term(arr.shape_[0]) == sh.n, dim_term(arr.shape_[1]) == 1), kind="pre")
                v = lambda r: coerce_term(snap(r, z3.IntVal(0)), kind)
        self.cell = lambda r, c_: z3.If(c_ == self._col(col, r), v(r), old(r, c_))
        self.writes += 1


class _Lazy:
    """SpecRagged is created on first use (the repository is imported by then)"""
    cls = None


def _make():
    if _Lazy.cls is None:
        _Lazy.cls = type("SpecRagged", (_SpecRaggedMixin, _ragged_base()), {})
    return _Lazy.cls


class _SpecRaggedMeta(type):
    def __call__(cls, *a, **k):
        return _make()(*a, **k)

    def __instancecheck__(cls, obj):
        return isinstance(obj, _SpecRaggedMixin)

    def __getattr__(cls, name):
        return getattr(_make(), name)


class SpecRagged(metaclass=_SpecRaggedMeta):
    """SpecRagged(shape, cell, kind, dtype, name) / SpecRagged.symbolic(...): instances are _SpecRaggedMixin + the real RaggedArray"""

    @staticmethod
    def symbolic(ctx, name, n, L, kind="elem", dtype=np.int64):
        sort_of = {"int": z3.IntSort(), "bool": z3.BoolSort()}
        from ..sym.arr import ElemSort
        f = z3.Function(fresh_name(name), z3.IntSort(), z3.IntSort(), sort_of.get(kind, ElemSort))
        shp = L if isinstance(L, SpecShape) else SpecShape(n, L, name)
        r = SpecRagged(shp, lambda r_, c_: f(r_, c_), kind, dtype, name)
        r.fn = f
        return r


def _set_columns(self, col, value):
    """x[..., a:b:s] = v  for a scalar or a ragged v whose rows have the selected lengths (contract of __setitem__ / _set_data_range):
    selected cell number q of row r gets v[r, q], every other cell is unchanged"""
    sh, old, kind = self._shape, self.cell, self.kind
    a, b, s_ = col.start, col.stop, col.step

    def parts(r):
        return pyslice(SInt(sh.L(r)), a, b, s_)
    first = lambda r: I(parts(r)[0])
    count = lambda r: I(parts(r)[1])
    step = lambda r: I(parts(r)[2])
    if isinstance(value, SpecRagged):
        c = cur()
        r0 = z3.Int(fresh_name("pre_r"))
        c.prove("pre(column-range assignment): the value has one row per row, as long as the selected range",
                z3.And(value._shape.n == sh.n, z3.Implies(z3.And(0 <= r0, r0 < sh.n), value._shape.L(r0) == count(r0))), kind="pre", pool=[r0])
        vcell = value.cell
        v = lambda r, q: coerce_term(vcell(r, q), kind)
    else:
        o = as_operand(value)
        if o[0] != "scalar":
            raise Unsupported("SpecRagged column-range assignment with an array value")
        v = lambda r, q: coerce_term(o[1], kind)
    st1 = all(z3.is_int_value(z3.simplify(step(z3.Int("probe!r")))) and z3.simplify(step(z3.Int("probe!r"))).as_long() == 1 for _ in (0,))
    if not st1:
        raise Unsupported("SpecRagged column-range assignment with a step other than 1")
    self.cell = lambda r, c_: z3.If(z3.And(first(r) <= c_, c_ < first(r) + count(r)), v(r, c_ - first(r)), old(r, c_))
    self.writes += 1


_SpecRaggedMixin._set_columns = _set_columns


def spec_ragged_slice(log=None):
    """contract of raggedslice.ragged_slice(array, starts, ends) for a 1-D array and index vectors with 0 <= starts[i] <= ends[i] <= len(array):
    row i = array[starts[i]:ends[i]]  (window arithmetic proved in raggedslice.ragged_slice, gather in RaggedView.get_flat_indices / build_indices)"""
    def stub(array, starts=None, ends=None):
        c = cur()
        if not (isinstance(array, SymArr) and array.ndim == 1 and isinstance(starts, SymArr) and isinstance(ends, SymArr)):
            raise Unsupported("ragged_slice stub: 1-D array with start / end vectors only")
        n = dim_term(starts.shape_[0])
        N = dim_term(array.shape_[0])
        ss, es, asnap = starts.snapshot(), ends.snapshot(), array.snapshot()
        i0 = z3.Int(fresh_name("pre_i"))
        c.prove("pre(ragged_slice): as many ends as starts", dim_term(ends.shape_[0]) == n, kind="pre")
        c.prove("pre(ragged_slice): 0 <= starts[i] <= ends[i] <= len(array)", z3.Implies(z3.And(0 <= i0, i0 < n), z3.And(0 <= ss(i0), ss(i0) <= es(i0), es(i0) <= N)),
                kind="pre", pool=[i0, ss(i0), ss(i0) + 1, ss(i0) - 1, es(i0), es(i0) - 1, es(i0) + 1, N]
                + (log.get("pool_for_window_pre", lambda i_: [])(i0) if log is not None else []))
        shp = SpecShape(n, lambda r: es(r) - ss(r), "win")
        out = SpecRagged(shp, lambda r, c_: asnap(ss(r) + c_), array.kind, array.dtype, "window")
        if log is not None:
            log.setdefault("ragged_slice", []).append({"array": array, "starts": ss, "ends": es, "out": out})
        return out
    return stub
