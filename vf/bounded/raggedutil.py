"""Helpers shared by the ragged-array bounded oracles c04, c05, c07, c08, c09 (value alphabets per dtype,
input classes used in violation signatures, exact value comparison)."""
import math
import numpy as np

INT_DTYPES = ["int8", "int16", "int32", "int64", "uint8", "uint16", "uint32", "uint64"]
ALL_DTYPES = ["bool"] + INT_DTYPES + ["float32", "float64"]


def dtclass(dt):
    k = np.dtype(dt).kind
    return {"b": "bool", "i": "int", "u": "uint", "f": "float"}[k]


def empty_class(lengths):
    """input class of a row-length vector, most specific first"""
    if len(lengths) == 0:
        return "zero-rows"
    if all(l == 0 for l in lengths):
        return "all-rows-empty"
    if lengths[-1] == 0:
        return "trailing-empty-row"
    if 0 in lengths:
        return "has-empty-row"
    return "no-empty-row"


def limits(dt):
    d = np.dtype(dt)
    if d.kind in "iu":
        ii = np.iinfo(d)
        return int(ii.min), int(ii.max)
    if d.kind == "b":
        return False, True
    fi = np.finfo(d)
    return float(fi.min), float(fi.max)


# deterministic aperiodic bit pattern for bool cells
_BITS = [1, 0, 1, 1, 0, 0, 1, 0, 1, 1, 1, 0, 0, 0, 1, 0, 0, 1, 1, 0, 1, 0, 0, 0, 1, 1, 1, 1, 0, 1, 0, 1]
_PRIMES = [2, 3, 5, 7, 11, 13, 17, 19, 23, 29, 31, 37, 41, 43, 47, 53, 59, 61, 67, 71, 73, 79, 83, 89, 97, 101, 103, 107,
           109, 113]


def alphabet(dt, scheme):
    """a cyclic list of python values for cells of dtype `dt`.
    schemes: 'distinct' (pairwise distinct, small, no zero/one), 'mixed' (distinct values incl. the dtype extremes,
    zero, negatives), 'dups' (a 3-letter alphabet with many repeats; the extremum is repeated),
    'zeros' (zeros and non-zeros mixed), 'desc' (distinct, descending), 'extreme' (like 'mixed' but for floats the
    finite extremes and magnitudes around 2**mantissa instead of inf)"""
    d = np.dtype(dt)
    lo, hi = limits(dt)
    if scheme == "close":
        # neighbouring values that are distinct but relatively close (a tolerance-based comparison would merge them)
        if d.kind == "b":
            return [bool(b) for b in _BITS[3:] + _BITS[:3]]
        if d.kind == "f":
            eps = float(np.finfo(d).eps)
            return [1.0, 1.0 + 4 * eps, 1.0 + 8 * eps, 1024.0, 1024.0 * (1 + 4 * eps), 1.0, -3.0, -3.0 * (1 + 4 * eps), 1e-30, 2e-30, 1.0 + 4 * eps, 0.0,
                    1024.0]
        big = min(hi - 3, 10 ** 6)
        vals = [big, big + 1, hi, hi - 1, big + 2, big, hi - 2, big + 1, hi]
        if d.kind == "i":
            vals += [lo, lo + 1, -big, -big - 1]
        return vals
    if scheme == "extreme":
        if d.kind == "f":
            big = float(2 ** (np.finfo(d).nmant + 1))          # 2**53 / 2**24: the next integer is not representable
            return [1.5, hi, -2.0, big, 1.0, 1.0, lo, 0.25, big, -1.0, 3.0, hi, hi, 2.0, -big, 5.0, lo, lo, 7.0, 0.5]
        scheme = "mixed"
    if d.kind == "b":
        if scheme == "zeros":
            return [bool(b) for b in _BITS[5:] + _BITS[:5]]
        if scheme == "dups":
            return [bool(b) for b in _BITS[2:] + _BITS[:2]]
        if scheme == "desc":
            return [bool(1 - b) for b in _BITS]
        return [bool(b) for b in _BITS]
    if d.kind == "f":
        if scheme == "distinct":
            return [p + 0.5 for p in _PRIMES]
        if scheme == "desc":
            return [100.25 - p for p in _PRIMES]
        if scheme == "mixed":
            return [1.5, -2.0, 0.0, 3.25, float("inf"), -0.5, 7.0, 1024.0, -11.5, 13.0, float("-inf"), 0.125, -3.0, 64.5,
                    17.0, -19.75, 23.0, 29.5, -31.0, 37.0]
        if scheme == "dups":
            return [2.5, -1.0, 2.5, 2.5, -1.0, 0.0, 2.5, 0.0, -1.0, -1.0, 2.5, 0.0, 0.0, 2.5, -1.0, 2.5, 0.0]
        if scheme == "zeros":
            return [0.0, 1.5, 0.0, 0.0, -2.0, 3.0, 0.0, 1.0, 1.0, 0.0, 0.0, -0.0, 4.0, 0.0, 5.5, 0.0, 0.0]
    if d.kind == "i":
        if scheme == "distinct":
            return list(_PRIMES)
        if scheme == "desc":
            return [100 - p for p in _PRIMES]
        if scheme == "mixed":
            return [1, -2, hi, 3, lo, 0, 5, -7, hi - 1, 11, lo + 1, -1, 13, -17, 19, 23, -29, 31, 37, -41]
        if scheme == "dups":
            return [2, -1, 2, 2, -1, 0, 2, 0, -1, -1, 2, 0, 0, 2, -1, 2, 0]
        if scheme == "zeros":
            return [0, 1, 0, 0, -2, 3, 0, 1, 1, 0, 0, 0, 4, 0, 5, 0, 0]
    if d.kind == "u":
        if scheme == "distinct":
            return list(_PRIMES)
        if scheme == "desc":
            return [120 - p for p in _PRIMES]
        if scheme == "mixed":
            return [1, 2, hi, 3, 0, 5, hi - 1, 7, 11, hi - 2, 13, 17, 19, 23, 29, 31, 37, 41, 43, 47]
        if scheme == "dups":
            return [2, 1, 2, 2, 1, 0, 2, 0, 1, 1, 2, 0, 0, 2, 1, 2, 0]
        if scheme == "zeros":
            return [0, 1, 0, 0, 2, 3, 0, 1, 1, 0, 0, 0, 4, 0, 5, 0, 0]
    raise ValueError((dt, scheme))


def cells(lengths, dt, scheme, offset=0):
    """list of rows (python values) for a row-length vector"""
    al = alphabet(dt, scheme)
    out, k = [], offset
    for l in lengths:
        out.append([al[(k + i) % len(al)] for i in range(l)])
        k += l
    return out


def flat(rows):
    return [v for r in rows for v in r]


def mk(rows, dt, derive=True):
    """the RaggedArray under test: built through the public (data, row_lengths) constructor, or - deterministically, depending on the rows - a
    lazily derived array holding the same rows (reversed twice / a tail / an index list / a boolean mask of a larger fresh array).  By C06 the way an
    array came about must not matter to any operation; functions that read the geometry before materialising the data only fail on derived inputs."""
    from npstructures import RaggedArray

    def fresh(rs):
        return RaggedArray(np.array(flat(rs), dtype=dt), [len(r) for r in rs])
    n = len(rows)
    # the derivation depends on the shape AND the element dtype, so every shape is exercised fresh and derived in several ways across the dtypes
    how = (sum(len(r) * (i + 3) for i, r in enumerate(rows)) + n + sum(map(ord, str(np.dtype(dt))))) % 5 if derive else 0
    if n == 0 or how == 0:
        return fresh(rows)
    dummy = [rows[0][0]] * 2 if len(rows[0]) else [np.array(1, dtype=dt).item()]
    if how == 1:
        return fresh(rows[::-1])[::-1]
    if how == 2:
        return fresh([dummy] + list(rows))[1:]
    if how == 3:
        perm = list(range(n))[::-1]
        return fresh([rows[i] for i in perm])[[perm.index(i) for i in range(n)]]
    inter, mask = [], []
    for r in rows:
        inter += [r, dummy]
        mask += [True, False]
    return fresh(inter)[np.array(mask)]


def num_eq(a, b, rtol=0.0):
    """exact equality of two python numbers (nan == nan); with rtol > 0 a relative tolerance for finite floats"""
    if isinstance(a, float) and isinstance(b, float) and math.isnan(a) and math.isnan(b):
        return True
    if isinstance(a, float) and math.isnan(a) or isinstance(b, float) and math.isnan(b):
        return False
    if a == b:
        return True
    if rtol and not (isinstance(a, float) and math.isinf(a)) and not (isinstance(b, float) and math.isinf(b)):
        return abs(a - b) <= rtol * max(abs(a), abs(b))
    return False


def seq_eq(got, exp, rtol=0.0):
    """got / exp: (nested) python lists of numbers"""
    if isinstance(exp, list):
        return isinstance(got, list) and len(got) == len(exp) and all(seq_eq(g, e, rtol) for g, e in zip(got, exp))
    if isinstance(got, list):
        return False
    return num_eq(got, exp, rtol)


def tolist(x):
    """python list view of a library result (RaggedArray -> list of rows, ndarray -> nested list, scalar -> number)"""
    from npstructures import RaggedArray
    if isinstance(x, RaggedArray):
        return [np.asarray(r).tolist() for r in x]
    a = np.asarray(x)
    return a.tolist()


def ragged_lengths(x):
    return [int(l) for l in x.lengths]


def float_rtol(dt):
    d = np.dtype(dt)
    if d == np.float32:
        return 1e-5
    return 1e-11


def exc_sig(e):
    return type(e).__name__


def short(x, n=160):
    s = repr(x)
    return s if len(s) <= n else s[:n] + "..."


# ---------------------------------------------------------------------------------------------
# signatures: which input features does a failure depend on?

class Unsupported(Exception):
    """numpy itself refuses the (probe) input: the property says nothing"""


def nonempty_variant(lengths):
    v = [l for l in lengths if l > 0]
    return v if v else [2, 1]


def rows_class(lengths):
    c = empty_class(lengths)
    return None if c == "no-empty-row" else c


def refine(case, verdict, inner, axes):
    """verdict = {"msg", "what"} from inner(case). For every axis (label, key, probes, classify) the same check is
    re-run with case[key] replaced by each probe value. `label=classify(case[key])` is appended to the signature if
    some probe passes (the failure depends on the feature), or if no probe fails in the same way while some probe
    fails differently (another defect interferes: keep the information), or if the axis has no probes at all (a
    static label). It is left out if every applicable probe fails with the same `what`, or if numpy itself refuses
    all probes. classify(...) is None => feature absent, nothing to
    blame. Deterministic: depends only on the case and the library."""
    parts = [verdict["what"]]
    for label, key, probes, classify in axes:
        cur = case.get(key)
        cl = classify(cur)
        if cl is None:
            continue
        passed = failed_same = other = 0
        plist = list(probes(case) if callable(probes) else probes)
        for p in plist:
            if p == cur:
                continue
            c2 = dict(case)
            if isinstance(p, dict) and "__update__" in p:
                c2.update(p["__update__"])          # a probe that has to change several fields consistently
            else:
                c2[key] = p
            try:
                v = inner(c2)
            except Unsupported:
                continue
            if v is None:
                passed += 1
            elif v["what"] == verdict["what"]:
                failed_same += 1
            else:
                other += 1
        if passed or (not failed_same and (other or not plist)):
            parts.append(f"{label}={cl}")
    return {"msg": verdict["msg"], "sig": ":".join(parts)}


def vals_class(v):
    return None if v == "distinct" else "special"
