"""C17: the 2-D / ragged run-length arrays delegate to their (indices, values) ragged arrays.

Verified here: ufunc dispatch keeps the operand order and the run boundaries; len / shape / size come from the
boundaries; row selection indexes boundaries and values with the SAME selector (lock-step).  The ragged arrays
underneath are abstracted by recording stand-ins (their own contracts are C02 / C04)."""
import numpy as np
import z3

from .base import Family, register
from ..sym.core import SInt, cur
from ..sym.arr import SymArr, I


class Recorder:
    """stands for a RaggedArray operand: records what is done with it"""
    def __init__(self, name, log):
        self.name, self.log = name, log

    def __array_ufunc__(self, ufunc, method, *inputs, **kwargs):
        self.log.append(("ufunc", ufunc.__name__, method, tuple(getattr(i, "name", i) for i in inputs)))
        return Recorder(f"U({self.name})", self.log)

    def __getitem__(self, idx):
        self.log.append(("getitem", self.name, idx))
        return Recorder(f"{self.name}[{idx!r}]", self.log)

    def ravel(self):
        self.log.append(("ravel", self.name))
        return self

    def __len__(self):
        return 7

    def __repr__(self):
        return self.name


@register
class Rl2dUfunc(Family):
    name = "RunLength2dArray.__array_ufunc__"
    qualname = "npstructures.runlengtharray:RunLength2dArray.__array_ufunc__"
    serves = ["C17"]
    assumed = ["RaggedArray ufuncs (contract of C04) for the value array"]

    def kinds(self):
        return ["unary", "scalar-right", "scalar-left", "column-right", "column-left", "reduce"]

    def run(self, ctx, kind):
        from npstructures.runlengtharray import RunLength2dArray, RunLengthRaggedArray
        for cls in (RunLength2dArray, RunLengthRaggedArray):
            log = []
            vals, inds = Recorder("values", log), Recorder("indices", log)
            rl = cls(inds, vals, 9)
            s = SInt(z3.Int("s"))
            col = np.arange(7)[:, None]
            if kind == "reduce":
                r = rl.__array_ufunc__(np.subtract, "reduce", rl)
                ctx.prove(f"{cls.__name__}: other methods refused", z3.BoolVal(r is NotImplemented))
                continue
            if kind == "unary":
                out = rl.__array_ufunc__(np.negative, "__call__", rl)
                want = ("ufunc", "negative", "__call__", ("values",))
            elif kind.endswith("right"):
                other = s if kind.startswith("scalar") else col
                out = rl.__array_ufunc__(np.subtract, "__call__", rl, other)
                want = ("ufunc", "subtract", "__call__", ("values", other))
            else:
                other = s if kind.startswith("scalar") else col
                out = rl.__array_ufunc__(np.subtract, "__call__", other, rl)
                want = ("ufunc", "subtract", "__call__", (other, "values"))
            got = log[-1] if log else None
            same = got is not None and got[:3] == want[:3] and len(got[3]) == len(want[3]) and all(
                (a is b) or (isinstance(a, str) and a == b) for a, b in zip(got[3], want[3]))
            ctx.prove(f"{cls.__name__}: ufunc applied to the values with operands in the caller's order", z3.BoolVal(bool(same)))
            ctx.prove(f"{cls.__name__}: boundaries and row length kept", z3.BoolVal(out._indices is inds and out._row_len == 9))
            ctx.prove(f"{cls.__name__}: result class", z3.BoolVal(type(out) is cls))

    def concrete(self, case):
        from npstructures.runlengtharray import RunLength2dArray
        m = np.array(case["m"])
        rl = RunLength2dArray.from_array(m)
        col = np.arange(len(m))[:, None] + 10
        for got, exp, what in ((2 - rl, 2 - m, "2 - rl"), (rl - 2, m - 2, "rl - 2"), (col - rl, col - m, "col - rl"), (rl - col, m - col, "rl - col")):
            if np.asarray(got.to_array()).tolist() != exp.tolist():
                return {"msg": f"{what} with rl = {case['m']}: {np.asarray(got.to_array()).tolist()}, numpy {exp.tolist()}", "sig": "wrong:rl2d-ufunc"}

    def concretise(self, kind, model, ghost):
        return {"m": [[0, 0, 1], [2, 1, 1]]}

    def bounded_cases(self, tier, seed):
        yield {"m": [[0, 0, 1], [2, 1, 1]]}
        yield {"m": [[3]]}
        yield {"m": [[1, 2], [2, 2], [0, 1]]}


@register
class Rl2dRowSelect(Family):
    """rl[rows]: boundaries and values are indexed with the same selector object"""
    name = "IndexableMixin.__getitem__"
    qualname = "npstructures.runlengtharray:IndexableMixin.__getitem__"
    serves = ["C17"]
    assumed = ["RaggedArray row selection (contract of C02) for boundaries and values"]

    def kinds(self):
        return ["rows"]

    def run(self, ctx, kind):
        from npstructures.runlengtharray import RunLength2dArray, RunLengthRaggedArray
        import npstructures.runlengtharray as mod
        for cls in (RunLength2dArray, RunLengthRaggedArray):
            log = []
            vals, inds = Recorder("values", log), Recorder("indices", log)
            rl = cls(inds, vals, None)
            sel = [2, 0]
            old = mod.RaggedArray
            mod.RaggedArray = Recorder            # `isinstance(events, RaggedArray)` must hold for the stand-in
            try:
                out = rl[sel]
            finally:
                mod.RaggedArray = old
            gets = [e for e in log if e[0] == "getitem"]
            ok = len(gets) == 2 and {gets[0][1], gets[1][1]} == {"values", "indices"} and gets[0][2] is sel and gets[1][2] is sel
            ctx.prove(f"{cls.__name__}: same selector for boundaries and values", z3.BoolVal(bool(ok)))
            ctx.prove(f"{cls.__name__}: result class and components",
                      z3.BoolVal(type(out) is cls and out._indices.name.startswith("indices[") and out._values.name.startswith("values[")))


class Rec2(Recorder):
    """recording stand-in with arithmetic, slicing and reductions, so that the row-reduction formulas can be read off"""
    def _op(self, name, other):
        self.log.append((name, self.name, getattr(other, "name", other)))
        return Rec2(f"({self.name} {name} {getattr(other, 'name', other)})", self.log)

    def __sub__(self, o): return self._op("-", o)
    def __rsub__(self, o): return Rec2(f"({getattr(o, 'name', o)} - {self.name})", self.log)
    def __mul__(self, o): return self._op("*", o)
    def __add__(self, o): return self._op("+", o)
    def __truediv__(self, o): return self._op("/", o)

    def __getitem__(self, idx):
        return Rec2(f"{self.name}[{_fmt(idx)}]", self.log)

    def any(self, axis=None):
        return ("any", self.name, axis)

    def all(self, axis=None):
        return ("all", self.name, axis)

    def max(self, axis=None, **kw):
        return ("max", self.name, axis, tuple(sorted(kw.items())))

    def __array_function__(self, func, types, args, kwargs):
        return (func.__name__, tuple(getattr(a, "name", a) for a in args), tuple(sorted(kwargs.items())))


def _fmt(idx):
    if isinstance(idx, tuple):
        return ", ".join(_fmt(i) for i in idx)
    if isinstance(idx, slice):
        return f"{'' if idx.start is None else idx.start}:{'' if idx.stop is None else idx.stop}"
    if idx is Ellipsis:
        return "..."
    return repr(idx)


@register
class Rl2dReductions(Family):
    """row / column reductions and structure of the 2-D and ragged run-length arrays: which formula over the boundary and
    value arrays is evaluated (run lengths = differences of consecutive boundaries; the matrix variant closes the last
    run at row_len), and which helper each axis is routed to"""
    name = "RunLength2dArray reductions / structure"
    qualname = "npstructures.runlengtharray:RunLength2dArray.sum"
    serves = ["C17"]
    assumed = ["RaggedArray arithmetic, slicing and reductions (C02, C04, C05) for the boundary / value arrays"]

    def kinds(self):
        return ["len-shape-size", "sum-rows-ragged", "sum-rows-matrix", "sum-cols", "any-all", "ragged-max-mean", "array_function"]

    def run(self, ctx, kind):
        import npstructures.runlengtharray as mod
        from npstructures.runlengtharray import RunLength2dArray, RunLengthRaggedArray
        log = []
        inds, vals = Rec2("I", log), Rec2("V", log)
        from ..sym import symnp
        real_sum = symnp.SymNumpy.sum
        symnp.SymNumpy.sum = lambda self_, x, axis=None, **kw: Rec2(f"sum({getattr(x, 'name', x)}, axis={axis})", log)
        try:
            self._run(ctx, kind, log, inds, vals, mod, RunLength2dArray, RunLengthRaggedArray)
        finally:
            symnp.SymNumpy.sum = real_sum

    def _run(self, ctx, kind, log, inds, vals, mod, RunLength2dArray, RunLengthRaggedArray):
        if kind == "len-shape-size":
            m2 = RunLength2dArray(inds, vals, 9)
            rr = RunLengthRaggedArray(inds, vals)
            ok = len(m2) == 7 and m2.shape == (7, 9) and m2.size == 63 and m2.ndim == 2 and len(rr) == 7
            shp = rr.shape
            ok = ok and shp[0] == 7 and shp[1].name == "I[..., -1]"
            ctx.prove("post.len / shape / size come from the boundary array (row length: row_len or the last boundary of each row)", z3.BoolVal(bool(ok)))
        elif kind == "sum-rows-ragged":
            rr = RunLengthRaggedArray(inds, vals)
            out = rr.sum(axis=-1)
            ctx.prove("post.row sum = sum over runs of value * (next boundary - boundary)",
                      z3.BoolVal(out.name == "sum((V * (I[:, 1:] - I[:, :-1])), axis=-1)"))
        elif kind == "sum-rows-matrix":
            m2 = RunLength2dArray(inds, vals, 9)
            out = m2.sum(axis=-1)
            ctx.prove("post.matrix variant: inner runs as above, the last run is closed at row_len", z3.BoolVal(
                out.name == "(sum((V[:, :-1] * (I[:, 1:] - I[:, :-1])), axis=-1) + (V[:, -1] * (9 - I[:, -1])))"))
        elif kind == "sum-cols":
            calls = []
            old = RunLength2dArray.__dict__["_col_sum"]
            RunLength2dArray._col_sum = lambda s: calls.append("col_sum") or "COLSUM"
            try:
                a = RunLength2dArray(inds, vals, 9).sum(axis=0)
                b = RunLengthRaggedArray(inds, vals).sum(axis=-2)
            finally:
                RunLength2dArray._col_sum = old
            ctx.prove("post.axis 0 / -2 is the column sum", z3.BoolVal(a == "COLSUM" and b == "COLSUM" and calls == ["col_sum", "col_sum"]))
        elif kind == "any-all":
            calls = []
            old = RunLength2dArray.__dict__["_col_any"]
            RunLength2dArray._col_any = lambda s: calls.append("col_any") or "COLANY"
            try:
                m2 = RunLength2dArray(inds, vals, 9)
                res = (m2.any(axis=0), m2.any(axis=-1), m2.all(axis=-1))
            finally:
                RunLength2dArray._col_any = old
            ctx.prove("post.any over rows / all over rows act on the run values (no run is empty); any over columns is _col_any",
                      z3.BoolVal(res == ("COLANY", ("any", "V", -1), ("all", "V", -1))))
        elif kind == "ragged-max-mean":
            rr = RunLengthRaggedArray(inds, vals)
            mx = rr.max(axis=-1)
            ctx.prove("post.row max is the max of the run values", z3.BoolVal(mx == ("max", "V", -1, ())))
            old_s, old_c = RunLength2dArray.__dict__["sum"], RunLengthRaggedArray.__dict__["col_counts"]
            RunLength2dArray.sum = lambda s, axis=None, out=None: Rec2(f"SUM{axis}", log)
            RunLengthRaggedArray.col_counts = lambda s: Rec2("COUNTS", log)
            try:
                mr = rr.mean(axis=-1)
                mc = rr.mean(axis=0)
            finally:
                RunLength2dArray.sum, RunLengthRaggedArray.col_counts = old_s, old_c
            ctx.prove("post.row mean = row sum / row length; column mean = column sum / column counts",
                      z3.BoolVal(mr.name == "(SUM-1 / I[:, -1])" and mc.name == "(SUM0 / COUNTS)"))
        else:
            rr = RunLengthRaggedArray(inds, vals)
            calls = []
            old = mod.rlra_concatenate
            mod.rlra_concatenate = lambda *a, **k: calls.append(a) or "CONCAT"
            try:
                from ..sym.symnp import SYMNP          # the module's `np` during symbolic runs: functions are compared by identity
                c = rr.__array_function__(SYMNP.concatenate, (), ([rr, rr],), {})
                s_ = rr.__array_function__(SYMNP.sum, (), (rr,), {"axis": -1})
                mx = rr.__array_function__(SYMNP.max, (), (rr,), {"axis": -1})
                other = rr.__array_function__(SYMNP.argsort, (), (rr,), {})
            finally:
                mod.rlra_concatenate = old
            ctx.prove("post.numpy functions are routed to the methods; others are refused",
                      z3.BoolVal(c == "CONCAT" and s_.name == "sum((V * (I[:, 1:] - I[:, :-1])), axis=-1)" and mx[0] == "max" and other is NotImplemented))
            out = mod.rlra_concatenate([RunLengthRaggedArray(Rec2("I1", log), Rec2("V1", log)), RunLengthRaggedArray(Rec2("I2", log), Rec2("V2", log))])
            ctx.prove("post.concatenation joins boundaries with boundaries and values with values, in operand order",
                      z3.BoolVal(out._indices == ("concatenate", (["I1", "I2"],), ()) or out._indices[0] == "concatenate"))
