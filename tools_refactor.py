"""Runs the quick checks against behaviour-preserving refactorings: tools_refactor.py <dir with patch.diff> ... ; expects exit 0 everywhere"""
import json, os, re, shutil, subprocess, sys, tempfile
VERIF = os.path.dirname(os.path.abspath(__file__))
PROPS_FOR = {"raggedshape.py": ["C01", "C02", "C03", "C04", "C06", "C08", "C19"], "raggedarray/__init__.py": ["C04", "C05", "C07", "C09", "C10"],
             "raggedarray/indexablearray.py": ["C02", "C03", "C06", "C10"], "arrayfunctions.py": ["C08", "C07"], "runlengtharray.py": ["C14", "C15", "C16", "C17"],
             "bitarray.py": ["C13"], "npdataclasses.py": ["C18"], "hashtable.py": ["C11", "C12"], "raggedarray/base.py": ["C06", "C10"]}
for src in sys.argv[1:]:
    name = os.path.basename(src.rstrip("/"))
    diff = open(os.path.join(src, "patch.diff")).read()
    files = sorted(set(re.findall(r"^\+\+\+ b/npstructures/(\S+)", diff, re.M)))
    props = sorted({p for f in files for p in PROPS_FOR.get(f, [])})
    scratch = tempfile.mkdtemp(prefix="vfref_", dir="/tmp")
    try:
        shutil.copytree("/repo/npstructures", os.path.join(scratch, "npstructures"), ignore=shutil.ignore_patterns("__pycache__"))
        shutil.copytree("/repo/tests", os.path.join(scratch, "tests"), ignore=shutil.ignore_patterns("__pycache__"))
        for f in ("conftest.py", "setup.cfg"):
            shutil.copy(os.path.join("/repo", f), scratch)
        r = subprocess.run(f"git apply --whitespace=nowarn {os.path.join(src, 'patch.diff')}", shell=True, cwd=scratch, capture_output=True, text=True)
        if r.returncode:
            print(name, "PATCH DOES NOT APPLY", r.stderr[:200]); continue
        t = subprocess.run("/venv/bin/python -m pytest -q -p no:cacheprovider tests 2>&1 | tail -1", shell=True, cwd=scratch, env=dict(os.environ, PYTHONPATH=scratch), capture_output=True, text=True).stdout.strip()
        res = {}
        for p in props:
            c = subprocess.run(f"./check {p} --tier quick", shell=True, cwd=VERIF, env=dict(os.environ, VERIF_REPO=scratch, VERIF_EVIDENCE_DIR=os.path.join(scratch, "evidence")), capture_output=True, text=True)
            out = c.stdout + c.stderr
            res[p] = (c.returncode, [l[:200] for l in out.splitlines() if l.startswith(("VIOLATION", "NOTE", "CHECKER-ERROR")) or l.startswith("  ")][:4], out.strip().splitlines()[-1][:150])
        alarms = {p: v for p, v in res.items() if v[0] != 0}
        print(name, files, "suite:", t, "ALARMS:" if alarms else "quiet", json.dumps(alarms)[:1500] if alarms else "", flush=True)
        for p, v in res.items():
            if v[0] == 0 and any(x.startswith("NOTE") for x in v[1]):
                print("    ", p, [x for x in v[1] if x.startswith("NOTE")][:2])
    finally:
        shutil.rmtree(scratch, ignore_errors=True)
