"""debug runner: python tools_dbg.py <module> <family name> <kind> [timeout_ms] - prints every obligation as it is decided"""
import sys, time, traceback
sys.path.insert(0, '/verif')
from vf.sym import env, core
env.import_repo()
import importlib, z3
from vf.proofs import base
importlib.import_module('vf.proofs.' + sys.argv[1])
fam = [f for f in base.REGISTRY if sys.argv[2] == f.name][0]
kind = sys.argv[3]
tmo = int(sys.argv[4]) if len(sys.argv) > 4 else 20000
t0 = time.time()
with env.symbolic_modules():
    paths = list(core.explore(lambda ctx: fam.run(ctx, kind), max_paths=fam.max_paths))
print(f"{len(paths)} paths explored in {time.time()-t0:.1f}s")
for pr in paths:
    print(f"-- path {pr.path} : {pr.kind} {pr.exc!r}"[:200])
    if pr.kind in ("unsupported", "limit"):
        continue
    if pr.kind == "raise":
        tb = traceback.extract_tb(pr.exc.__traceback__)[-1]
        ob = core.Obligation("no-exception", pr.ctx.hyps, pr.ctx.schemas, pr.ctx.pool, z3.BoolVal(False), derivers=pr.ctx.derivers)
        core.discharge(ob, timeout_ms=tmo)
        print(f"   no-exception[{type(pr.exc).__name__} at {tb.filename.split('/')[-1]}:{tb.lineno}] -> {ob.status} {ob.time:.2f}s {ob.reason}")
        continue
    for ob in pr.ctx.obligations:
        core.discharge(ob, timeout_ms=tmo)
        print(f"   {ob.name[:95]:95s} {ob.status:10s} {ob.time:6.2f}s {ob.reason[:60]}")
        if ob.status != "proved" and "-m" in sys.argv:
            print(ob.model)
print(f"total {time.time()-t0:.1f}s")
