"""C01 bounded stand-in: construction / geometry / read-back against the plain list of rows."""
import itertools
import os
import tempfile
import numpy as np
from .common import import_repo, length_vectors

PROPERTY = "C01"
RULE = ("exhaustive: every row-length vector (rows<=R, len<=L) x element dtype x constructor (list of rows | flat buffer + "
        "lengths | flat buffer + RaggedShape | from_numpy_array for rectangular ones) ; every reader of the statement is "
        "compared with the list of rows; wrong-size flat buffers (size +-1) must be rejected; save/load on a subset. "
        "non-trivial = at least one empty row or zero rows")
BOUNDS = {"quick": {"max_rows": 4, "max_len": 3, "dtypes": ["bool", "int8", "int64", "uint8", "uint64", "float32", "float64"]},
          "thorough": {"max_rows": 5, "max_len": 4, "dtypes": ["bool", "int8", "int16", "int32", "int64", "uint8", "uint16",
                                                                 "uint32", "uint64", "float32", "float64"]}}
CTORS = ["rows", "flat+lengths", "flat+shape", "rows+dtype"]


def values_for(total, dtype):
    dt = np.dtype(dtype)
    if dt == np.dtype(bool):
        return np.array([(i * 7) % 3 == 0 for i in range(total)], dtype=bool)
    if dt.kind == "f":
        base = np.array([i + 0.5 for i in range(total)], dtype=dt)
        if total > 1:
            base[1] = np.finfo(dt).max
        if total > 2:
            base[2] = -0.0
        return base
    info = np.iinfo(dt)
    vals = [i + 1 for i in range(total)]
    if total > 1:
        vals[1] = info.max
    if total > 2:
        vals[2] = info.min
    return np.array(vals, dtype=dt)


def cases(tier, seed):
    b = BOUNDS[tier]
    k = 0
    for lengths in length_vectors(b["max_rows"], b["max_len"]):
        for dt in b["dtypes"]:
            for ctor in CTORS:
                k += 1
                yield {"lengths": lengths, "dtype": dt, "ctor": ctor, "io": (k % (97 if tier == "quick" else 23) == 0)}
        for delta in (-1, 1):
            yield {"lengths": lengths, "dtype": "int64", "ctor": "flat+lengths", "wrong_size": delta, "io": False}
    if tier == "thorough":
        rng = np.random.default_rng(seed)
        for _ in range(3000):
            n = int(rng.integers(0, 9))
            lengths = [int(x) for x in rng.integers(0, 8, size=n)]
            yield {"lengths": lengths, "dtype": str(rng.choice(b["dtypes"])), "ctor": str(rng.choice(CTORS)), "io": bool(rng.random() < 0.05)}


def nontrivial(case):
    return 0 in case["lengths"] or len(case["lengths"]) == 0


def same(a, b, dt):
    a, b = np.asarray(a), np.asarray(b)
    if a.shape != b.shape:
        return False
    if a.size == 0:
        return True
    if np.dtype(dt).kind == "f":
        return bool(np.all((a == b) | (np.isnan(a) & np.isnan(b))) and np.all(np.signbit(a) == np.signbit(b)))
    return bool(np.all(a == b))


def check(case):
    import_repo()
    from npstructures import RaggedArray, RaggedShape
    lengths, dt, ctor = case["lengths"], case["dtype"], case["ctor"]
    n = len(lengths)
    total = sum(lengths)
    flat = values_for(total, dt)
    starts = [sum(lengths[:i]) for i in range(n)]
    rows = [flat[s:s + l] for s, l in zip(starts, lengths)]

    def bad(what, exp, got):
        return {"msg": f"{what}: lengths={lengths} dtype={dt} ctor={ctor}: expected {exp!r}, got {got!r}", "sig": "wrong:" + what}

    if "wrong_size" in case:
        wrong = np.arange(max(total + case["wrong_size"], 0), dtype=np.int64)
        if len(wrong) == total:
            return None
        try:
            RaggedArray(wrong, lengths)
        except ValueError:
            return None
        except Exception as e:
            return {"msg": f"flat buffer of size {len(wrong)} for lengths {lengths}: raised {type(e).__name__} instead of ValueError: {e}",
                    "sig": "raised:wrong-size-buffer"}
        return {"msg": f"flat buffer of size {len(wrong)} accepted for lengths {lengths}", "sig": "not-refused:wrong-size-buffer"}

    try:
        if ctor == "rows":
            ra = RaggedArray([r for r in rows]) if n else RaggedArray([], dtype=dt)
            if n and total == 0:
                ra = RaggedArray([r for r in rows], dtype=dt)
        elif ctor == "rows+dtype":
            ra = RaggedArray([r.tolist() for r in rows], dtype=dt)
        elif ctor == "flat+lengths":
            ra = RaggedArray(flat.copy(), list(lengths))
        else:
            ra = RaggedArray(flat.copy(), RaggedShape(lengths))
    except Exception as e:
        return {"msg": f"construction failed: lengths={lengths} dtype={dt} ctor={ctor}: {type(e).__name__}: {e}", "sig": "raised:construct:" + ctor}
    try:
        if ra.dtype != np.dtype(dt):
            return bad("dtype", np.dtype(dt), ra.dtype)
        if len(ra) != n:
            return bad("len", n, len(ra))
        if ra.size != total:
            return bad("size", total, ra.size)
        shp = ra.shape
        if shp[0] != n or np.asarray(shp[1]).tolist() != lengths:
            return bad("shape", (n, lengths), (shp[0], np.asarray(shp[1]).tolist()))
        if np.asarray(ra.lengths).tolist() != lengths:
            return bad("lengths", lengths, np.asarray(ra.lengths).tolist())
        it = list(iter(ra))
        if len(it) != n or not all(same(a, b, dt) for a, b in zip(it, rows)):
            return bad("iter", [r.tolist() for r in rows], [np.asarray(r).tolist() for r in it])
        if any(np.asarray(r).dtype != np.dtype(dt) for r in it):
            return bad("iter-dtype", dt, [str(np.asarray(r).dtype) for r in it])
        tl = ra.tolist()
        if tl != [r.tolist() for r in rows] and not all(same(a, b, dt) for a, b in zip(tl, rows)):
            return bad("tolist", [r.tolist() for r in rows], tl)
        if len(tl) != n:
            return bad("tolist-len", n, len(tl))
        rv = ra.ravel()
        if not same(rv, flat, dt) or np.asarray(rv).dtype != np.dtype(dt):
            return bad("ravel", flat.tolist(), np.asarray(rv).tolist())
        for tgt in ("float64", "int64", "bool"):
            with np.errstate(all="ignore"):
                conv = ra.astype(tgt)
                expc = flat.astype(tgt)
            if conv.dtype != np.dtype(tgt) or not same(conv.ravel(), expc, tgt) or np.asarray(conv.lengths).tolist() != lengths:
                return bad("astype:" + tgt, expc.tolist(), conv.ravel().tolist())
        sh = ra._shape
        if np.asarray(sh.starts).tolist() != starts and n > 0:
            return bad("shape.starts", starts, np.asarray(sh.starts).tolist())
        if n > 0 and np.asarray(sh.ends).tolist() != [s + l for s, l in zip(starts, lengths)]:
            return bad("shape.ends", [s + l for s, l in zip(starts, lengths)], np.asarray(sh.ends).tolist())
        if np.asarray(sh.lengths).tolist() != lengths:
            return bad("shape.lengths", lengths, np.asarray(sh.lengths).tolist())
        if int(sh.size) != total:
            return bad("shape.size", total, int(sh.size))
        if total:
            rr = [r for r, l in enumerate(lengths) for _ in range(l)]
            cc = [c for l in lengths for c in range(l)]
            fi = sh.ravel_multi_index((np.array(rr), np.array(cc)))
            if np.asarray(fi).tolist() != list(range(total)):
                return bad("ravel_multi_index", list(range(total)), np.asarray(fi).tolist())
            ur, uc = sh.unravel_multi_index(np.arange(total))
            if np.asarray(ur).tolist() != rr or np.asarray(uc).tolist() != cc:
                return bad("unravel_multi_index", (rr, cc), (np.asarray(ur).tolist(), np.asarray(uc).tolist()))
            ia = sh.index_array()
            if np.asarray(ia).tolist() != rr:
                return bad("index_array", rr, np.asarray(ia).tolist())
        # rectangular <-> numpy
        if n > 0 and len(set(lengths)) == 1:
            m = ra.to_numpy_array()
            expm = flat.reshape(n, lengths[0])
            if m.shape != expm.shape or not same(m, expm, dt) or m.dtype != np.dtype(dt):
                return bad("to_numpy_array", expm.tolist(), np.asarray(m).tolist())
            back = RaggedArray.from_numpy_array(expm.copy())
            if np.asarray(back.lengths).tolist() != lengths or not same(back.ravel(), flat, dt) or back.dtype != np.dtype(dt):
                return bad("from_numpy_array", [r.tolist() for r in rows], back.tolist())
            # the rows of the converted array are reachable like those of any other array
            for k in range(n):
                if not same(back[k], rows[k], dt):
                    return bad("from_numpy_array:row", rows[k].tolist(), np.asarray(back[k]).tolist())
            # the matrix may come in any memory layout: transposed views, Fortran order, negative strides (the rows are the LOGICAL rows)
            for nm_, mat in (("transposed view", np.ascontiguousarray(expm.T).T), ("fortran order", np.asfortranarray(expm)),
                             ("reversed columns view", expm[:, ::-1][:, ::-1] if expm.shape[1] else expm), ("row-reversed view", expm[::-1])):
                back2 = RaggedArray.from_numpy_array(mat)
                exp2 = np.asarray(mat)
                if np.asarray(back2.lengths).tolist() != [exp2.shape[1]] * exp2.shape[0] or not all(same(a, b, dt) for a, b in zip(list(back2), list(exp2))):
                    return bad("from_numpy_array:" + nm_, exp2.tolist(), back2.tolist())
            rev = RaggedArray.from_numpy_array(expm.copy())[::-1]
            if not all(same(a, b, dt) for a, b in zip(list(rev), rows[::-1])) or len(rev) != n:
                return bad("from_numpy_array:reversed", [r.tolist() for r in rows[::-1]], rev.tolist())
        if case.get("io"):
            d = tempfile.mkdtemp(prefix="vfc01_")
            fn = os.path.join(d, "ra.npz")
            try:
                ra.save(fn)
                lo = RaggedArray.load(fn)
                if lo.dtype != np.dtype(dt) or np.asarray(lo.lengths).tolist() != lengths or not same(lo.ravel(), flat, dt):
                    return bad("save/load", [r.tolist() for r in rows], lo.tolist())
            finally:
                try:
                    os.unlink(fn)
                except OSError:
                    pass
                os.rmdir(d)
    except Exception as e:
        import traceback
        tb = traceback.extract_tb(e.__traceback__)[-1]
        return {"msg": f"reader raised: lengths={lengths} dtype={dt} ctor={ctor}: {type(e).__name__}: {e} at {tb.name}:{tb.lineno}",
                "sig": f"raised:{type(e).__name__}:{tb.name}"}
    return None
