"""C04 bounded stand-in: element-wise ufuncs on ragged arrays against numpy applied row by row.

Oracle: for row i, `ufunc(np.array(row_i, dt1), other_i)` written with the operands in the same order and of the
same kind as in the library call (other_i = row i of the second ragged array | the scalar itself | the 1-element
array `col[i]`); the expected dtype is numpy's dtype for the same expression on the flat data.  Python scalars are
passed to numpy as Python scalars (numpy 2: weak), numpy scalars as numpy scalars."""
import operator
import warnings
import numpy as np
from .common import import_repo, length_vectors
from .raggedutil import (dtclass, alphabet, cells, flat, mk, seq_eq, tolist, ragged_lengths, short, Unsupported,
                         nonempty_variant, rows_class, refine)

PROPERTY = "C04"
DTYPES = ["bool", "int8", "int16", "int32", "int64", "uint8", "float32", "float64"]
UNARY = ["negative", "positive", "absolute", "sign", "square", "invert", "logical_not"]
BINARY = {
    "arith": ["add", "subtract", "multiply", "true_divide", "floor_divide", "remainder", "power", "maximum", "minimum"],
    "cmp": ["equal", "not_equal", "less", "less_equal", "greater", "greater_equal"],
    "bitwise": ["bitwise_and", "bitwise_or", "bitwise_xor", "left_shift", "right_shift"],
    "logical": ["logical_and", "logical_or", "logical_xor"],
}
ALL_BINARY = [u for k in ("arith", "cmp", "bitwise", "logical") for u in BINARY[k]]
OPERATORS = {"add": operator.add, "subtract": operator.sub, "multiply": operator.mul, "true_divide": operator.truediv,
             "floor_divide": operator.floordiv, "remainder": operator.mod, "power": operator.pow,
             "equal": operator.eq, "not_equal": operator.ne, "less": operator.lt, "less_equal": operator.le,
             "greater": operator.gt, "greater_equal": operator.ge, "bitwise_and": operator.and_,
             "bitwise_or": operator.or_, "bitwise_xor": operator.xor, "left_shift": operator.lshift,
             "right_shift": operator.rshift, "negative": operator.neg, "positive": operator.pos,
             "absolute": operator.abs, "invert": operator.invert}
PYKINDS = ["pyint", "pyfloat", "pybool"]
KINDS = ["ragged", "pyscalar", "npscalar", "arr0d", "column"]

RULE = ("part U: every row-length vector (rows<=R, len<=L, incl. zero rows) x dtype x unary ufunc (ufunc call and "
        "operator form); part B: a fixed set of shapes (zero rows, single empty row, empty rows first/middle/last, "
        "full) x every binary arithmetic/comparison/bitwise/logical ufunc x every ordered dtype pair among "
        "bool/int8/int16/int32/int64/uint8/float32/float64 that numpy itself accepts x operand kind (ragged of the "
        "same lengths | Python int/float/bool scalar | numpy scalar | 0-d array | (n_rows,1) column) x side of the "
        "ragged operand; part A: every row-length vector x column vector of every dtype x both sides x 4 ufuncs; "
        "part O: the Python operator forms (ra + x, x - ra, ...); part M: every ordered pair of different row-length "
        "vectors must be refused. Cells take distinct values incl. the dtype extremes. non-trivial = an empty row or "
        "zero rows is present, or the operand dtypes differ, or the other operand is a Python scalar or a column")
BOUNDS = {"quick": {"max_rows": 3, "max_len": 3, "partB_shapes": [[], [0], [2], [0, 2, 1], [2, 0, 0, 3], [1, 2, 0], [3, 1, 2]],
                    "scalar_values": "small (2 / 1.5 / True) and, for Python scalars, a second value (100 / -0.5 / False)"},
          "thorough": {"max_rows": 4, "max_len": 4, "partB_shapes": "every vector with rows<=3, len<=2 plus the quick set",
                       "scalar_values": "small and extreme (dtype max)", "random": 30000}}

PARTB_QUICK = [[], [0], [2], [0, 2, 1], [2, 0, 0, 3], [1, 2, 0], [3, 1, 2]]
A_UFUNCS = ["add", "subtract", "less", "bitwise_xor"]


def _scalar(kind, ot, sv):
    if kind == "pyscalar":
        return {"pyint": [2, 100], "pyfloat": [1.5, -0.5], "pybool": [True, False]}[ot][sv]
    k = np.dtype(ot).kind
    if sv == 0:
        v = True if k == "b" else (2 if k in "iu" else 1.5)
    else:
        v = True if k == "b" else (np.iinfo(ot).max if k in "iu" else float(np.finfo(ot).max))
    if kind == "npscalar":
        return np.dtype(ot).type(v)
    return np.array(v, dtype=ot)


def _column(n, ot):
    al = alphabet(ot, "mixed")
    return np.array([al[(i + 1) % len(al)] for i in range(n)], dtype=ot).reshape(n, 1)


def _fn(uf, via):
    return OPERATORS[uf] if via == "op" else getattr(np, uf)


_SUPPORT = {}


def _supported(uf, via, dt1, kind, ot, side):
    """does numpy itself accept this operand-type combination? (otherwise the property says nothing)"""
    key = (uf, via, dt1, kind, ot, side)
    if key not in _SUPPORT:
        f = _fn(uf, via)
        a = np.ones(1, dtype=dt1)
        if kind == "unary":
            args = (a,)
        else:
            if kind in ("ragged", "column"):
                o = np.ones(1, dtype=ot)
            else:
                o = _scalar(kind, ot, 0)
            args = (a, o) if side == "R" else (o, a)
        try:
            with warnings.catch_warnings(), np.errstate(all="ignore"):
                warnings.simplefilter("ignore")
                f(*args)
            _SUPPORT[key] = True
        except TypeError:
            _SUPPORT[key] = False
    return _SUPPORT[key]


def _binary_cases(lengths, ufuncs, kinds, dts1, svs_py, svs_np, via="ufunc", dts2=None):
    for uf in ufuncs:
        if via == "op" and uf not in OPERATORS:
            continue
        for dt1 in dts1:
            for kind in kinds:
                ots = PYKINDS if kind == "pyscalar" else (dts2 or DTYPES)
                for ot in ots:
                    for side in (("R",) if kind == "ragged" else ("R", "L")):
                        if not _supported(uf, via, dt1, kind, ot, side):
                            continue
                        svs = [0] if kind in ("ragged", "column") else (svs_py if kind == "pyscalar" else svs_np)
                        for sv in svs:
                            yield {"part": "B", "lengths": lengths, "uf": uf, "via": via, "dt1": dt1, "kind": kind,
                                   "ot": ot, "side": side, "sv": sv}


def cases(tier, seed):
    b = BOUNDS[tier]
    R, L = b["max_rows"], b["max_len"]
    shapes = list(length_vectors(R, L))
    # part U: unary
    for lengths in shapes:
        for uf in UNARY:
            for dt1 in DTYPES:
                for via in ("ufunc", "op"):
                    if via == "op" and uf not in OPERATORS:
                        continue
                    if _supported(uf, via, dt1, "unary", None, None):
                        yield {"part": "U", "lengths": lengths, "uf": uf, "via": via, "dt1": dt1, "kind": "unary"}
    # part B: dtype pair x ufunc x kind x side on a fixed shape set
    bshapes = list(PARTB_QUICK)
    if tier == "thorough":
        bshapes += [s for s in length_vectors(3, 2) if s not in bshapes]
    for lengths in bshapes:
        yield from _binary_cases(lengths, ALL_BINARY, KINDS, DTYPES, [0, 1], [0] if tier == "quick" else [0, 1])
    # part A: every shape x column of every dtype (the XOR broadcast) and same-length ragged operand
    for lengths in shapes:
        for uf in A_UFUNCS:
            for dt1 in (["int64", "uint8", "float32", "bool"] if tier == "quick" else DTYPES):
                for ot in DTYPES:
                    for kind in ("column", "ragged"):
                        for side in (("R",) if kind == "ragged" else ("R", "L")):
                            if _supported(uf, "ufunc", dt1, kind, ot, side):
                                yield {"part": "A", "lengths": lengths, "uf": uf, "via": "ufunc", "dt1": dt1, "kind": kind,
                                       "ot": ot, "side": side, "sv": 0}
    # part O: operator forms
    for lengths in ([[], [0, 2, 1], [2, 0], [1, 3]] if tier == "quick" else bshapes):
        for dt1 in DTYPES:
            d2 = sorted({dt1, "int64", "uint8", "float32"})
            for c in _binary_cases(lengths, ALL_BINARY, KINDS, [dt1], [0, 1], [0], via="op", dts2=d2):
                c["part"] = "O"
                yield c
    # part M: different row lengths must be refused
    mshapes = shapes if tier == "quick" else list(length_vectors(3, 3)) + [s for s in shapes if len(s) == 4 and max(s) <= 2]
    for l1 in mshapes:
        for l2 in mshapes:
            if l1 != l2:
                yield {"part": "M", "lengths": l1, "lengths2": l2, "uf": "add", "via": "ufunc", "dt1": "int64",
                       "ot": "int64", "kind": "ragged-mismatch"}
    for l1, l2 in ([[1, 2], [2, 1]], [[1], [2]], [[0], []], [[], [0]], [[0, 1], [1, 0]], [[2], [1, 1]], [[1, 1], [2]], [[3], [3, 0]]):
        for uf in ("subtract", "less", "logical_and", "multiply"):
            for via in ("ufunc", "op"):
                if via == "op" and uf not in OPERATORS:
                    continue
                for dt1, ot in (("int8", "float64"), ("bool", "uint8"), ("float32", "float32")):
                    if _supported(uf, via, dt1, "ragged", ot, "R"):
                        yield {"part": "M", "lengths": l1, "lengths2": l2, "uf": uf, "via": via, "dt1": dt1, "ot": ot,
                               "kind": "ragged-mismatch"}
    if tier == "thorough":
        rng = np.random.default_rng(seed)
        for _ in range(b["random"]):
            n = int(rng.integers(0, 7))
            lengths = [int(x) for x in rng.integers(0, 7, size=n)]
            uf = ALL_BINARY[int(rng.integers(len(ALL_BINARY)))]
            kind = KINDS[int(rng.integers(len(KINDS)))]
            dt1 = DTYPES[int(rng.integers(len(DTYPES)))]
            ot = PYKINDS[int(rng.integers(3))] if kind == "pyscalar" else DTYPES[int(rng.integers(len(DTYPES)))]
            side = "R" if kind == "ragged" else "RL"[int(rng.integers(2))]
            via = ("ufunc", "op")[int(rng.integers(2))]
            if via == "op" and uf not in OPERATORS:
                via = "ufunc"
            if not _supported(uf, via, dt1, kind, ot, side):
                continue
            yield {"part": "R", "lengths": lengths, "uf": uf, "via": via, "dt1": dt1, "kind": kind, "ot": ot, "side": side,
                   "sv": int(rng.integers(2)) if kind not in ("ragged", "column") else 0}


def nontrivial(case):
    if case["kind"] == "ragged-mismatch":
        return True
    if 0 in case["lengths"] or len(case["lengths"]) == 0:
        return True
    if case["kind"] in ("pyscalar", "column"):
        return True
    return case["kind"] != "unary" and case.get("ot") != case["dt1"]


def _sig_class(case):
    k = case["kind"]
    if k == "unary":
        return f"unary:{dtclass(case['dt1'])}"
    other = case["ot"] if k == "pyscalar" else dtclass(case["ot"])
    return f"{k}:{dtclass(case['dt1'])}x{other}"


AXES = [
    ("side", "side", lambda case: ["L" if case.get("side") == "R" else "R"],
     lambda s: None if s is None else {"R": "ragged-left", "L": "ragged-right"}[s]),
    ("rows", "lengths", lambda case: [nonempty_variant(case["lengths"])], rows_class),
]


def _desc(case, rows1, other):
    return (f"{'Python operator for ' if case['via'] == 'op' else 'np.'}{case['uf']} on RaggedArray(rows={rows1}, dtype={case['dt1']})"
            + (f" with {case['kind']} operand {short(other)} on the {'right' if case.get('side', 'R') == 'R' else 'left'}"
               if case["kind"] != "unary" else ""))


def check(case):
    import_repo()
    with warnings.catch_warnings(), np.errstate(all="ignore"):
        warnings.simplefilter("ignore")
        try:
            v = _check(case)
        except Unsupported:
            return None
        if v is None or "sig" in v:
            return v
        axes = AXES if case["kind"] not in ("unary", "ragged") else AXES[1:]
        return refine(case, v, _check, axes)


def _check(case):
    from npstructures import RaggedArray
    lengths, dt1, kind, uf = case["lengths"], case["dt1"], case["kind"], case["uf"]
    f = _fn(uf, case["via"])
    rows1 = cells(lengths, dt1, "mixed")
    ra = mk(rows1, dt1)
    if kind == "ragged-mismatch":
        rows2 = cells(case["lengths2"], case["ot"], "mixed", offset=3)
        rb = mk(rows2, case["ot"])
        try:
            res = f(ra, rb)
        except Exception:
            return None
        return {"msg": f"{uf} of ragged arrays with row lengths {lengths} and {case['lengths2']} was not refused; "
                       f"returned {short(tolist(res) if isinstance(res, RaggedArray) else res)}",
                "sig": "not-refused:ragged-mismatch:" + ("same-nrows" if len(lengths) == len(case["lengths2"]) else "different-nrows")}
    n = len(lengths)
    side = case.get("side", "R")
    other = other_rows = other_flat = other_copy = None
    if kind == "ragged":
        rows2 = cells(lengths, case["ot"], "mixed", offset=3)
        other = mk(rows2, case["ot"])
        other_rows = [np.array(r, dtype=case["ot"]) for r in rows2]
        other_flat = np.array(flat(rows2), dtype=case["ot"])
    elif kind == "column":
        other = _column(n, case["ot"])
        other_copy = other.copy()
        other_rows = [other_copy[i] for i in range(n)]
        other_flat = np.repeat(other_copy.ravel(), lengths) if n else np.zeros(0, dtype=case["ot"])
    elif kind != "unary":
        other = _scalar(kind, case["ot"], case["sv"])
        other_copy = other.copy() if isinstance(other, np.ndarray) else other
        other_rows = [other_copy] * n
        other_flat = other_copy

    def call(a, o):
        if kind == "unary":
            return f(a)
        return f(a, o) if side == "R" else f(o, a)

    # oracle: numpy on each row; numpy's own refusal => the property says nothing about this case
    try:
        exp_flat = call(np.array(flat(rows1), dtype=dt1), other_flat)
        exp_rows = [call(np.array(rows1[i], dtype=dt1), other_rows[i] if other_rows is not None else None) for i in range(n)]
    except (TypeError, ValueError, OverflowError, ZeroDivisionError):
        raise Unsupported()
    exp_dtype = np.asarray(exp_flat).dtype
    desc = _desc(case, rows1, other if kind != "ragged" else rows2)
    try:
        res = call(ra, other)
    except Exception as e:
        return {"msg": f"{desc}: expected rows {[r.tolist() for r in exp_rows]} ({exp_dtype}), raised {type(e).__name__}: {e}",
                "what": f"raised:{type(e).__name__}:{_sig_class(case)}"}
    if not isinstance(res, RaggedArray):
        return {"msg": f"{desc}: result is {type(res).__name__} {short(res)}, not a RaggedArray",
                "what": f"not-ragged:{_sig_class(case)}"}
    got_rows = tolist(res)
    exp_list = [np.asarray(r).tolist() for r in exp_rows]
    if ragged_lengths(res) != lengths or [len(r) for r in got_rows] != lengths:
        return {"msg": f"{desc}: row lengths {ragged_lengths(res)} / rows {got_rows}, expected lengths {lengths}",
                "what": f"wrong-lengths:{_sig_class(case)}"}
    rtol = 1e-6 if (uf == "power" and exp_dtype.kind == "f") else 0.0
    if case["via"] == "op" and (res.dtype != exp_dtype or not seq_eq(got_rows, exp_list, rtol)):
        # numpy's own operators are not always the ufunc (ndarray ** 2 is rewritten to np.square: bool ** 2 is int8
        # but np.power(bool, 2) is int64); a ragged operator that equals the ufunc numpy names for it is accepted
        try:
            uff = getattr(np, uf)
            alt_flat = (uff(np.array(flat(rows1), dtype=dt1)) if kind == "unary" else
                        (uff(np.array(flat(rows1), dtype=dt1), other_flat) if side == "R" else uff(other_flat, np.array(flat(rows1), dtype=dt1))))
            alt_rows = [np.asarray(uff(np.array(rows1[i], dtype=dt1)) if kind == "unary" else
                                   (uff(np.array(rows1[i], dtype=dt1), other_rows[i]) if side == "R"
                                    else uff(other_rows[i], np.array(rows1[i], dtype=dt1)))).tolist() for i in range(n)]
            if res.dtype == np.asarray(alt_flat).dtype and seq_eq(got_rows, alt_rows, rtol):
                exp_dtype, exp_list = res.dtype, alt_rows
        except (TypeError, ValueError, OverflowError, ZeroDivisionError):
            pass
    if res.dtype != exp_dtype:
        also = "" if seq_eq(got_rows, exp_list, rtol) else " (the values differ too)"
        return {"msg": f"{desc}: result dtype {res.dtype} rows {short(got_rows)}; numpy gives dtype {exp_dtype} rows "
                       f"{short(exp_list)}{also}",
                "what": f"wrong-dtype:{_sig_class(case)}"}
    if not seq_eq(got_rows, exp_list, rtol):
        return {"msg": f"{desc}: rows {short(got_rows)}, numpy row by row gives {short(exp_list)}",
                "what": f"wrong-value:{_sig_class(case)}"}
    # operands not modified
    if not seq_eq(tolist(ra), [np.array(r, dtype=dt1).tolist() for r in rows1]):
        return {"msg": f"{desc}: the ragged operand was modified to {tolist(ra)}", "what": f"modified:{_sig_class(case)}"}
    if ra.dtype != np.dtype(dt1) or ragged_lengths(ra) != lengths:
        return {"msg": f"{desc}: the ragged operand changed dtype/lengths to {ra.dtype}/{ragged_lengths(ra)}",
                "what": f"modified:{_sig_class(case)}"}
    if kind == "ragged":
        if not seq_eq(tolist(other), [r.tolist() for r in other_rows]) or other.dtype != np.dtype(case["ot"]):
            return {"msg": f"{desc}: the second ragged operand was modified to {tolist(other)}",
                    "what": f"modified:{_sig_class(case)}"}
    elif kind in ("column", "arr0d"):
        if other.dtype != other_copy.dtype or other.shape != other_copy.shape or not seq_eq(other.tolist(), other_copy.tolist()):
            return {"msg": f"{desc}: the array operand was modified to {other.tolist()}", "what": f"modified:{_sig_class(case)}"}
    return None
