"""C05: RaggedArray._reduce against the assumed contract of ufunc.reduceat.

Contract (from the property): for every row r,
   L(r) > 0  =>  result[r] = U(identity, fold_U(row r))        (numpy's reduce starts from the identity; for ufuncs
                                                                 without identity: result[r] = fold_U(row r))
   L(r) = 0  =>  result[r] = identity                           (only for ufuncs that have one)
and no exception, wherever the empty rows are.  fold_U(D, s, e) is the uninterpreted left fold of the assumed
reduceat / reduce contracts, so the statement holds for every ufunc at once.
"""
import numpy as np
import z3

from .base import Family, register, model_int
from .ragged import sym_ragged
from ..sym.core import SInt, cur
from ..sym.arr import SymArr, I, dim_term, ELEM_CONST, apply_binary
from ..sym.theory import prefix_sum, fold_fn


def telescoping(ctx, g, arr):
    """PS of the lengths view equals S (lemma proved by induction in RaggedArray.readers/size)"""
    ps = prefix_sum(arr)
    ctx.assume_forall("telescoping: PS_lengths == S", lambda q: z3.Implies(z3.And(0 <= q, q <= g.n), ps(q) == g.S(q)))
    return ps


@register
class Reduce(Family):
    name = "RaggedArray._reduce"
    qualname = "npstructures.raggedarray:RaggedArray._reduce"
    serves = ["C05", "C19"]
    assumed = ["ufunc.reduceat contract (DESIGN section 5)", "ufunc.reduce of an empty array = identity",
               "numpy.searchsorted on a sorted array", "numpy.pad(constant)",
               "identity law U(identity, identity) = identity",
               "associativity of ufuncs that have an identity: numpy.reduce(row) = U(identity, left fold of the row)"]

    def kinds(self):
        return ["add", "maximum", "logical_and", "add.keepdims"]

    def extra_functions(self):
        return ["RaggedBase.size", "RaggedBase.ravel", "RaggedArray.__len__"]

    def run(self, ctx, kind):
        uname = kind.split(".")[0]
        ufunc = getattr(np, uname)
        g = sym_ragged(ctx, kind="elem")
        ctx.ghost["g"] = g
        ra = g.ra
        telescoping(ctx, g, ra._shape.lengths)
        ctx.add_index(g.n - 1, g.n)
        if ufunc.identity is not None and not uname.startswith("logical"):
            e0 = ELEM_CONST(ufunc.identity)
            ctx.assume(apply_binary(uname, e0, e0) == e0)        # identity law U(id, id) = id (assumed, listed)
        res = ra._reduce(ufunc, ra, axis=-1, keepdims=kind.endswith("keepdims"))
        fold = fold_fn(uname, g.D)
        r = g.row()
        ctx.add_index(r + 1)
        if kind.endswith("keepdims"):
            ctx.prove("post.shape==(n,1)", z3.And(dim_term(res.shape_[0]) == g.n, z3.BoolVal(res.ndim == 2)))
            val = res.get(r, 0)
        else:
            ctx.prove("post.len==n", dim_term(res.shape_[0]) == g.n)
            val = res.get(r)
        from ..sym.arr import coerce_term
        kindt = "bool" if uname.startswith("logical") else "elem"
        val = coerce_term(val, kindt)
        f = fold(g.S(r), g.S(r) + g.L(r))
        if ufunc.identity is None:
            ctx.prove("post.nonempty row: result[r]==fold(row r)", z3.Implies(g.L(r) > 0, val == f))
        else:
            ident = ELEM_CONST(ufunc.identity) if kindt == "elem" else z3.BoolVal(bool(ufunc.identity))
            ctx.prove("post.nonempty row: result[r]==U(identity, fold(row r))",
                      z3.Implies(g.L(r) > 0, val == apply_binary(uname, ident, f)))
            ctx.prove("post.empty row: result[r]==identity",
                      z3.Implies(g.L(r) == 0, val == ident))

    def concretise(self, kind, model, ghost):
        g = ghost["g"]
        n = min(max(model_int(model, g.n), 0), 5)
        return {"lengths": [min(max(model_int(model, g.L(z3.IntVal(r))), 0), 4) for r in range(n)], "ufunc": kind.split(".")[0]}

    def concrete(self, case):
        from npstructures import RaggedArray
        ls = case["lengths"]
        tot = sum(ls)
        rows, v = [], 3
        for l in ls:
            rows.append([((v + i) * 7) % 11 - 3 for i in range(l)])
            v += l
        ra = RaggedArray(np.array([x for r in rows for x in r], dtype=np.int64), ls)
        uf = getattr(np, case["ufunc"])
        try:
            got = uf.reduce(ra, axis=-1)
        except Exception as e:
            if uf.identity is None and tot == 0:
                return None
            return {"msg": f"np.{case['ufunc']}.reduce on rows {rows} raised {type(e).__name__}: {e}", "sig": "raised:_reduce"}
        for r, row in enumerate(rows):
            if row or uf.identity is not None:
                exp = uf.reduce(np.array(row, dtype=np.int64))
                if got[r] != exp:
                    return {"msg": f"np.{case['ufunc']}.reduce on rows {rows}: row {r} gives {got[r]}, numpy {exp}", "sig": "wrong:_reduce"}

    def bounded_cases(self, tier, seed):
        from ..bounded.common import length_vectors
        for ls in length_vectors(4, 2):
            for u in ("add", "maximum", "logical_and", "bitwise_xor", "multiply"):
                yield {"lengths": ls, "ufunc": u}

    def nontrivial(self, case):
        return 0 in case["lengths"]


@register
class ReductionWrapper(Family):
    """the `reduction` decorator and the named reductions: axis=None reduces the flat data with the numpy function of
    the same name, keepdims returns the same numbers as a column, other axes are refused, and each named reduction is
    the reduce method of its ufunc along the last axis"""
    name = "raggedarray.reduction wrapper + named reductions"
    qualname = "npstructures.raggedarray:reduction"
    serves = ["C05"]
    assumed = ["numpy dispatch protocol: ufunc.reduce(ragged, axis) calls RaggedArray.__array_ufunc__(ufunc, 'reduce', ...)"]

    def kinds(self):
        return ["sum", "prod", "all", "any", "max", "min", "table"]

    def run(self, ctx, kind):
        import npstructures.raggedarray as ramod
        from npstructures import arrayfunctions as af
        if kind == "table":
            ok = all(af.HANDLED_FUNCTIONS[getattr(np, name)].__name__ == "<lambda>" for name in ("sum", "all", "any", "max", "min", "prod", "mean", "argmax", "argmin", "cumsum", "nonzero"))
            want = {np.add: "sum", np.logical_and: "all", np.logical_or: "any", np.maximum: "max", np.minimum: "min", np.multiply: "prod"}
            ctx.prove("post.REDUCTIONS maps each ufunc to the method of the matching name", z3.BoolVal(dict(af.REDUCTIONS) == want and ok))

            class Probe:
                def __getattr__(s, name):
                    return lambda *a, **k: ("CALLED", name, a, k)
            res = {name: af.HANDLED_FUNCTIONS[getattr(np, name)](Probe(), axis=-1) for name in ("sum", "all", "any", "max", "min", "prod", "mean")}
            ctx.prove("post.np.<name>(ra, ...) calls ra.<name>(...) with the same arguments",
                      z3.BoolVal(all(v == ("CALLED", k, (), {"axis": -1}) for k, v in res.items())))
            return
        g = sym_ragged(ctx, kind="elem")
        ra = g.ra
        want_ufunc = {"sum": "add", "prod": "multiply", "all": "logical_and", "any": "logical_or", "max": "maximum", "min": "minimum"}[kind]
        rec = []
        n = g.n
        col = SymArr.symbolic("rowres", n, "elem", np.int64, assume_len=False)
        old = ramod.RaggedArray.__dict__["_reduce"]
        ramod.RaggedArray._reduce = lambda self_, ufunc, ra_, axis=0, **kw: rec.append((ufunc.__name__, ra_, axis, kw)) or col
        try:
            out = getattr(ra, kind)(axis=-1)
            out_k = getattr(ra, kind)(axis=-1, keepdims=True)
            out_2 = getattr(ra, kind)(axis=7)
        finally:
            ramod.RaggedArray._reduce = old
        ctx.prove("post.axis=-1: the ufunc's reduce over the rows of this array", z3.BoolVal(
            out is col and len(rec) == 2 and all(r[0] == want_ufunc and r[1] is ra and r[2] in (-1, 1) for r in rec)))
        t = z3.Int("t")
        ctx.skolem(z3.And(0 <= t, t < n))
        ctx.prove("post.keepdims: the same numbers as an (n, 1) column", z3.And(z3.BoolVal(out_k.ndim == 2), dim_term(out_k.shape_[0]) == n,
                                                                                z3.BoolVal(out_k.shape_[1] == 1), out_k.get(t, 0) == col.fn(t)))
        ctx.prove("post.unsupported axis refused", z3.BoolVal(out_2 is NotImplemented))
        # axis=None: the numpy function of the same name on the flat data
        from ..sym import symnp
        seen = []
        real = getattr(symnp.SymNumpy, kind, None)

        class Res:
            def item(s):
                return "SCALAR"
        setattr(symnp.SymNumpy, kind, lambda self_, x, *a, **k: seen.append(x) or Res())
        try:
            out_n = getattr(ra, kind)()
        finally:
            if real is None:
                delattr(symnp.SymNumpy, kind)
            else:
                setattr(symnp.SymNumpy, kind, real)
        ctx.prove("post.axis=None: np.<name> of all elements, as a scalar", z3.BoolVal(out_n == "SCALAR" and len(seen) == 1 and seen[0] is g.D))
