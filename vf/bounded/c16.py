"""C16 bounded stand-in: arithmetic on RunLengthArrays equals arithmetic on the dense arrays (oracle: numpy on the
decoded operands).

* unary ufunc, ufunc with a scalar on either side, ufunc of two equally long RunLengthArrays (every pair of run
  patterns = every relative alignment of the boundaries), np.concatenate of 2..3 RunLengthArrays: np.asarray(result)
  must equal numpy's result on the dense operands element by element (NaN == NaN, otherwise numpy ==), with the
  same dtype; operations numpy itself refuses on the dense operands (TypeError / OverflowError) are outside the
  property and skipped.
* sum / any / all / max / mean (method and, where registered, np.<fn>(rla)) and np.histogram(rla[, bins]): equal to
  numpy on the decoded array.  Integer / bool results are compared exactly as numbers (the dtype of a reduction
  result is not demanded).  sum / mean of FLOAT arrays, and mean of integer arrays, are compared with a tolerance
  (|got-exp| <= tol * sum|x| resp. sum|x|/n, tol = 1e-12, float32: 1e-5) because run-wise summation legitimately
  differs from numpy's pairwise summation; when sum|x| of the finite elements overflows the dtype the comparison is
  skipped (the result then depends on the summation order only).
* operands are not modified: boundaries and values of every operand are bit-identical before and after.
Not demanded: sign of a zero (numpy == treats -0.0 and 0.0 as equal, and so does the statement's "equal"),
np.max(rla) (only the method exists; the statement does not say through which spelling), 0-d arrays as scalars.
Sig classes for scalars: py-int / py-float / py-bool / np-bool / np-number, side array-op-scalar / scalar-op-array, and
the suffix ":operator" when the operation is spelled with a Python operator (rla - 2, np.int8(7) < rla) instead of the
ufunc (np.subtract(rla, 2)); the two spellings reach __array_ufunc__ with different operand types (numpy hands a
numpy scalar on the left of a comparison operator over as a 0-d array), hence the separate class.
"""
import math

import numpy as np

from .common import import_repo
from . import rle_util as U

PROPERTY = "C16"
RULE = ("exhaustive: (ufunc2) every pair of 2-value int64 arrays of equal length <= P under add/subtract/maximum/equal/"
        "bitwise_xor, every pair of 3-value arrays of length <= Q (int64 add; float64 with NaN/-0.0 under add/maximum/less/"
        "multiply), and for every dtype pair x every ufunc numpy accepts for it every pair of 2-value arrays of length <= 2 "
        "plus fixed nested/interleaved/coincident pairs of length 5; (scalar) selected patterns of every dtype x every ufunc "
        "x Python and numpy scalars x both sides, ufunc and operator spelling; (unary) every 3-value array of length <= 4; "
        "(reduce) sum/any/all/max/mean/histogram(default, bins=3) on every 3-value array of length <= R of each dtype "
        "alphabet; (concat) every pair of 2-value arrays of length <= 3 and triple of length <= 2, four dtype mixes. "
        "thorough adds default_rng(seed) operands of length <= 60. non-trivial = an operand has >= 2 runs (ufunc2: both)")
BOUNDS = {
    "quick": {"dtypes": U.QUICK_DTYPES, "pair2_max_len": 6, "pair3_max_len_int": 4, "pair3_max_len_float": 3,
              "matrix_pair_max_len": 2, "unary_max_len": 4, "reduce_max_len": 5, "reduce_max_len_small_dtypes": 4,
              "concat2_max_len": 3, "concat3_max_len": 2, "random": 0},
    "thorough": {"dtypes": U.ALL_DTYPES, "pair2_max_len": 8, "pair3_max_len_int": 5, "pair3_max_len_float": 4,
                 "matrix_pair_max_len": 3, "unary_max_len": 6, "reduce_max_len": 7, "reduce_max_len_small_dtypes": 5,
                 "concat2_max_len": 4, "concat3_max_len": 3, "random": 100000},
}
PAIR2_UFUNCS = ["add", "subtract", "maximum", "equal", "bitwise_xor"]
REDUCERS = ["sum", "any", "all", "max", "mean", "histogram", "histogram3"]
A2, B2 = [7, 8], [7, 2]
FIXED5 = [([0, 0, 0, 0, 0], [0, 1, 1, 1, 0]), ([0, 1, 1, 1, 0], [0, 0, 1, 0, 0]), ([0, 0, 1, 1, 1], [0, 0, 0, 1, 1]),
          ([0, 0, 1, 1, 0], [0, 0, 1, 1, 0]), ([0, 1, 0, 1, 0], [1, 1, 0, 0, 1])]


def _two(d, tier, which):
    al = U.alphabets(d, tier)
    alpha = al[-1][1] if which == "a" else al[0][1]
    return alpha[:2]


def _scalar_arrays(d, tier):
    out = []
    for name, alpha in U.alphabets(d, tier):
        for p in ([0], [0, 0, 0], [0, 1, 2], [0, 0, 1, 1], [0, 1, 1, 1, 1, 2]):
            w = [alpha[i % len(alpha)] for i in p]
            if w not in out:
                out.append(w)
    return out


def cases(tier, seed):
    b = BOUNDS[tier]
    dts = b["dtypes"]
    # ufuncs on two run-length operands: structure
    for n in range(1, b["pair2_max_len"] + 1):
        for x, y in U.binary_pairs(n, A2, B2):
            for u in (PAIR2_UFUNCS if n <= 7 else ["add"]):
                yield {"k": "ufunc2", "dtype": "int64", "a": x, "dtype2": "int64", "b": y, "u": u}
    for n in range(1, b["pair3_max_len_int"] + 1):
        for x, y in U.binary_pairs(n, [7, 8, 9], [1, 7, -2]):
            yield {"k": "ufunc2", "dtype": "int64", "a": x, "dtype2": "int64", "b": y, "u": "add"}
    for n in range(1, b["pair3_max_len_float"] + 1):
        for x, y in U.binary_pairs(n, [float("nan"), -0.0, 1.5], [0.0, float("inf"), float("nan")]):
            for u in ("add", "maximum", "less", "multiply"):
                yield {"k": "ufunc2", "dtype": "float64", "a": x, "dtype2": "float64", "b": y, "u": u}
    # ufuncs on two run-length operands: dtype-pair x ufunc matrix
    for d1 in dts:
        for d2 in dts:
            us = U.usable_ufuncs2(d1, d2)
            a2, b2 = _two(d1, tier, "a"), _two(d2, tier, "b")
            pairs = [p for n in range(1, b["matrix_pair_max_len"] + 1) for p in U.binary_pairs(n, a2, b2)]
            pairs += [([a2[i] for i in p], [b2[i] for i in q]) for p, q in FIXED5]
            for x, y in pairs:
                for u in us:
                    yield {"k": "ufunc2", "dtype": d1, "a": x, "dtype2": d2, "b": y, "u": u}
    # scalars on either side
    scs = U.scalars_for(tier)
    for d in dts:
        arrays = _scalar_arrays(d, tier)
        z = np.ones(2, dtype=d)
        for sc in scs:
            s = U.dec_scalar(sc)
            for u in U.UFUNCS2:
                f = getattr(np, u)
                for side in ("r", "l"):
                    if not U.applicable((lambda q: f(q, s)) if side == "r" else (lambda q: f(s, q)), z):
                        continue
                    for i, w in enumerate(arrays):
                        yield {"k": "scalar", "dtype": d, "a": w, "u": u, "sc": sc, "side": side}
                        if u in U.OPERATORS and i % 3 == 2:
                            yield {"k": "scalar", "dtype": d, "a": w, "u": u, "sc": sc, "side": side, "form": "operator"}
    # unary
    for d in dts:
        us = U.usable_ufuncs1(d)
        for name, alpha in U.alphabets(d, tier):
            for n in range(1, b["unary_max_len"] + 1):
                for w in U.words(alpha, n):
                    for u in us:
                        yield {"k": "unary", "dtype": d, "a": w, "u": u}
                        if u in U.OPERATORS and n == 3:
                            yield {"k": "unary", "dtype": d, "a": w, "u": u, "form": "operator"}
    # reductions and histogram
    for d in dts:
        nmax = b["reduce_max_len"] if d in ("int64", "uint64", "float64", "float32", "bool") else b["reduce_max_len_small_dtypes"]
        for name, alpha in U.alphabets(d, tier):
            for n in range(1, nmax + 1):
                for w in U.words(alpha, n):
                    for fn in REDUCERS:
                        yield {"k": "reduce", "dtype": d, "a": w, "fn": fn}
                    if d in ("int64", "float64") and n <= 4:
                        for dv in ("ge-min", "gt-max", "times0"):
                            for fn in ("any", "all", "sum", "max", "mean"):
                                yield {"k": "reduce", "dtype": d, "a": w, "fn": fn, "derive": dv}
    # concatenation
    mixes = [("int64", A2, "int64", B2), ("float64", [float("nan"), -0.0], "float32", [0.0, 1.5]),
             ("uint8", [255, 0], "int8", [-1, 0]), ("bool", [False, True], "bool", [False, True])]
    for d1, a1, d2, a2 in mixes:
        ws1 = [w for n in range(1, b["concat2_max_len"] + 1) for w in U.words(a1, n)]
        ws2 = [w for n in range(1, b["concat2_max_len"] + 1) for w in U.words(a2, n)]
        for x in ws1:
            for y in ws2:
                yield {"k": "concat", "parts": [{"dtype": d1, "a": x}, {"dtype": d2, "a": y}]}
        ws1 = [w for n in range(1, b["concat3_max_len"] + 1) for w in U.words(a1, n)]
        ws2 = [w for n in range(1, b["concat3_max_len"] + 1) for w in U.words(a2, n)]
        for x in ws1:
            for y in ws2:
                for z in ws1:
                    yield {"k": "concat", "parts": [{"dtype": d1, "a": x}, {"dtype": d2, "a": y}, {"dtype": d1, "a": z}],
                           "seq": "tuple" if len(z) == 1 else "list"}
    if b["random"]:
        yield from _random_cases(b, tier, seed)


def _random_runs(rng, alpha, n):
    out = []
    while len(out) < n:
        out += [alpha[int(rng.integers(0, len(alpha)))]] * int(rng.choice([1, 1, 2, 3, 5, 12]))
    return out[:n]


def _random_cases(b, tier, seed):
    rng = np.random.default_rng(seed)
    dts = b["dtypes"]
    scs = U.scalars_for(tier)

    def pick(d):
        al = U.alphabets(d, tier)
        return al[int(rng.integers(0, len(al)))][1]
    for _ in range(b["random"]):
        d = dts[int(rng.integers(0, len(dts)))]
        n = int(rng.integers(1, 61))
        w = _random_runs(rng, pick(d), n)
        kind = int(rng.integers(0, 6))
        if kind in (0, 1):
            d2 = dts[int(rng.integers(0, len(dts)))]
            us = U.usable_ufuncs2(d, d2)
            yield {"k": "ufunc2", "dtype": d, "a": w, "dtype2": d2, "b": _random_runs(rng, pick(d2), n),
                   "u": us[int(rng.integers(0, len(us)))]}
        elif kind == 2:
            yield {"k": "scalar", "dtype": d, "a": w, "u": U.UFUNCS2[int(rng.integers(0, len(U.UFUNCS2)))],
                   "sc": scs[int(rng.integers(0, len(scs)))], "side": "lr"[int(rng.integers(0, 2))]}
        elif kind == 3:
            us = U.usable_ufuncs1(d)
            yield {"k": "unary", "dtype": d, "a": w, "u": us[int(rng.integers(0, len(us)))]}
        elif kind == 4:
            yield {"k": "reduce", "dtype": d, "a": w, "fn": REDUCERS[int(rng.integers(0, len(REDUCERS)))]}
        else:
            parts = [{"dtype": d, "a": w}]
            for _i in range(int(rng.integers(1, 3))):
                parts.append({"dtype": d, "a": _random_runs(rng, pick(d), int(rng.integers(1, 30)))})
            yield {"k": "concat", "parts": parts}


def nontrivial(case):
    k = case["k"]
    if k == "concat":
        return any(U.n_runs(U.arr(p["a"], p["dtype"])) > 1 for p in case["parts"])
    a = U.arr(case["a"], case["dtype"])
    if k == "ufunc2":
        return U.n_runs(a) > 1 and U.n_runs(U.arr(case["b"], case["dtype2"])) > 1
    return U.n_runs(a) > 1


# ---------------------------------------------------------------------------------------------

def _tag(case):
    k = case["k"]
    if k == "ufunc2":
        return f"ufunc2:{case['u']}:{U.dtype_class(case['dtype'])},{U.dtype_class(case['dtype2'])}"
    if k == "scalar":
        return (f"scalar:{U.scalar_tag(case['sc'])}:{'array-op-scalar' if case['side'] == 'r' else 'scalar-op-array'}"
                + (":operator" if case.get("form") == "operator" else ""))
    if k == "unary":
        return f"unary:{case['u']}"
    if k == "concat":
        return "concat"
    return f"{case['fn']}:{case['dtype']}" + (":" + case["derive"] if case.get("derive") else "")


def _what(case):
    k = case["k"]
    if k == "concat":
        return "np.concatenate(" + ", ".join("rla(" + U.show(U.arr(p["a"], p["dtype"])) + ")" for p in case["parts"]) + ")"
    a = "rla(" + U.show(U.arr(case["a"], case["dtype"])) + ")"
    name = ("operator " if case.get("form") == "operator" else "np.") + case.get("u", "")
    if k == "unary":
        return f"{name}({a})"
    if k == "scalar":
        s = U.show(U.dec_scalar(case["sc"]))
        return f"{name}({a}, {s})" if case["side"] == "r" else f"{name}({s}, {a})"
    if k == "ufunc2":
        return f"{name}({a}, rla({U.show(U.arr(case['b'], case['dtype2']))}))"
    dv = {"ge-min": " >= its minimum", "gt-max": " > its maximum", "times0": " * 0"}.get(case.get("derive"), "")
    return f"{case['fn']} of {a}{dv}"


def _check_operation(case):
    from npstructures.runlengtharray import RunLengthArray
    dense, fn = U.operation(case)
    try:
        exp = fn(dense)
    except Exception:
        return None                 # numpy refuses the dense operation: outside the property
    exp = np.asarray(exp)
    tag, what = _tag(case), _what(case)
    ops = [RunLengthArray.from_array(d.copy()) for d in dense]
    before = [U.snapshot(r) for r in ops]
    try:
        res = fn(ops)
        dec = np.asarray(res)
    except Exception as e:
        return {"msg": f"{what}: expected {U.show(exp)}, raised {type(e).__name__}: {e}", "sig": f"raised:{type(e).__name__}:{tag}"}
    if not U.same(dec, exp):
        return {"msg": f"{what}: expected {U.show(exp)}, got {U.show(dec)}", "sig": f"wrong:{tag}"}
    if dec.dtype != exp.dtype:
        return {"msg": f"{what}: expected dtype {exp.dtype}, got {dec.dtype}", "sig": f"wrong-dtype:{tag}"}
    after = [U.snapshot(r) for r in ops]
    if after != before:
        return {"msg": f"{what}: an operand was modified (now {[U.show(np.asarray(r)) for r in ops]})", "sig": f"modified:{tag}"}
    return None


def _num_equal(got, exp):
    """exact numeric equality of two scalars (Python semantics: int vs float compared exactly), NaN == NaN"""
    g = got.item() if isinstance(got, (np.generic, np.ndarray)) else got
    e = exp.item() if isinstance(exp, (np.generic, np.ndarray)) else exp
    if isinstance(g, float) and isinstance(e, float) and math.isnan(g) and math.isnan(e):
        return True
    return g == e


def _float_close(got, exp, dense, divide):
    """-> True / False / None (None: not comparable - the finite part overflows the dtype)"""
    g, e = float(got), float(exp)
    x = dense.astype(np.float64)
    fin = x[np.isfinite(x)]
    try:
        scale = math.fsum(abs(float(v)) for v in fin)
    except OverflowError:
        return None
    limit = float(np.finfo(dense.dtype).max) if dense.dtype.kind == "f" else float(np.finfo(np.float64).max)
    if not math.isfinite(scale) or scale > limit:
        return None
    if math.isnan(g) or math.isnan(e) or math.isinf(g) or math.isinf(e):
        return (math.isnan(g) and math.isnan(e)) or g == e
    tol = 1e-5 if dense.dtype == np.float32 else 1e-12
    return abs(g - e) <= tol * scale / divide


def _check_reduce(case):
    from npstructures.runlengtharray import RunLengthArray
    a = U.arr(case["a"], case["dtype"])
    fn = case["fn"]
    tag, what = _tag(case), _what(case)
    r = RunLengthArray.from_array(a.copy())
    if case.get("derive"):
        # the operand of the reduction is itself a result of the library (unary / scalar ufuncs keep the run boundaries, so neighbouring runs
        # may carry equal values): "on the decoded array" holds for these as for freshly encoded ones
        if case["derive"] == "ge-min":
            r, a = (r >= a.min()), (a >= a.min())
        elif case["derive"] == "gt-max":
            r, a = (r > a.max()), (a > a.max())
        else:
            r, a = (r * 0), (a * 0)
    before = U.snapshot(r)
    if fn in ("histogram", "histogram3"):
        calls = [("np.histogram(rla)", lambda x: np.histogram(x))] if fn == "histogram" else \
                [("np.histogram(rla, bins=3)", lambda x: np.histogram(x, bins=3)), ("np.histogram(rla, 3)", lambda x: np.histogram(x, 3))]
        if fn == "histogram3":
            # an explicit range / explicit bin edges that do NOT cover the data: numpy ignores the values outside, so must the run-length version
            try:
                lo, hi = float(a.min()), float(a.max())
            except Exception:
                lo, hi = 0.0, 0.0
            if np.isfinite(lo) and np.isfinite(hi) and hi - lo >= 2:
                rng, edges = (lo + 0.5, hi - 0.5), [lo + 0.5, lo + (hi - lo) / 2, hi - 0.5]
                calls += [(f"np.histogram(rla, 3, {rng})", lambda x: np.histogram(x, 3, rng)),
                          (f"np.histogram(rla, bins={edges})", lambda x: np.histogram(x, bins=edges))]
    elif fn == "max":
        calls = [("rla.max()", lambda x: x.max())]
    else:
        calls = [(f"rla.{fn}()", lambda x: getattr(x, fn)()), (f"np.{fn}(rla)", lambda x: getattr(np, fn)(x))]
    for name, f in calls:
        try:
            exp = f(a)
        except Exception:
            continue               # numpy refuses (e.g. histogram of NaN / inf): outside the property
        try:
            got = f(r)
        except Exception as e:
            return {"msg": f"{name} for {what}: expected {_sh(exp)}, raised {type(e).__name__}: {e}",
                    "sig": f"raised:{type(e).__name__}:{tag}"}
        if fn.startswith("histogram"):
            ok = (isinstance(got, tuple) and len(got) == 2 and U.same(got[0], exp[0]) and U.same(got[1], exp[1]))
        elif fn in ("any", "all"):
            ok = np.ndim(got) == 0 and bool(got) == bool(exp)
        elif np.ndim(got) != 0:
            ok = False
        elif fn == "max" or (fn == "sum" and a.dtype.kind != "f"):
            ok = _num_equal(got, exp)
        else:
            ok = _float_close(got, exp, a, len(a) if fn == "mean" else 1)
            if ok is None:
                continue
        if not ok:
            return {"msg": f"{name} for {what}: expected {_sh(exp)}, got {_sh(got)}", "sig": f"wrong:{tag}"}
    if U.snapshot(r) != before:
        return {"msg": f"{what}: the operand was modified", "sig": f"modified:{tag}"}
    return None


def _sh(x):
    if isinstance(x, tuple):
        return "(" + ", ".join(U.show(np.asarray(e)) for e in x) + ")"
    return U.show(x)


def check(case):
    import_repo()
    with np.errstate(all="ignore"):
        if case["k"] == "reduce":
            return _check_reduce(case)
        return _check_operation(case)
