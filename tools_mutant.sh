#!/bin/bash
# usage: tools_mutant.sh <prop> <file relative to repo> <python-regex-old> <new> [extra check args]
# copies /repo to a scratch dir, applies one textual mutation, runs ./check there, removes the copy
set -e
PROP=$1; FILE=$2; OLD=$3; NEW=$4; shift 4
S=$(mktemp -d /tmp/vfmut.XXXXXX)
cp -r /repo/npstructures $S/npstructures
python3 - "$S/$FILE" "$OLD" "$NEW" <<'PY'
import sys
p, old, new = sys.argv[1:4]
s = open(p).read()
assert s.count(old) >= 1, "pattern not found"
open(p, 'w').write(s.replace(old, new, 1))
PY
cd /verif
set +e
VERIF_REPO=$S ./check $PROP "$@" 2>&1 | tail -6
echo "exit=${PIPESTATUS[0]}"
rm -rf $S
