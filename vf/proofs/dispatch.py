"""C02-O1: index dispatch of IndexableArray (_get_row_subset / _get_row_col_subset / _get_row), i.e. which
helper each kind of index expression is routed to and with which arguments.  Type dispatch is concrete in Python,
so each kind is one execution of the real function with recording stand-ins for the geometry object; the index
values themselves stay symbolic where they are integers."""
import numpy as np
import z3

from .base import Family, register
from .ragged import sym_ragged, sym_shape
from ..sym.core import SInt, cur
from ..sym.arr import SymArr, I, dim_term, wrap_index


class ShapeRecorder:
    """stands for self._shape: records view / view_rows calls; behaves as a contiguous shape otherwise"""
    def __init__(self, real, log):
        self.real, self.log = real, log

    def view(self, idx, squeeze=True):
        self.log.append(("view", idx))
        return ("VIEW", idx)

    def view_rows(self, idx):
        self.log.append(("view_rows", idx))
        return ColRecorder(self.log, idx)

    def __getattr__(self, name):
        return getattr(self.real, name)


class ColRecorder:
    def __init__(self, log, rows):
        self.log, self.rows = log, rows

    def col_slice(self, cols):
        self.log.append(("col_slice", cols))
        return ("VIEW2", self.rows, cols)


@register
class RowSubsetDispatch(Family):
    name = "IndexableArray._get_row_subset"
    qualname = "npstructures.raggedarray.indexablearray:IndexableArray._get_row_subset"
    serves = ["C02", "C03", "C06"]
    assumed = ["callee contracts: RaggedShape.view / view_rows, RaggedView2.col_slice, _get_element, get_flat_indices (own families)"]

    def kinds(self):
        return ["slice", "list", "ndarray", "empty-list", "ellipsis", "()", "(x,)", "(rows, colslice)", "(rows, colint)",
                "(..., cols)", "(rows, ...)", "(i, j)", "(i, cols)", "int", "np0d", "ragged-bool-mask", "string", "3-tuple+ellipsis"]

    def extra_functions(self):
        return ["IndexableArray._get_row_col_subset", "IndexableArray._get_multiple_rows", "IndexableArray._get_view"]

    def run(self, ctx, kind):
        from npstructures import RaggedArray
        from npstructures.raggedarray.indexablearray import IndexableArray
        g = sym_ragged(ctx)
        ra = g.ra
        log = []
        real_shape = ra._shape
        rec = ShapeRecorder(real_shape, log)
        ra._shape = rec
        elem_calls = []
        old_el, old_view = IndexableArray.__dict__["_get_element"], IndexableArray.__dict__["_get_view"]
        IndexableArray._get_element = lambda self_, r, c: elem_calls.append((r, c)) or ("ELEMENT", r, c)
        IndexableArray._get_view = lambda self_, view, do_split=False: ("FLAT", view)
        sl = slice(SInt(z3.Int("a")), None, SInt(z3.Int("s")))
        cs = slice(None, SInt(z3.Int("b")), None)
        lst = [1, 0]
        arr = np.array([1, 0])
        i, j = SInt(z3.Int("i")), SInt(z3.Int("j"))
        full = lambda x: hasattr(x, "start") and x.start is None and x.stop is None and x.step is None
        try:
            if kind == "slice":
                out = ra._get_row_subset(sl)
                ok = out == ("VIEW", sl) and log == [("view", sl)]
            elif kind == "list":
                out = ra._get_row_subset(lst)
                ok = out[0] == "VIEW" and np.array_equal(out[1], arr) and len(log) == 1
            elif kind == "ndarray":
                out = ra._get_row_subset(arr)
                ok = out[0] == "VIEW" and out[1] is arr
            elif kind == "empty-list":
                out = ra._get_row_subset([])
                ok = out[0] == "VIEW" and len(out[1]) == 0 and out[1].dtype.kind == "i"
            elif kind == "ellipsis":
                out = ra._get_row_subset(Ellipsis)
                ok = full(out[0]) and out[1] is rec
            elif kind == "()":
                out = ra._get_row_subset(())
                ok = full(out[0]) and out[1] is rec
            elif kind == "(x,)":
                out = ra._get_row_subset((sl,))
                ok = out == ("VIEW", sl)
            elif kind == "(rows, colslice)":
                out = ra._get_row_subset((sl, cs))
                ok = out == ("VIEW2", sl, cs) and log == [("view_rows", sl), ("col_slice", cs)]
            elif kind == "(rows, colint)":
                out = ra._get_row_subset((sl, j))
                ok = out[1] is None and out[0] == "FLAT" or (isinstance(out, tuple) and out[0] == ("FLAT", ("VIEW2", sl, j))[0])
                ok = bool(ok) and log == [("view_rows", sl), ("col_slice", j)]
            elif kind == "(..., cols)":
                out = ra._get_row_subset((Ellipsis, cs))
                ok = out[0] == "VIEW2" and full(out[1]) and out[2] is cs
            elif kind == "(rows, ...)":
                out = ra._get_row_subset((sl, Ellipsis))
                ok = out[0] == "VIEW2" and out[1] is sl and full(out[2])
            elif kind == "(i, j)":
                out = ra._get_row_subset((i, j))
                ok = out == ("ELEMENT", i, j) and not log
            elif kind == "(i, cols)":
                out = ra._get_row_subset((i, cs))
                ok = log == [("view_rows", i), ("col_slice", cs)] and out[1] is None
            elif kind == "3-tuple+ellipsis":
                out = ra._get_row_subset((sl, Ellipsis, cs))
                ok = out == ("VIEW2", sl, cs)
            elif kind in ("int", "np0d"):
                ra._shape = real_shape                    # _get_row uses the real geometry
                n = g.n
                it = z3.Int("i")
                try:
                    out = ra._get_row_subset(i)
                except IndexError:
                    ctx.prove("raises=>row does not exist", z3.Not(z3.And(it >= -n, it < n)))
                    return
                ctx.prove("returns=>row exists", z3.And(it >= -n, it < n))
                w = wrap_index(it, n)
                ctx.add_index(w, it)
                ctx.prove("post.row slice [S(i), S(i)+L(i))", z3.And(I(out[0].start) == g.S(w), I(out[0].stop) == g.S(w) + g.L(w),
                                                                     z3.BoolVal(out[0].step is None and out[1] is None)))
                return
            elif kind == "ragged-bool-mask":
                ra._shape = real_shape
                mk = SymArr.symbolic("mask", g.S(g.n), "bool", bool, assume_len=False)
                mask = RaggedArray(mk, real_shape)
                out = ra._get_row_subset(mask)
                nz = ctx.ghost["nonzero_facts"][-1]
                t = z3.Int("t")
                ctx.skolem(z3.And(0 <= t, t < nz.cnt))
                ctx.add_index(t)
                ctx.prove("post.addresses of the true cells in row-major order", z3.And(out[0].get(t) == nz.pos(t), mk.fn(nz.pos(t))))
                ctx.prove("post.flat result (no shape)", z3.BoolVal(out[1] is None))
                return
            else:
                out = ra._get_row_subset("rows")
                ok = out is NotImplemented
        finally:
            IndexableArray._get_element, IndexableArray._get_view = old_el, old_view
            ra._shape = real_shape
        ctx.prove(f"post.{kind} routed to the right helper with the caller's selectors", z3.BoolVal(bool(ok)))
