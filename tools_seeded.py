"""Evaluates seeded changes: tools_seeded.py <dir with patch.diff + demo.py> [<dir> ...] [--props C02,C03]

For each change: scratch copy of /repo (outside /repo and /verif), apply the patch, confirm that the pinned test suite
still passes and that the demonstration fails with the change and passes without it, then run the quick check of the
property (and of the extra properties given) with VERIF_REPO pointing at the scratch copy. Results are written to
/verif/seeded/<id>/ (patch.diff, demo.py, meta.json). The scratch copy is removed afterwards."""
import json
import os
import re
import shutil
import subprocess
import sys
import tempfile
import time

VERIF = os.path.dirname(os.path.abspath(__file__))


def sh(cmd, cwd=None, env=None, timeout=3600):
    e = dict(os.environ)
    if env:
        e.update(env)
    p = subprocess.run(cmd, shell=True, cwd=cwd, env=e, capture_output=True, text=True, timeout=timeout)
    return p.returncode, p.stdout + p.stderr


def evaluate(src, extra_props=()):
    name = os.path.basename(src.rstrip("/"))
    prop = name.split("_")[0]
    out_dir = os.path.join(VERIF, "seeded", name)
    os.makedirs(out_dir, exist_ok=True)
    for f in ("patch.diff", "demo.py", "notes.md"):
        if os.path.exists(os.path.join(src, f)) and os.path.abspath(os.path.join(src, f)) != os.path.abspath(os.path.join(out_dir, f)):
            shutil.copy(os.path.join(src, f), os.path.join(out_dir, f))
    scratch = tempfile.mkdtemp(prefix="vfseed_", dir="/tmp")
    meta = {"id": name, "breaks_property": prop, "ran": []}
    try:
        for item in ("npstructures", "tests", "conftest.py", "setup.cfg", "setup.py", "tox.ini"):
            s = os.path.join("/repo", item)
            if os.path.isdir(s):
                shutil.copytree(s, os.path.join(scratch, item), ignore=shutil.ignore_patterns("__pycache__"))
            elif os.path.exists(s):
                shutil.copy(s, scratch)
        rc, out = sh(f"git apply --whitespace=nowarn {os.path.join(out_dir, 'patch.diff')}", cwd=scratch)
        meta["patch_applies"] = rc == 0
        if rc != 0:
            meta["error"] = out[-500:]
            return meta
        env = {"PYTHONPATH": scratch}
        rc, out = sh("/venv/bin/python -m pytest -q -p no:cacheprovider tests 2>&1 | tail -3", cwd=scratch, env=env)
        meta["suite_with_change"] = out.strip().splitlines()[-1] if out.strip() else ""
        meta["suite_passes_with_change"] = " passed" in out and "failed" not in out and "error" not in out.lower()
        rc1, out1 = sh(f"/venv/bin/python {os.path.join(out_dir, 'demo.py')}", cwd=scratch, env=env, timeout=1200)
        rc0, out0 = sh(f"/venv/bin/python {os.path.join(out_dir, 'demo.py')}", cwd="/repo", env={"PYTHONPATH": "/repo"}, timeout=1200)
        meta["demo_exit_with_change"], meta["demo_exit_without_change"] = rc1, rc0
        meta["demo_tail_with_change"] = out1.strip()[-400:]
        meta["ran"] += ["pytest tests (scratch copy with the change)", "demo.py with the change", "demo.py on /repo"]
        meta["confirmed"] = bool(meta["suite_passes_with_change"] and rc1 != 0 and rc0 == 0)
        checks = {}
        for p in [prop] + [q for q in extra_props if q != prop]:
            t0 = time.time()
            rc, out = sh(f"./check {p} --tier quick", cwd=VERIF, env={"VERIF_REPO": scratch, "VERIF_EVIDENCE_DIR": os.path.join(scratch, "evidence")}, timeout=3600)
            viol = [l for l in out.splitlines() if l.startswith("VIOLATION")]
            sources = sorted({m.group(1) for m in re.finditer(r"^  (proof|bounded|family-bounded)[: ]", out, re.M)})
            firsts = [l.strip()[:300] for l in out.splitlines() if re.match(r"^  (proof|bounded|family-bounded)", l)][:4]
            checks[p] = {"exit": rc, "violation_lines": len(viol), "caught_by": sources, "examples": firsts,
                         "summary": out.strip().splitlines()[-1] if out.strip() else "", "wall_s": round(time.time() - t0, 1),
                         "no_failing_input_found": any("no-failing-input-found" in l for l in viol)}
            meta["ran"].append(f"VERIF_REPO=<scratch> ./check {p} --tier quick")
        meta["checks"] = checks
        meta["detected"] = any(c["exit"] == 1 for c in checks.values())
        notes = os.path.join(out_dir, "notes.md")
        meta["needs_to_manifest"] = ""
        if os.path.exists(notes):
            txt = open(notes).read()
            meta["needs_to_manifest"] = txt[:1500]
    finally:
        shutil.rmtree(scratch, ignore_errors=True)
        with open(os.path.join(out_dir, "meta.json"), "w") as f:
            json.dump(meta, f, indent=1)
    return meta


if __name__ == "__main__":
    args = [a for a in sys.argv[1:] if not a.startswith("--")]
    extra = []
    for a in sys.argv[1:]:
        if a.startswith("--props"):
            extra = a.split("=", 1)[1].split(",")
    for d in args:
        m = evaluate(d, extra)
        print(m["id"], "confirmed" if m.get("confirmed") else "NOT-CONFIRMED", "detected" if m.get("detected") else "MISSED",
              {p: (c["exit"], c["caught_by"]) for p, c in m.get("checks", {}).items()}, flush=True)
