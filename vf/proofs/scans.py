"""C07: row-wise cumulative sums restart at every row.

Spec.  With PS_D the prefix sums of the flat data (PS_D(0)=0, PS_D(k+1)=PS_D(k)+D[k]), the sum of a row segment is
by definition  Seg(s, e) = PS_D(e) - PS_D(s);  numpy.cumsum of row r at column c is Seg(S(r), S(r)+c+1).
Contract of RaggedArray.cumsum(axis=-1):  cell'(r, c) = PS_D(S(r)+c+1) - PS_D(S(r)),  same row lengths.
Integer data are mathematical integers here (no overflow: assumption, listed).
The subtraction of the per-row offset column goes through RaggedArray.__array_ufunc__ (contract of C04, proved in
vf.proofs.ufunc) and RaggedArray._broadcast_rows (replaced by its contract, proved in vf.proofs.broadcast)."""
import numpy as np
import z3

from .base import Family, register, model_int
from .ragged import sym_ragged
from .reduce import telescoping
from ..sym.core import SInt, cur
from ..sym.arr import SymArr, I, dim_term
from ..sym.theory import prefix_sum


def stub_broadcast(ctx, g, rec):
    from npstructures import RaggedArray

    def broadcast_stub(self_, values, dtype=None):
        c = cur()
        rec["values"] = values
        col = values
        flat = SymArr.symbolic("bcast", g.S(g.n), "int", np.int64, assume_len=False)
        vsnap = col.snapshot()
        c.assume_forall("broadcast", lambda r, cc: z3.Implies(z3.And(0 <= r, r < g.n, 0 <= cc, cc < g.L(r)),
                                                             flat.fn(g.S(r) + cc) == vsnap(r, 0)), arity=2)
        return RaggedArray(flat, self_._shape)
    old = RaggedArray.__dict__["_broadcast_rows"]
    RaggedArray._broadcast_rows = broadcast_stub
    return RaggedArray, old


def stub_broadcast_generic(ctx, g, rec, kind):
    from npstructures import RaggedArray

    def broadcast_stub(self_, values, dtype=None):
        c = cur()
        rec["values"] = values
        flat = SymArr.symbolic("bcast", g.S(g.n), kind, np.int64, assume_len=False)
        vsnap = values.snapshot()
        c.assume_forall("broadcast", lambda r, cc: z3.Implies(z3.And(0 <= r, r < g.n, 0 <= cc, cc < g.L(r)),
                                                             flat.fn(g.S(r) + cc) == vsnap(r, 0)), arity=2)
        return RaggedArray(flat, self_._shape)
    old = RaggedArray.__dict__["_broadcast_rows"]
    RaggedArray._broadcast_rows = broadcast_stub
    return RaggedArray, old


@register
class Cumsum(Family):
    name = "RaggedArray.cumsum"
    qualname = "npstructures.raggedarray:RaggedArray.cumsum"
    serves = ["C07", "C19"]
    assumed = ["numpy.cumsum = prefix sums", "numpy.insert(a, 0, 0)", "callee contract RaggedArray._broadcast_rows (proved: RaggedShape.broadcast_values / _raw_broadcast)",
               "integer data do not overflow (mathematical integers)"]

    def kinds(self):
        return ["axis=-1", "axis=None"]

    def extra_functions(self):
        return ["util.unsafe_extend_left", "RaggedArray.__array_ufunc__", "RaggedBase.size", "RaggedBase.ravel"]

    def run(self, ctx, kind):
        g = sym_ragged(ctx, kind="int")
        ctx.ghost["g"] = g
        ra = g.ra
        telescoping(ctx, g, ra._shape.lengths)
        psd = prefix_sum(g.D)
        if kind == "axis=None":
            out = ra.cumsum()
            j = z3.Int("j")
            ctx.skolem(z3.And(0 <= j, j < g.S(g.n)))
            ctx.add_index(j, j + 1)
            ctx.prove("post.flat cumulative sum", out.get(j) == psd(j + 1))
            return
        rec = {}
        cls, old = stub_broadcast(ctx, g, rec)
        try:
            out = ra.cumsum(axis=-1)
        finally:
            cls._broadcast_rows = old
        if "values" not in rec:
            ctx.prove("post.empty array: nothing to accumulate", g.S(g.n) == 0)
            return
        # lemma: the prefix sums of E = [0] ++ D are those of D shifted by one (induction; scan invariant of cumsum#1)
        pse = [e for e in ctx.ghost["prefix_sums"] if e["ps"] is not psd][-1]["ps"]
        k = z3.Int("k")
        size = g.S(g.n)
        ctx.prove("lemma.base: PS_E(1) == PS_D(0)", pse(1) == psd(0), pool=[z3.IntVal(0), z3.IntVal(1)])
        ctx.prove("lemma.step: PS_E(k+1)==PS_D(k) => PS_E(k+2)==PS_D(k+1)",
                  z3.Implies(z3.And(0 <= k, k < size, pse(k + 1) == psd(k)), pse(k + 2) == psd(k + 1)), pool=[k, k + 1, k + 2])
        ctx.assume_forall("PS_E(k+1)==PS_D(k) (by induction)", lambda q: z3.Implies(z3.And(0 <= q, q <= size), pse(q + 1) == psd(q)))
        r = g.row()
        c = z3.Int("c")
        ctx.skolem(z3.And(0 <= c, c < g.L(r)))
        p = g.S(r) + c
        ctx.add_index(c, p, p + 1, r + 1)
        ctx.prove("post.same row lengths", z3.And(out._shape.lengths.get(r) == g.L(r), out._shape.starts.get(r) == g.S(r)))
        ctx.prove("post.cell'(r,c) == PS_D(S(r)+c+1) - PS_D(S(r))", out.ravel().get(p) == psd(p + 1) - psd(g.S(r)))
        ctx.prove("post.input not modified", z3.BoolVal(g.D.buf.writes == 0))

    def concretise(self, kind, model, ghost):
        g = ghost["g"]
        n = min(max(model_int(model, g.n), 0), 4)
        return {"lengths": [min(max(model_int(model, g.L(z3.IntVal(r))), 0), 3) for r in range(n)]}

    def concrete(self, case):
        from npstructures import RaggedArray
        ls = case["lengths"]
        rows, v = [], 1
        for l in ls:
            rows.append([(-1) ** (v + i) * (v + i) for i in range(l)])
            v += l
        ra = RaggedArray(np.array([x for r in rows for x in r], dtype=np.int64), ls)
        try:
            got = np.cumsum(ra, axis=-1).tolist()
        except Exception as e:
            return {"msg": f"cumsum on rows {rows} raised {type(e).__name__}: {e}", "sig": "raised:cumsum"}
        exp = [np.cumsum(r).tolist() if r else [] for r in rows]
        if got != exp:
            return {"msg": f"cumsum on rows {rows}: {got}, numpy per row {exp}", "sig": "wrong:cumsum"}

    def bounded_cases(self, tier, seed):
        from ..bounded.common import length_vectors
        for ls in length_vectors(4, 3):
            yield {"lengths": ls}

    def nontrivial(self, case):
        return 0 in case["lengths"]


@register
class RowAccumulate(Family):
    """np.add.accumulate along rows: cm = accumulate(D); offsets[r] = D[S(r)] - cm[S(r)] (0 for an empty trailing row);
    result = cm + offsets[row]   i.e.  cell'(r,c) = PS_D(S(r)+c+1) - PS_D(S(r))  again"""
    name = "RaggedArray._row_accumulate"
    qualname = "npstructures.raggedarray:RaggedArray._row_accumulate"
    serves = ["C07", "C19"]
    assumed = ["ufunc.accumulate(add) = prefix sums", "numpy.append(a, 0)", "callee contract RaggedArray._broadcast_rows (proved: RaggedShape.broadcast_values / _raw_broadcast)",
               "integer data do not overflow (mathematical integers)"]

    def kinds(self):
        return ["add", "subtract", "bitwise_xor"]

    def extra_functions(self):
        return ["util.unsafe_extend_right", "RaggedArray.__array_ufunc__", "RaggedArray._accumulate"]

    def run(self, ctx, kind):
        if kind != "add":
            return self.run_recurrence(ctx, kind)
        g = sym_ragged(ctx, kind="int")
        ctx.ghost["g"] = g
        ra = g.ra
        telescoping(ctx, g, ra._shape.lengths)
        psd = prefix_sum(g.D)
        rec = {}
        cls, old = stub_broadcast(ctx, g, rec)
        ctx.add_index(g.n, g.n - 1)
        try:
            out = ra._accumulate(np.add, ra, axis=-1)
        finally:
            cls._broadcast_rows = old
        r = g.row()
        c = z3.Int("c")
        ctx.skolem(z3.And(0 <= c, c < g.L(r)))
        p = g.S(r) + c
        ctx.add_index(c, p, p + 1, r + 1, g.S(r), g.S(r) + 1)
        ctx.prove("post.same row lengths", out._shape.lengths.get(r) == g.L(r))
        ctx.prove("post.cell'(r,c) == PS_D(S(r)+c+1) - PS_D(S(r))", out.ravel().get(p) == psd(p + 1) - psd(g.S(r)))
        ctx.prove("post.input not modified", z3.BoolVal(g.D.buf.writes == 0))

    def run_recurrence(self, ctx, kind):
        """subtract / xor: stated as numpy's own row recurrence: result(r,0) = cell(r,0), result(r,c+1) = result(r,c) (op) cell(r,c+1)"""
        from ..sym.arr import apply_binary
        g = sym_ragged(ctx, kind="int" if kind == "subtract" else "bv")
        ctx.ghost["g"] = g
        ra = g.ra
        if kind != "subtract":
            ctx.ghost["unsigned_as_bv"] = True
        telescoping(ctx, g, ra._shape.lengths)
        rec = {}
        cls, old = stub_broadcast_generic(ctx, g, rec, "int" if kind == "subtract" else "bv")
        ctx.add_index(g.n, g.n - 1)
        try:
            out = ra._accumulate(getattr(np, kind), ra, axis=-1)
        finally:
            cls._broadcast_rows = old
        r = g.row()
        c = z3.Int("c")
        ctx.skolem(z3.And(0 <= c, c + 1 < g.L(r)))
        p = g.S(r) + c
        ctx.add_index(c, c + 1, p, p + 1, r + 1, g.S(r), g.S(r) + 1, z3.IntVal(0))
        res = out.ravel()
        ctx.prove("post.same row lengths", out._shape.lengths.get(r) == g.L(r))
        ctx.prove("post.first cell of a non-empty row is the row's first element", z3.Implies(g.L(r) > 0, res.get(g.S(r)) == g.D.fn(g.S(r))))
        ctx.prove("post.row recurrence: result(r,c+1) == result(r,c) (op) cell(r,c+1)", res.get(p + 1) == apply_binary(kind, res.get(p), g.D.fn(p + 1)))
        ctx.prove("post.input not modified", z3.BoolVal(g.D.buf.writes == 0))

    def concretise(self, kind, model, ghost):
        g = ghost["g"]
        n = min(max(model_int(model, g.n), 0), 4)
        return {"lengths": [min(max(model_int(model, g.L(z3.IntVal(r))), 0), 3) for r in range(n)]}

    def concrete(self, case):
        from npstructures import RaggedArray
        ls = case["lengths"]
        rows, v = [], 1
        for l in ls:
            rows.append([(-1) ** (v + i) * (v + i) for i in range(l)])
            v += l
        ra = RaggedArray(np.array([x for r in rows for x in r], dtype=np.int64), ls)
        for uf in (np.add, np.subtract, np.bitwise_xor):
            try:
                got = uf.accumulate(ra, axis=-1).tolist()
            except Exception as e:
                return {"msg": f"{uf.__name__}.accumulate on rows {rows} raised {type(e).__name__}: {e}", "sig": "raised:accumulate"}
            exp = [uf.accumulate(np.array(r, dtype=np.int64)).tolist() if r else [] for r in rows]
            if got != exp:
                return {"msg": f"{uf.__name__}.accumulate on rows {rows}: {got}, numpy per row {exp}", "sig": "wrong:accumulate"}

    bounded_cases = Cumsum.bounded_cases
    nontrivial = Cumsum.nontrivial


@register
class Diff(Family):
    """np.diff(ra, n, axis=-1): the flat n-th differences, gathered through the view (row start, max(L - n, 0)):
    row r keeps exactly the differences whose n+1 operands all lie in row r"""
    name = "arrayfunctions.diff"
    qualname = "npstructures.arrayfunctions:diff"
    serves = ["C07", "C19"]
    assumed = ["numpy.diff(n) of the flat data (bounded stand-in for the values)", "callee contract RaggedView.get_flat_indices (vf.proofs.derived / indices)"]

    def kinds(self):
        return ["n=sym", "axis=0"]

    def run(self, ctx, kind):
        from npstructures.raggedshape import RaggedView
        import npstructures.arrayfunctions as af
        from ..sym import symnp
        g = sym_ragged(ctx, kind="int")
        if kind == "axis=0":
            ctx.prove("post.other axes not handled", z3.BoolVal(af.diff(g.ra, 1, axis=0) is NotImplemented))
            return
        nd = z3.Int("nd")
        ctx.assume(nd >= 0)
        rec = {}
        size = g.S(g.n)
        dflat = SymArr.symbolic("dflat", z3.If(size - nd > 0, size - nd, 0), "int", np.int64, assume_len=False)
        real_diff = symnp.SymNumpy.diff
        symnp.SymNumpy.diff = lambda self_, x, n=1, **kw: rec.setdefault("diff", (x, n)) and dflat
        old = RaggedView.__dict__["get_flat_indices"]

        def stub(self_, do_split=False):
            rec["view"] = self_
            m = z3.Int("m")
            cur().assume(m >= 0)
            idx = SymArr.symbolic("idx", m, "int", assume_len=False)
            cur().assume_forall("addresses inside the differences", lambda t: z3.Implies(z3.And(0 <= t, t < m), z3.And(0 <= idx.fn(t), idx.fn(t) < dim_term(dflat.shape_[0]))))
            rec["idx"] = idx
            return idx, "SHAPE"
        RaggedView.get_flat_indices = stub
        import npstructures.raggedarray as ramod
        init_rec = []
        old_init = ramod.RaggedArray.__init__
        try:
            ramod.RaggedArray.__init__ = lambda self_, data, shape=None, *a, **k: init_rec.append((data, shape))
            af.diff(g.ra, SInt(nd), axis=-1)
        finally:
            ramod.RaggedArray.__init__ = old_init
            RaggedView.get_flat_indices = old
            symnp.SymNumpy.diff = real_diff
        ctx.prove("post.differences of the flat data of order n", z3.And(z3.BoolVal(rec["diff"][0] is g.D), I(rec["diff"][1]) == nd))
        v = rec["view"]
        r = g.row()
        ctx.prove("post.row r starts where it started", v.starts.get(r) == g.S(r))
        ctx.prove("post.row r keeps max(L(r) - n, 0) differences", v.lengths.get(r) == z3.If(g.L(r) - nd > 0, g.L(r) - nd, 0))
        t = z3.Int("t")
        ctx.skolem(z3.And(0 <= t, t < dim_term(rec["idx"].shape_[0])))
        ctx.add_index(t)
        ctx.prove("post.result gathers those differences, with the view's shape",
                  z3.And(init_rec[0][0].get(t) == dflat.fn(rec["idx"].fn(t)), z3.BoolVal(init_rec[0][1] == "SHAPE")))
        # every operand of a kept difference lies inside the row:  c < L(r) - n  =>  S(r) + c + n < S(r) + L(r)
        c = z3.Int("c")
        ctx.skolem(z3.And(0 <= c, c < v.lengths.get(r)))
        ctx.prove("post.a kept difference uses cells of its own row only", z3.And(g.S(r) + c + nd < g.S(r) + g.L(r), g.S(r) + c < dim_term(dflat.shape_[0])))


@register
class SortDispatch(Family):
    """RaggedArray.sort(axis=-1) against the contract of its callee numpy.lexsort (recorded, not executed): the sort keys are the receiver's OWN cells
    (the materialised cells for a lazily selected receiver) and, as primary key, the row number of every flat position of the receiver's OWN geometry
    (`index_array`, by its contract proved in C01's family `ViewBase.index_array`, for the geometry object it is asked of); the result gathers the cells through the returned order and has the receiver's
    geometry (semantically).  From numpy's lexsort contract (a permutation ordered by row number, then value; assumed) each row's block stays in place and is
    sorted - that last step is a counting argument and stays with the bounded stand-in."""
    name = "RaggedArray.sort"
    qualname = "npstructures.raggedarray:RaggedArray.sort"
    serves = ["C07", "C19"]
    assumed = ["numpy.lexsort((values, rows)) returns a permutation ordering by rows, then values (recorded stub returning an arbitrary index array in range)",
               "lemma (paper / bounded): a permutation ordered by a non-decreasing primary key keeps every block of equal primary key in place",
               "callee contract RaggedView2.get_flat_indices for the lazily selected receiver (C06 families)"]

    def kinds(self):
        return ["fresh", "fresh[axis=1]", "lazy"]

    def extra_functions(self):
        return ["RaggedBase.ravel"]

    def run(self, ctx, kind):
        from npstructures import RaggedArray
        from npstructures.raggedshape import RaggedView2
        from ..sym.symnp import SymNumpy
        from .ragged import sym_view2, sym_shape
        from ..sym.core import fresh_name
        if kind == "lazy":
            v = sym_view2(ctx)
            kbuf = z3.Int("kbuf")
            ctx.assume(kbuf >= 0)
            D = SymArr.symbolic("D", kbuf, "elem", np.int64, assume_len=False)
            ctx.assume_forall("wf(view)", lambda r, c: z3.Implies(z3.And(0 <= r, r < v.n, 0 <= c, c < v.L(r)),
                                                                  z3.And(0 <= v.S(r) + c * v.step, v.S(r) + c * v.step < kbuf)), arity=2)
            ra = RaggedArray(D, v.obj)
            g = sym_shape(ctx, "flat")
            ctx.assume(g.n == v.n)
            ctx.assume_forall("flat.L", lambda r: z3.Implies(z3.And(0 <= r, r < v.n), g.L(r) == v.L(r)))
            idx = SymArr.symbolic("gather", g.S(g.n), "int", assume_len=False)
            ctx.assume_forall("address map", lambda r, c: z3.Implies(z3.And(0 <= r, r < v.n, 0 <= c, c < v.L(r)),
                                                                     idx.fn(g.S(r) + c) == v.S(r) + c * v.step), arity=2)
            rowof = z3.Function(fresh_name("rowof"), z3.IntSort(), z3.IntSort())
            ctx.assume_forall("rowof", lambda j: z3.Implies(z3.And(0 <= j, j < g.S(g.n)), z3.And(
                0 <= rowof(j), rowof(j) < v.n, g.S(rowof(j)) <= j, j < g.S(rowof(j)) + g.L(rowof(j)))))
            ctx.derivers.append(lambda j: [rowof(j), j - g.S(rowof(j))])
            cell = lambda r, c: D.fn(v.S(r) + c * v.step)
            Dbuf = D
        else:
            g = sym_ragged(ctx, kind="elem")
            ra, Dbuf = g.ra, g.D
            cell = lambda r, c: g.D.fn(g.S(r) + c)
        telescoping(ctx, g, g.obj.lengths)
        size = g.S(g.n)
        calls = []
        args = SymArr.symbolic("order", size, "int", assume_len=False)
        ctx.assume_forall("order in range", lambda t: z3.Implies(z3.And(0 <= t, t < size), z3.And(0 <= args.fn(t), args.fn(t) < size)))

        def lexsort_stub(self_, keys, axis=-1):
            calls.append((keys, axis))
            return args
        # callee contract of index_array (proved in C01's family ViewBase.index_array): position S(r) + c holds r - for the geometry it is asked of
        from npstructures.raggedshape import ViewBase
        ia_calls = []

        def index_array_stub(self_):
            ia_calls.append(self_)
            ia = SymArr.symbolic(fresh_name("rowno"), size, "int", assume_len=False)
            if self_ is g.obj:
                cur().assume_forall("index_array contract", lambda r_, c_: z3.Implies(z3.And(0 <= r_, r_ < g.n, 0 <= c_, c_ < g.L(r_)), ia.fn(g.S(r_) + c_) == r_), arity=2)
            return ia
        old_ia = ViewBase.__dict__["index_array"]
        ViewBase.index_array = index_array_stub
        had = "lexsort" in SymNumpy.__dict__
        old_lex = SymNumpy.__dict__.get("lexsort")
        SymNumpy.lexsort = lexsort_stub
        old = RaggedView2.__dict__["get_flat_indices"]
        if kind == "lazy":
            RaggedView2.get_flat_indices = lambda self_, do_split=False: (idx, g.obj)
        try:
            out = ra.sort(axis=1) if "axis=1" in kind else ra.sort()
        finally:
            RaggedView2.get_flat_indices = old
            ViewBase.index_array = old_ia
            if had:
                SymNumpy.lexsort = old_lex
            else:
                del SymNumpy.lexsort
        if len(calls) != 1 or not isinstance(out, RaggedArray):
            # an implementation that does not go through one numpy.lexsort: this script cannot state its contract - undecided, the family's concrete
            # cases and the stand-in decide
            from ..sym.core import Unsupported
            raise Unsupported("RaggedArray.sort does not call numpy.lexsort exactly once; the proof script knows only that shape")
        ok = (len(calls) == 1 and isinstance(calls[0][0], (tuple, list)) and len(calls[0][0]) == 2 and calls[0][1] == -1
              and all(isinstance(k_, SymArr) and k_.ndim == 1 for k_ in calls[0][0]) and isinstance(out, RaggedArray)
              and calls[0][0][0].kind == Dbuf.kind and calls[0][0][1].kind == "int")      # lexsort's LAST key is the primary one: (values, row numbers)
        ctx.prove("post.one lexsort over (cell values, row numbers) - the last key is the primary one -, result of the receiver's kind", z3.BoolVal(ok))
        if not ok:
            return
        vals, rows = calls[0][0]
        ctx.prove("post.both keys have one entry per cell", z3.And(dim_term(vals.shape_[0]) == size, dim_term(rows.shape_[0]) == size), pool=[g.n])
        r = g.row()
        c = z3.Int("c")
        ctx.skolem(z3.And(0 <= c, c < g.L(r)))
        j = g.S(r) + c
        pool = [r, r + 1, c, j, j + 1, g.n]
        ctx.prove("post.secondary key: the receiver's own cell (r, c) at flat position S(r) + c", vals.get(j) == cell(r, c), pool=pool)
        ctx.prove("post.primary key: the row number r at every flat position of row r", rows.get(j) == r, pool=pool)
        sh = out._shape
        ctx.prove("post.receiver's geometry: same number of rows, row r starts at S(r) and has L(r) cells",
                  z3.And(dim_term(sh.starts.shape_[0]) == g.n, dim_term(sh.lengths.shape_[0]) == g.n, sh.starts.get(r) == g.S(r), sh.lengths.get(r) == g.L(r)),
                  pool=[r, r + 1, g.n], live=[c])
        t = z3.Int("t")
        ctx.skolem(z3.And(0 <= t, t < size))
        od = out._RaggedBase__data
        ctx.prove("post.result cell t is the key cell the order names: out[t] == values[order[t]]",
                  z3.And(dim_term(od.shape_[0]) == size, od.get(t) == vals.get(args.fn(t))), pool=[t, args.fn(t), g.n])
        ctx.prove("post.source buffer not written", z3.BoolVal(Dbuf.buf.writes == 0))

    def concretise(self, kind, model, ghost):
        return {"lengths": [3, 0, 2, 4], "derive": "reverse" if kind == "lazy" else "none"}

    def concrete(self, case):
        from npstructures import RaggedArray
        ls = case["lengths"]
        rows, v = [], 5
        for l in ls:
            rows.append([((v + i) * 7) % 5 - 2 for i in range(l)])
            v += l
        d = case["derive"]
        if d == "reverse":
            ra = RaggedArray(rows[::-1])[::-1]
        elif d == "tail":
            ra = RaggedArray([[9, 8, 7]] + rows)[1:]
        elif d == "list":
            idx = list(range(len(rows)))[::-1]
            ra = RaggedArray([rows[i] for i in idx])[idx]
        else:
            ra = RaggedArray(rows)
        if not any(ls):
            return None
        try:
            got = ra.sort(axis=-1).tolist()
        except Exception as e:
            return {"msg": f"sort(axis=-1) of rows {rows} (derived: {d}) raised {type(e).__name__}: {e}", "sig": "raised:sort"}
        if got != [sorted(r_) for r_ in rows]:
            return {"msg": f"sort(axis=-1) of rows {rows} (derived: {d}): {got}", "sig": "wrong:sort"}

    def bounded_cases(self, tier, seed):
        from ..bounded.common import length_vectors
        for ls in length_vectors(4, 3):
            if ls:
                for d in ("none", "reverse", "tail", "list"):
                    yield {"lengths": ls, "derive": d}
