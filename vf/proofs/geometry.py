"""C01 (and C19): the row geometry is the exclusive-prefix-sum geometry of the row lengths."""
import numpy as np
import z3

from .base import Family, register, model_int
from .ragged import sym_shape, sym_ragged, Geo
from ..sym.core import SInt, SBool, cur, fresh_name
from ..sym.arr import SymArr, I, dim_term
from ..sym.theory import prefix_sum


def sym_lengths(ctx, name="lens"):
    n = z3.Int("n")
    ctx.assume(n >= 0)
    L = SymArr.symbolic(name, n, "int", np.int64, assume_len=False)
    ctx.assume_forall("L>=0", lambda r: z3.Implies(z3.And(0 <= r, r < n), L.fn(r) >= 0))
    return n, L


def concrete_lengths(model, n, Lfn, max_rows=5):
    nn = min(max(model_int(model, n), 0), max_rows)
    return [max(model_int(model, Lfn(z3.IntVal(r))), 0) for r in range(nn)]


SMALL_LENGTHS = [[], [0], [2], [0, 0], [1, 0], [0, 3], [2, 1], [0, 2, 0], [1, 2, 3], [3, 0, 0, 1], [0, 0, 0]]


@register
class ShapeInit(Family):
    """RaggedShape(lengths): n_rows = len(lengths), lengths kept, starts = exclusive prefix sum"""
    name = "RaggedShape.__init__"
    qualname = "npstructures.raggedshape:RaggedShape.__init__"
    serves = ["C01", "C19"]
    assumed = ["numpy.cumsum = prefix sums", "numpy.pad(constant)", "numpy.hstack of two (n,1) columns + flatten = interleave"]

    def kinds(self):
        return ["lengths", "coded"]

    def extra_functions(self):
        return ["ViewBase.__init__", "ViewBase.starts", "ViewBase.lengths", "ViewBase.n_rows"]

    def run(self, ctx, kind):
        from npstructures.raggedshape import RaggedShape
        if kind == "coded":
            g = sym_shape(ctx)
            sh = RaggedShape(g.obj._codes, is_coded=True)
            r = g.row()
            ctx.prove("post.starts", sh.starts.get(r) == g.S(r))
            ctx.prove("post.lengths", sh.lengths.get(r) == g.L(r))
            ctx.prove("post.n_rows", I(sh.n_rows) == g.n)
            return
        n, L = sym_lengths(ctx)
        ctx.ghost["n"], ctx.ghost["L"] = n, L.fn
        sh = RaggedShape(L)
        ps = prefix_sum(L)
        ctx.prove("post.n_rows==len(lengths)", I(sh.n_rows) == n)
        r = z3.Int("r")
        ctx.skolem(z3.And(0 <= r, r < n))
        ctx.add_index(r, r + 1, r - 1)
        ctx.prove("post.lengths[r]==L[r]", sh.lengths.get(r) == L.fn(r))
        ctx.prove("post.starts[r]==PS(r)", sh.starts.get(r) == ps(r))
        ctx.prove("post.ends[r]==PS(r)+L[r]", sh.ends.get(r) == ps(r) + L.fn(r))

    def concretise(self, kind, model, ghost):
        if "n" not in ghost:
            return None
        return {"lengths": concrete_lengths(model, ghost["n"], ghost["L"])}

    def concrete(self, case):
        from npstructures.raggedshape import RaggedShape
        ls = case["lengths"]
        sh = RaggedShape(ls)
        starts = [sum(ls[:i]) for i in range(len(ls))]
        got = (np.asarray(sh.starts).tolist() if ls else [], np.asarray(sh.lengths).tolist(), sh.n_rows if ls else 0)
        if ls and (got[0] != starts or got[1] != ls or sh.n_rows != len(ls)):
            return {"msg": f"RaggedShape({ls}): starts {got[0]} lengths {got[1]}", "sig": "wrong:RaggedShape.__init__"}
        if not ls and (np.asarray(sh.lengths).size != 0 or int(sh.size) != 0):
            return {"msg": "RaggedShape([]) is not empty", "sig": "wrong:RaggedShape.__init__"}

    def bounded_cases(self, tier, seed):
        for ls in SMALL_LENGTHS:
            yield {"lengths": ls}


@register
class ShapeSize(Family):
    name = "RaggedShape.size"
    qualname = "npstructures.raggedshape:RaggedShape.size"
    serves = ["C01", "C19"]

    def run(self, ctx, kind):
        g = sym_shape(ctx)
        ctx.add_index(g.n - 1)
        sz = g.obj.size
        ctx.prove("post.size==S(n)", I(sz) == g.S(g.n))

    def concrete(self, case):
        from npstructures.raggedshape import RaggedShape
        if int(RaggedShape(case["lengths"]).size) != sum(case["lengths"]):
            return {"msg": f"RaggedShape({case['lengths']}).size", "sig": "wrong:RaggedShape.size"}

    bounded_cases = ShapeInit.bounded_cases


@register
class RavelMultiIndex(Family):
    name = "ViewBase.ravel_multi_index"
    qualname = "npstructures.raggedshape:ViewBase.ravel_multi_index"
    serves = ["C01", "C12", "C19"]

    def kinds(self):
        return ["arrays"]

    def run(self, ctx, kind):
        g = sym_shape(ctx)
        m = z3.Int("m")
        ctx.assume(m >= 0)
        rows = SymArr.symbolic("rows", m, "int", assume_len=False)
        cols = SymArr.symbolic("cols", m, "int", assume_len=False)
        ctx.assume_forall("rows in range", lambda t: z3.Implies(z3.And(0 <= t, t < m), z3.And(0 <= rows.fn(t), rows.fn(t) < g.n)))
        flat = g.obj.ravel_multi_index((rows, cols))
        t = z3.Int("t")
        ctx.skolem(z3.And(0 <= t, t < m))
        ctx.add_index(t, rows.fn(t))
        ctx.prove("post.flat[t]==S(row_t)+col_t", flat.get(t) == g.S(rows.fn(t)) + cols.fn(t))
        ctx.prove("post.len", dim_term(flat.shape_[0]) == m)


@register
class UnravelMultiIndex(Family):
    """flat index j in [0, size) -> (row containing j, offset in that row); empty rows are skipped"""
    name = "ViewBase.unravel_multi_index"
    qualname = "npstructures.raggedshape:ViewBase.unravel_multi_index"
    serves = ["C01", "C08", "C19"]
    assumed = ["numpy.searchsorted(side='right') on a sorted array (sortedness is an obligation here)"]

    def kinds(self):
        return ["array"]

    def run(self, ctx, kind):
        g = sym_shape(ctx)
        ctx.ghost["g"] = g
        m = z3.Int("m")
        ctx.assume(m >= 0)
        fl = SymArr.symbolic("flat", m, "int", assume_len=False)
        ctx.assume_forall("flat in range", lambda t: z3.Implies(z3.And(0 <= t, t < m), z3.And(0 <= fl.fn(t), fl.fn(t) < g.S(g.n))))
        rows, cols = g.obj.unravel_multi_index(fl)
        t = z3.Int("t")
        ctx.skolem(z3.And(0 <= t, t < m))
        R = rows.get(t)
        ctx.add_index(t, R, R + 1, R - 1, g.n - 1)
        ctx.prove("post.row in range", z3.And(0 <= R, R < g.n))
        ctx.prove("post.flat lies in row", z3.And(g.S(R) <= fl.fn(t), fl.fn(t) < g.S(R) + g.L(R)))
        ctx.prove("post.col==flat-S(row)", cols.get(t) == fl.fn(t) - g.S(R))

    def concrete(self, case):
        from npstructures.raggedshape import RaggedShape
        ls = case["lengths"]
        tot = sum(ls)
        if not tot:
            return None
        sh = RaggedShape(ls)
        r, c = sh.unravel_multi_index(np.arange(tot))
        exp_r = [i for i, l in enumerate(ls) for _ in range(l)]
        exp_c = [k for l in ls for k in range(l)]
        if np.asarray(r).tolist() != exp_r or np.asarray(c).tolist() != exp_c:
            return {"msg": f"unravel_multi_index on {ls}: rows {np.asarray(r).tolist()} cols {np.asarray(c).tolist()}", "sig": "wrong:unravel_multi_index"}

    bounded_cases = ShapeInit.bounded_cases


@register
class RaggedInit(Family):
    """RaggedArray(flat, lengths): rejected iff len(flat) != sum(lengths); else cell(r,c) = flat[S(r)+c]"""
    name = "RaggedArray.__init__"
    qualname = "npstructures.raggedarray:RaggedArray.__init__"
    serves = ["C01", "C19"]

    def kinds(self):
        return ["flat+lengths", "flat+shape"]

    def extra_functions(self):
        return ["RaggedShape.asshape", "RaggedShape.__init__", "RaggedShape.size", "RaggedBase.__init__"]

    def run(self, ctx, kind):
        from npstructures import RaggedArray
        from npstructures.raggedshape import RaggedShape
        k = z3.Int("k")
        ctx.assume(k >= 0)
        D = SymArr.symbolic("D", k, "elem", np.int64, assume_len=False)
        if kind == "flat+lengths":
            n, L = sym_lengths(ctx)
            ps = prefix_sum(L)
            ctx.add_index(n, n - 1)
            try:
                ra = RaggedArray(D, L)
            except ValueError:
                ctx.prove("raises=>size mismatch", k != ps(n))
                return
            ctx.prove("returns=>sizes agree", k == ps(n))
            r = z3.Int("r")
            ctx.skolem(z3.And(0 <= r, r < n))
            ctx.add_index(r)
            ctx.prove("post.lengths", ra._shape.lengths.get(r) == L.fn(r))
            ctx.prove("post.starts", ra._shape.starts.get(r) == ps(r))
            ctx.prove("post.n_rows", I(sym_len_(ra)) == n)
            j = z3.Int("j")
            ctx.skolem(z3.And(0 <= j, j < k))
            ctx.prove("post.flat data kept", ra.ravel().get(j) == D.fn(j))
        else:
            g = sym_shape(ctx)
            ra = RaggedArray(D, g.obj)
            r = g.row()
            ctx.prove("post.shape kept", z3.And(ra._shape.lengths.get(r) == g.L(r), ra._shape.starts.get(r) == g.S(r)))
            ctx.prove("post.contiguous", z3.BoolVal(ra.is_contigous is True))

    def concrete(self, case):
        from npstructures import RaggedArray
        ls = case["lengths"]
        for delta in (-1, 0, 1):
            size = sum(ls) + delta
            if size < 0:
                continue
            try:
                RaggedArray(np.arange(size), ls)
                ok = True
            except ValueError:
                ok = False
            if ok != (delta == 0):
                return {"msg": f"RaggedArray(buffer of {size}, {ls}) accepted={ok}", "sig": "wrong:RaggedArray.__init__:size-check"}

    bounded_cases = ShapeInit.bounded_cases


def sym_len_(x):
    from ..sym.symnp import sym_len
    return sym_len(x)


@register
class Readers(Family):
    """len / shape / lengths / size / ravel / astype of a freshly built array are the geometry's"""
    name = "RaggedArray.readers"
    qualname = "npstructures.raggedarray:RaggedArray.shape"
    serves = ["C01", "C19"]

    def kinds(self):
        return ["len", "shape", "lengths", "size", "ravel", "astype"]

    def extra_functions(self):
        return ["RaggedArray.__len__", "RaggedArray.lengths", "RaggedBase.size", "RaggedBase.ravel", "RaggedArray.astype"]

    def run(self, ctx, kind):
        g = sym_ragged(ctx)
        ra = g.ra
        r = g.row()
        if kind == "len":
            ctx.prove("post.len==n", I(sym_len_(ra)) == g.n)
        elif kind == "shape":
            shp = ra.shape
            ctx.prove("post.shape[0]==n", I(shp[0]) == g.n)
            ctx.prove("post.shape[1][r]==L(r)", shp[1].get(r) == g.L(r))
        elif kind == "lengths":
            ctx.prove("post.lengths[r]==L(r)", ra.lengths.get(r) == g.L(r))
        elif kind == "size":
            # int(np.sum(lengths)) == S(n): the telescoping lemma, by induction on the prefix
            ps = prefix_sum(ra._shape.lengths)
            k = z3.Int("k")
            ctx.add_index(k, k + 1, z3.IntVal(0))
            ctx.prove("lemma.base: PS_lengths(0)==S(0)", ps(0) == g.S(0))
            ctx.prove("lemma.step: PS_lengths(k)==S(k) => PS_lengths(k+1)==S(k+1)",
                      z3.Implies(z3.And(0 <= k, k < g.n, ps(k) == g.S(k)), ps(k + 1) == g.S(k + 1)))
            ctx.assume_forall("telescoping (proved above by induction)", lambda q: z3.Implies(z3.And(0 <= q, q <= g.n), ps(q) == g.S(q)))
            ctx.prove("post.size==S(n)", I(ra.size) == g.S(g.n))
        elif kind == "ravel":
            fl = ra.ravel()
            j = z3.Int("j")
            ctx.skolem(z3.And(0 <= j, j < g.S(g.n)))
            ctx.prove("post.ravel is the buffer", z3.And(fl.get(j) == g.D.fn(j), dim_term(fl.shape_[0]) == g.S(g.n)))
        elif kind == "astype":
            out = ra.astype(np.float64)
            from ..sym.arr import UF, ElemSort
            cast = UF("cast_float64", ElemSort, ElemSort)
            j = z3.Int("j")
            ctx.skolem(z3.And(0 <= j, j < g.S(g.n)))
            ctx.prove("post.astype: same geometry", z3.And(out._shape.lengths.get(r) == g.L(r), out._shape.starts.get(r) == g.S(r)))
            ctx.prove("post.astype: cell-wise cast", out.ravel().get(j) == cast(g.D.fn(j)))
            ctx.prove("post.astype: source untouched", z3.BoolVal(g.D.buf.writes == 0))


@register
class Iteration(Family):
    """iteration and tolist: the k-th row handed out by `for row in ra` is the k-th row of the geometry, for an ARBITRARY k.  `__iter__` is a generator
    expression over zip(starts, lengths): the real generator runs with both arrays yielding their element at the same symbolic index k (0 <= k < n), the
    obligations say that the arrays iterated in lock-step have one entry per row (so there are exactly n iterations, CPython's zip) and that the row
    produced for k has L(k) cells, cell c being D[S(k) + c].  tolist() builds its list from the same iteration."""
    name = "RaggedArray.__iter__/tolist"
    qualname = "npstructures.raggedarray:RaggedArray.__iter__"
    serves = ["C01", "C19"]
    assumed = ["CPython iteration protocol: zip(a, b) pairs the k-th elements and stops with the shorter; a generator expression carries no state from one "
               "iteration to the next, so one arbitrary iteration stands for all", "ndarray.tolist() lists the array's elements in order"]

    def kinds(self):
        return ["iter", "tolist"]

    def extra_functions(self):
        return ["RaggedArray.tolist", "RaggedBase.ravel"]

    def run(self, ctx, kind):
        from ..sym.arr import SymPyList
        g = sym_ragged(ctx, kind="elem")
        k = z3.Int("k")
        ctx.assume(z3.And(0 <= k, k < g.n))
        ctx.add_index(k, k + 1)
        gi = {"k": k, "arrays": []}
        ctx.ghost["generic_iteration"] = gi
        try:
            if kind == "iter":
                rows = list(iter(g.ra))
            else:
                rows = g.ra.tolist()
        finally:
            del ctx.ghost["generic_iteration"]
        ok = isinstance(rows, list) and len(rows) == 1 and len(gi["arrays"]) >= 1
        ctx.prove("post.one row per iteration", z3.BoolVal(ok))
        if not ok:
            return
        ctx.prove("post.exactly n iterations: every array iterated in lock-step has one entry per row",
                  z3.And(*[z3.And(z3.BoolVal(a.ndim == 1), dim_term(a.shape_[0]) == g.n) for a in gi["arrays"]]))
        row = rows[0]
        if kind == "tolist":
            ctx.prove("post.tolist: a list of the rows' own lists", z3.BoolVal(isinstance(row, SymPyList)))
            if not isinstance(row, SymPyList):
                return
            row = row.arr
        ctx.prove("post.row k has L(k) cells", z3.And(z3.BoolVal(isinstance(row, SymArr) and row.ndim == 1), dim_term(row.shape_[0]) == g.L(k)), pool=[k, k + 1, g.n])
        c = z3.Int("c")
        ctx.skolem(z3.And(0 <= c, c < g.L(k)))
        ctx.prove("post.row k, cell c == D[S(k) + c]", row.get(c) == g.D.fn(g.S(k) + c), pool=[k, k + 1, c, g.n])
        ctx.prove("post.element type kept, operand not modified", z3.BoolVal(row.dtype == g.D.dtype and g.D.buf.writes == 0))

    def concretise(self, kind, model, ghost):
        return {"lengths": [2, 0, 3, 1, 0]}

    def concrete(self, case):
        from npstructures import RaggedArray
        ls = case["lengths"]
        rows, v = [], 3
        for l in ls:
            rows.append([((v + i) * 7) % 11 - 3 for i in range(l)])
            v += l
        ra = RaggedArray(np.array([x for r in rows for x in r], dtype=np.int64), ls)
        got = [np.asarray(r).tolist() for r in ra]
        if got != rows or ra.tolist() != rows or len(list(iter(ra))) != len(ls):
            return {"msg": f"iteration over RaggedArray with rows {rows}: {got}, tolist {ra.tolist()}", "sig": "wrong:iteration"}

    def bounded_cases(self, tier, seed):
        from ..bounded.common import length_vectors
        for ls in length_vectors(4, 3):
            yield {"lengths": ls}


@register
class SaveLoad(Family):
    """save / load round trip, the library's part of it: `save` hands np.savez the flat data and the geometry's code array, `load` rebuilds the array from
    exactly those two entries; with a file that gives back what was stored (np.savez / np.load: assumed) the loaded array has the same rows - same
    number of rows, starts, lengths, cells, element type - and the saved array is not modified."""
    name = "RaggedArray.save/load"
    qualname = "npstructures.raggedarray:RaggedArray.save"
    serves = ["C01", "C19"]
    assumed = ["np.load(f) after np.savez(f, **arrays) gives back the stored arrays under their names (file system and .npz format: outside the contracts)"]

    def extra_functions(self):
        return ["RaggedArray.load", "RaggedShape.to_dict", "RaggedShape.from_dict", "RaggedShape.__init__[is_coded]", "RaggedArray.__init__"]

    def run(self, ctx, kind):
        from ..sym import symnp
        from npstructures import RaggedArray
        g = sym_ragged(ctx, kind="elem")
        files = {}

        def savez_stub(self_, filename, *args, **kw):
            files.setdefault(filename, []).append((args, dict(kw)))

        def load_stub(self_, filename, *a, **k):
            return files[filename][-1][1]
        olds = {nm: symnp.SymNumpy.__dict__.get(nm) for nm in ("savez", "load")}
        symnp.SymNumpy.savez, symnp.SymNumpy.load = savez_stub, load_stub
        try:
            g.ra.save("FILE")
            out = RaggedArray.load("FILE")
        finally:
            for nm, f in olds.items():
                if f is None:
                    delattr(symnp.SymNumpy, nm)
                else:
                    setattr(symnp.SymNumpy, nm, f)
        ok = list(files) == ["FILE"] and len(files["FILE"]) == 1 and not files["FILE"][0][0] and isinstance(out, RaggedArray)
        ctx.prove("post.one np.savez with named arrays only, a RaggedArray loaded", z3.BoolVal(ok))
        if not ok:
            return
        stored = files["FILE"][0][1]
        ctx.prove("post.the file holds the flat data and the geometry", z3.BoolVal("data" in stored and len(stored) == 2 and all(isinstance(v, SymArr) for v in stored.values())))
        r = g.row()
        ctx.prove("post.same number of rows", I(sym_len_(out)) == g.n)
        ctx.prove("post.same row starts and lengths", z3.And(out._shape.starts.get(r) == g.S(r), out._shape.lengths.get(r) == g.L(r)), pool=[r, r + 1])
        j = z3.Int("j")
        ctx.skolem(z3.And(0 <= j, j < g.S(g.n)))
        fl = out.ravel()
        ctx.prove("post.same cells, same element type", z3.And(dim_term(fl.shape_[0]) == g.S(g.n), fl.get(j) == g.D.fn(j), z3.BoolVal(out.dtype == g.D.dtype)), pool=[j, g.n])
        ctx.prove("post.the saved array is not modified", z3.BoolVal(g.D.buf.writes == 0 and g.ra._shape is g.obj))

    def concretise(self, kind, model, ghost):
        return {"lengths": [2, 0, 3, 1, 0]}

    def concrete(self, case):
        import os
        import tempfile
        from npstructures import RaggedArray
        ls = case["lengths"]
        rows, v = [], 3
        for l in ls:
            rows.append([((v + i) * 7) % 11 - 3 for i in range(l)])
            v += l
        ra = RaggedArray(np.array([x for r in rows for x in r], dtype=np.int16), ls)
        d = tempfile.mkdtemp(prefix="vf_saveload_")
        try:
            fn = os.path.join(d, "x.npz")
            ra.save(fn)
            back = RaggedArray.load(fn)
            if back.tolist() != rows or back.dtype != ra.dtype or len(back) != len(ls) or ra.tolist() != rows:
                return {"msg": f"save/load of rows {rows}: loaded {back.tolist()} ({back.dtype})", "sig": "wrong:save-load"}
        except Exception as e:
            return {"msg": f"save/load of rows {rows} raised {type(e).__name__}: {e}", "sig": "raised:save-load"}
        finally:
            import shutil
            shutil.rmtree(d, ignore_errors=True)

    def bounded_cases(self, tier, seed):
        from ..bounded.common import length_vectors
        for ls in length_vectors(3, 2):
            yield {"lengths": ls}


@register
class NumpyRoundTrip(Family):
    name = "RaggedArray.to_numpy_array/from_numpy_array"
    qualname = "npstructures.raggedarray:RaggedArray.to_numpy_array"
    serves = ["C01", "C19"]

    def kinds(self):
        return ["to_numpy_array", "from_tuple_shape"]

    def run(self, ctx, kind):
        from npstructures.raggedshape import RaggedShape
        if kind == "from_tuple_shape":
            n, w = z3.Int("n"), z3.Int("w")
            ctx.assume(z3.And(n >= 0, w >= 0))
            sh = RaggedShape.from_tuple_shape((SInt(n), SInt(w)))
            r = z3.Int("r")
            ctx.skolem(z3.And(0 <= r, r < n))
            ctx.add_index(r)
            ctx.prove("post.lengths all w", sh.lengths.get(r) == w)
            ctx.prove("post.n_rows", I(sh.n_rows) == n)
            # starts[r] == r*w : induction over the prefix sums of a constant vector
            ps = prefix_sum(sh.lengths)
            k = z3.Int("k")
            ctx.add_index(k, k + 1, z3.IntVal(0))
            ctx.prove("lemma.base", ps(0) == 0 * w)
            ctx.prove("lemma.step", z3.Implies(z3.And(0 <= k, k < n, ps(k) == k * w), ps(k + 1) == (k + 1) * w))
            return
        g = sym_ragged(ctx)
        w = z3.Int("w")
        ctx.assume(w >= 0)
        ctx.assume_forall("rectangular", lambda r: z3.Implies(z3.And(0 <= r, r < g.n), g.L(r) == w))
        ctx.assume(g.n > 0)
        # lemma (proved in kind from_tuple_shape for prefix sums of constant vectors): S(r) = r*w
        ctx.assume_forall("S(r)==r*w", lambda r: z3.Implies(z3.And(0 <= r, r <= g.n), g.S(r) == r * w))
        M = g.ra.to_numpy_array()
        r = g.row()
        c = z3.Int("c")
        ctx.skolem(z3.And(0 <= c, c < w))
        ctx.prove("post.shape", z3.And(dim_term(M.shape_[0]) == g.n, dim_term(M.shape_[1]) == w))
        ctx.prove("post.M[r,c]==cell(r,c)", M.get(r, c) == g.D.fn(g.S(r) + c))


@register
class IndexArray(Family):
    """index_array()[j] = the row containing flat position j, for every j < size (empty rows skipped).
    bincount of the row starts, then cumsum: four small inductions over ghost counting functions
       cnt(k, i) = #{t < i : S(t+1) == k}          (bincount contract)
       H(j, i)   = sum_{k <= j} cnt(k, i)            le(j, i) = #{t < i : S(t+1) <= j}
       (A) H(j,i+1) = H(j,i) + [S(i+1) <= j]   (B) H(j,i) = le(j,i)   (C) cumsum[j] = H(j, n-1)   (D) le(j,i) = min(i, rho(j))"""
    name = "ViewBase.index_array"
    qualname = "npstructures.raggedshape:ViewBase.index_array"
    serves = ["C01", "C07", "C19"]
    timeout_ms = 30000
    assumed = ["numpy.bincount contract", "numpy.cumsum = prefix sums",
               "lemma partition-point (existence of the row containing a flat position; proved by induction in vf.proofs.lemmas)"]

    def run(self, ctx, kind):
        g = sym_shape(ctx)
        n, S, L = g.n, g.S, g.L
        size = S(n)
        rho = z3.Function(fresh_name("rho"), z3.IntSort(), z3.IntSort())
        ctx.assume_forall("rho", lambda j: z3.Implies(z3.And(0 <= j, j < size), z3.And(0 <= rho(j), rho(j) < n, S(rho(j)) <= j, j < S(rho(j) + 1))))
        ctx.add_index(n, n - 1, n - 2, z3.IntVal(0), z3.IntVal(1))
        out = g.obj.index_array()
        if isinstance(out, np.ndarray):
            ctx.prove("post.no rows: empty", z3.And(n == 0, z3.BoolVal(out.size == 0)))
            return
        ctx.prove("post.len==size", dim_term(out.shape_[0]) == size)
        if not ctx.ghost.get("bincount") or not ctx.ghost.get("prefix_sums"):
            # another construction than bincount + cumsum: the proof script below does not apply; the postcondition is
            # stated all the same (it will be reported as failed / undecided rather than silently skipped)
            jj = z3.Int("j")
            ctx.skolem(z3.And(0 <= jj, jj < size))
            ctx.prove("post.index_array[j] == row containing j", out.get(jj) == rho(jj), pool=[jj, rho(jj), rho(jj) + 1, n, n - 1])
            return
        bc = ctx.ghost["bincount"][-1]
        cnt, m = bc["cnt"], bc["m"]                     # m = n - 1 entries: x[t] = S(t+1)
        ps = ctx.ghost["prefix_sums"][-1]["ps"]
        H = z3.Function(fresh_name("H"), z3.IntSort(), z3.IntSort(), z3.IntSort())
        le = z3.Function(fresh_name("le"), z3.IntSort(), z3.IntSort(), z3.IntSort())
        ind = lambda c: z3.If(c, z3.IntVal(1), z3.IntVal(0))
        ctx.assume_forall("H.base", lambda i: H(-1, i) == 0)
        ctx.assume_forall("H.step", lambda j, i: z3.Implies(j >= 0, H(j, i) == H(j - 1, i) + cnt(j, i)), arity=2)
        ctx.assume_forall("le.base", lambda j: le(j, 0) == 0)
        ctx.assume_forall("le.step", lambda j, i: z3.Implies(z3.And(0 <= i, i < m), le(j, i + 1) == le(j, i) + ind(S(i + 1) <= j)), arity=2)
        j, i = z3.Int("j"), z3.Int("i")
        rng = z3.And(0 <= i, i < m)
        ctx.prove("lemmaA.base", z3.Implies(rng, H(-1, i + 1) == H(-1, i) + ind(S(i + 1) <= -1)), pool=[i, i + 1, z3.IntVal(-1), z3.IntVal(0)])
        ctx.prove("lemmaA.step", z3.Implies(z3.And(rng, j >= 0, H(j - 1, i + 1) == H(j - 1, i) + ind(S(i + 1) <= j - 1)),
                                            H(j, i + 1) == H(j, i) + ind(S(i + 1) <= j)), pool=[i, i + 1, j, j - 1])
        ctx.assume_forall("lemmaA", lambda jj, ii: z3.Implies(z3.And(0 <= ii, ii < m, jj >= -1), H(jj, ii + 1) == H(jj, ii) + ind(S(ii + 1) <= jj)), arity=2)
        ctx.prove("lemmaB.base: H(j,0)==0 (induction on j)", z3.Implies(z3.And(j >= 0, H(j - 1, 0) == 0), H(j, 0) == 0), pool=[j, j - 1, z3.IntVal(0)])
        ctx.assume_forall("H(j,0)==0", lambda jj: z3.Implies(jj >= -1, H(jj, 0) == 0))
        ctx.prove("lemmaB.step", z3.Implies(z3.And(rng, j >= -1, H(j, i) == le(j, i)), H(j, i + 1) == le(j, i + 1)), pool=[i, i + 1, j])
        ctx.assume_forall("lemmaB", lambda jj, ii: z3.Implies(z3.And(0 <= ii, ii <= m, jj >= -1), H(jj, ii) == le(jj, ii)), arity=2)
        ctx.prove("lemmaC.step: cumsum[j] == H(j, n-1)", z3.Implies(z3.And(0 <= j, j <= size, ps(j) == z3.If(j == 0, 0, H(j - 1, m))), ps(j + 1) == H(j, m)),
                  pool=[j, j - 1, j + 1, m, z3.IntVal(0)])
        ctx.assume_forall("lemmaC", lambda jj: z3.Implies(z3.And(0 <= jj, jj <= size), ps(jj + 1) == H(jj, m)))
        # (D) for a fixed position j < size: le(j, i) == min(i, rho(j)), by induction on i
        ctx.skolem(z3.And(0 <= j, j < size))
        mn = lambda a_, b_: z3.If(a_ <= b_, a_, b_)
        ctx.prove("lemmaD.base", le(j, 0) == mn(z3.IntVal(0), rho(j)), pool=[j, z3.IntVal(0), rho(j)])
        ctx.prove("lemmaD.step", z3.Implies(z3.And(rng, le(j, i) == mn(i, rho(j))), le(j, i + 1) == mn(i + 1, rho(j))),
                  pool=[j, i, i + 1, i + 2, rho(j), rho(j) + 1])
        ctx.assume_forall("lemmaD", lambda ii: z3.Implies(z3.And(0 <= ii, ii <= m), le(j, ii) == mn(ii, rho(j))))
        ctx.prove("post.index_array[j] == row containing j", out.get(j) == rho(j), pool=[j, m, rho(j), n, n - 1])

    def concrete(self, case):
        from npstructures.raggedshape import RaggedShape
        ls = case["lengths"]
        if not sum(ls):
            return None
        got = np.asarray(RaggedShape(ls).index_array()).tolist()
        exp = [r for r, l in enumerate(ls) for _ in range(l)]
        if got != exp:
            return {"msg": f"index_array on row lengths {ls}: {got}, expected {exp}", "sig": "wrong:index_array"}

    def concretise(self, kind, model, ghost):
        return None

    def bounded_cases(self, tier, seed):
        from ..bounded.common import length_vectors
        for ls in length_vectors(4, 3):
            yield {"lengths": ls}
