"""C17: the 2-D / ragged run-length arrays delegate to their (indices, values) ragged arrays.

Verified here: ufunc dispatch keeps the operand order and the run boundaries; len / shape / size come from the
boundaries; row selection indexes boundaries and values with the SAME selector (lock-step).  The ragged arrays
underneath are abstracted by recording stand-ins (their own contracts are C02 / C04)."""
import numpy as np
import z3

from .base import Family, register
from ..sym.core import SInt, cur
from ..sym.arr import SymArr, I


class Recorder:
    """stands for a RaggedArray operand: records what is done with it"""
    def __init__(self, name, log):
        self.name, self.log = name, log

    def __array_ufunc__(self, ufunc, method, *inputs, **kwargs):
        self.log.append(("ufunc", ufunc.__name__, method, tuple(getattr(i, "name", i) for i in inputs)))
        return Recorder(f"U({self.name})", self.log)

    def __getitem__(self, idx):
        self.log.append(("getitem", self.name, idx))
        return Recorder(f"{self.name}[{idx!r}]", self.log)

    def ravel(self):
        self.log.append(("ravel", self.name))
        return self

    def __len__(self):
        return 7

    def __repr__(self):
        return self.name


@register
class Rl2dUfunc(Family):
    name = "RunLength2dArray.__array_ufunc__"
    qualname = "npstructures.runlengtharray:RunLength2dArray.__array_ufunc__"
    serves = ["C17"]
    assumed = ["RaggedArray ufuncs (contract of C04) for the value array"]

    def kinds(self):
        return ["unary", "scalar-right", "scalar-left", "column-right", "column-left", "reduce"]

    def run(self, ctx, kind):
        from npstructures.runlengtharray import RunLength2dArray, RunLengthRaggedArray
        for cls in (RunLength2dArray, RunLengthRaggedArray):
            log = []
            vals, inds = Recorder("values", log), Recorder("indices", log)
            rl = cls(inds, vals, 9)
            s = SInt(z3.Int("s"))
            col = np.arange(7)[:, None]
            if kind == "reduce":
                r = rl.__array_ufunc__(np.subtract, "reduce", rl)
                ctx.prove(f"{cls.__name__}: other methods refused", z3.BoolVal(r is NotImplemented))
                continue
            if kind == "unary":
                out = rl.__array_ufunc__(np.negative, "__call__", rl)
                want = ("ufunc", "negative", "__call__", ("values",))
            elif kind.endswith("right"):
                other = s if kind.startswith("scalar") else col
                out = rl.__array_ufunc__(np.subtract, "__call__", rl, other)
                want = ("ufunc", "subtract", "__call__", ("values", other))
            else:
                other = s if kind.startswith("scalar") else col
                out = rl.__array_ufunc__(np.subtract, "__call__", other, rl)
                want = ("ufunc", "subtract", "__call__", (other, "values"))
            got = log[-1] if log else None
            same = got is not None and got[:3] == want[:3] and len(got[3]) == len(want[3]) and all(
                (a is b) or (isinstance(a, str) and a == b) for a, b in zip(got[3], want[3]))
            ctx.prove(f"{cls.__name__}: ufunc applied to the values with operands in the caller's order", z3.BoolVal(bool(same)))
            ctx.prove(f"{cls.__name__}: boundaries and row length kept", z3.BoolVal(out._indices is inds and out._row_len == 9))
            ctx.prove(f"{cls.__name__}: result class", z3.BoolVal(type(out) is cls))

    def concrete(self, case):
        from npstructures.runlengtharray import RunLength2dArray
        m = np.array(case["m"])
        rl = RunLength2dArray.from_array(m)
        col = np.arange(len(m))[:, None] + 10
        for got, exp, what in ((2 - rl, 2 - m, "2 - rl"), (rl - 2, m - 2, "rl - 2"), (col - rl, col - m, "col - rl"), (rl - col, m - col, "rl - col")):
            if np.asarray(got.to_array()).tolist() != exp.tolist():
                return {"msg": f"{what} with rl = {case['m']}: {np.asarray(got.to_array()).tolist()}, numpy {exp.tolist()}", "sig": "wrong:rl2d-ufunc"}

    def concretise(self, kind, model, ghost):
        return {"m": [[0, 0, 1], [2, 1, 1]]}

    def bounded_cases(self, tier, seed):
        yield {"m": [[0, 0, 1], [2, 1, 1]]}
        yield {"m": [[3]]}
        yield {"m": [[1, 2], [2, 2], [0, 1]]}


@register
class Rl2dRowSelect(Family):
    """rl[rows]: boundaries and values are indexed with the same selector object"""
    name = "IndexableMixin.__getitem__"
    qualname = "npstructures.runlengtharray:IndexableMixin.__getitem__"
    serves = ["C17"]
    assumed = ["RaggedArray row selection (contract of C02) for boundaries and values"]

    def kinds(self):
        return ["rows"]

    def run(self, ctx, kind):
        from npstructures.runlengtharray import RunLength2dArray, RunLengthRaggedArray
        import npstructures.runlengtharray as mod
        for cls in (RunLength2dArray, RunLengthRaggedArray):
            log = []
            vals, inds = Recorder("values", log), Recorder("indices", log)
            rl = cls(inds, vals, None)
            sel = [2, 0]
            old = mod.RaggedArray
            mod.RaggedArray = Recorder            # `isinstance(events, RaggedArray)` must hold for the stand-in
            try:
                out = rl[sel]
            finally:
                mod.RaggedArray = old
            gets = [e for e in log if e[0] == "getitem"]
            ok = len(gets) == 2 and {gets[0][1], gets[1][1]} == {"values", "indices"} and gets[0][2] is sel and gets[1][2] is sel
            ctx.prove(f"{cls.__name__}: same selector for boundaries and values", z3.BoolVal(bool(ok)))
            ctx.prove(f"{cls.__name__}: result class and components",
                      z3.BoolVal(type(out) is cls and out._indices.name.startswith("indices[") and out._values.name.startswith("values[")))
