"""C09 bounded stand-in: column aggregates of ragged arrays against the plain list of rows.

Oracle: column j (0 <= j < longest row) = [row[j] for row in rows if len(row) > j], in row order.
  sum(axis=0)[j]      the exact sum of that column (Python integers for integer dtypes -- numpy sums int64/uint64
                      exactly; a column whose exact sum does not fit the 64-bit accumulator is not compared),
                      for booleans the count of True; floats: cells are exactly representable so the sum is exact
  mean(axis=0)[j]     exact sum / number of rows reaching the column (relative tolerance 1e-12, float32: 1e-5;
                      for 64-bit integers with huge cells numpy's own float64 mean of the column is accepted too)
  col_counts()[j]     the number of rows with more than j elements
  get_column_values(j)  the column itself
The result dtype is not named by the statement and not checked: 6.0 == 6, but 9007199254740992.0 != 2**53 + 1."""
import itertools
import warnings
import numpy as np
from .common import import_repo, length_vectors
from .raggedutil import (ALL_DTYPES, dtclass, cells, mk, num_eq, seq_eq, short, float_rtol, Unsupported,
                         nonempty_variant, rows_class, vals_class, refine)

PROPERTY = "C09"
OPS = ["sum-method", "sum-func", "mean-method", "mean-func", "col_counts", "colvals"]
QUICK_DTYPES = ["bool", "int8", "int32", "int64", "uint8", "uint64", "float32", "float64"]
RULE = ("exhaustive: every row-length vector with at least one non-empty row (rows<=R, len<=L, empty rows anywhere) plus "
        "vectors over {0,1,2,LONG} containing a LONG row (rows of very different lengths) x dtype x value scheme (distinct "
        "small | dtype extremes, negatives, zero | repeats | for int64/uint64: cells around 2**53 and up to 2**63-1 whose "
        "exact column sums fit 64 bits) x ra.sum(axis=0), np.sum(ra, axis=0), ra.mean(axis=0), np.mean(ra, axis=0), "
        "ra.col_counts(), ra.get_column_values(j) for every j < longest row. non-trivial = rows of different lengths or an "
        "empty row")
BOUNDS = {"quick": {"max_rows": 3, "max_len": 3, "long": 9, "long_max_rows": 3, "dtypes": QUICK_DTYPES},
          "thorough": {"max_rows": 4, "max_len": 4, "long": 12, "long_max_rows": 4, "dtypes": ALL_DTYPES,
                       "random": 30000, "random_max_rows": 7, "random_max_len": 10}}

BIG = {"int64": [2 ** 53, 1, 2 ** 62 - 1, -3, 2 ** 53 + 1, 2 ** 61 + 1, 5, -(2 ** 53) - 1, 7, 2 ** 63 - 1, -(2 ** 62), 2 ** 60 + 3,
                 11, 2 ** 53 + 2, -(2 ** 63), 13, 2 ** 54 + 1, 1, 2 ** 62 + 1, -1],
       "uint64": [2 ** 53, 1, 2 ** 63 - 1, 3, 2 ** 53 + 1, 2 ** 62 + 1, 5, 2 ** 64 - 1, 7, 2 ** 63 + 1, 0, 2 ** 60 + 3, 11, 2 ** 53 + 2,
                  2 ** 64 - 2, 13, 2 ** 54 + 1, 1, 2 ** 61 + 1, 2]}


def _schemes(dt):
    k = np.dtype(dt).kind
    if k == "f":
        return ["distinct", "dups", "zeros"]
    if k == "b":
        return ["distinct", "zeros"]
    return ["distinct", "mixed", "dups"] + (["big"] if dt in BIG else [])


def _rows(case):
    lengths, dt, scheme, off = case["lengths"], case["dtype"], case["vals"], case.get("offset", 0)
    if scheme == "big":
        if dt not in BIG:
            raise Unsupported()
        al, out, k = BIG[dt], [], off
        for l in lengths:
            out.append([al[(k + i) % len(al)] for i in range(l)])
            k += l
        return out
    if scheme not in _schemes(dt):
        raise Unsupported()
    return cells(lengths, dt, scheme, offset=off)


def _shapes(b):
    seen = []
    for ls in length_vectors(b["max_rows"], b["max_len"], min_rows=1):
        if any(ls):
            seen.append(ls)
    for n in range(1, b["long_max_rows"] + 1):
        for ls in itertools.product([0, 1, 2, b["long"]], repeat=n):
            if b["long"] in ls:
                seen.append(list(ls))
    return seen


def cases(tier, seed):
    b = BOUNDS[tier]
    for lengths in _shapes(b):
        for dt in b["dtypes"]:
            for scheme in _schemes(dt):
                for op in OPS:
                    for j in (range(max(lengths)) if op == "colvals" else [None]):
                        yield {"lengths": lengths, "dtype": dt, "vals": scheme, "op": op, "j": j}
    if tier == "thorough":
        rng = np.random.default_rng(seed)
        for _ in range(b["random"]):
            n = int(rng.integers(1, b["random_max_rows"] + 1))
            lengths = [int(x) if rng.random() > 0.3 else 0 for x in rng.integers(0, b["random_max_len"] + 1, size=n)]
            if not any(lengths):
                continue
            dt = ALL_DTYPES[int(rng.integers(len(ALL_DTYPES)))]
            sch = _schemes(dt)
            op = OPS[int(rng.integers(len(OPS)))]
            yield {"lengths": lengths, "dtype": dt, "vals": sch[int(rng.integers(len(sch)))], "op": op,
                   "j": int(rng.integers(0, max(lengths))) if op == "colvals" else None, "offset": int(rng.integers(0, 17))}


def nontrivial(case):
    return len(set(case["lengths"])) > 1 or 0 in case["lengths"]


def _written(op, j):
    return {"sum-method": "ra.sum(axis=0)", "sum-func": "np.sum(ra, axis=0)", "mean-method": "ra.mean(axis=0)",
            "mean-func": "np.mean(ra, axis=0)", "col_counts": "ra.col_counts()", "colvals": f"ra.get_column_values({j})"}[op]


def _lib(ra, op, j):
    if op == "sum-method":
        return ra.sum(axis=0)
    if op == "sum-func":
        return np.sum(ra, axis=0)
    if op == "mean-method":
        return ra.mean(axis=0)
    if op == "mean-func":
        return np.mean(ra, axis=0)
    if op == "col_counts":
        return ra.col_counts()
    return ra.get_column_values(j)


AXES = [
    ("rows", "lengths", lambda case: [nonempty_variant(case["lengths"])], rows_class),
    ("dtype", "dtype", [], lambda dt: dtclass(dt) + ("64" if np.dtype(dt).kind in "iu" and np.dtype(dt).itemsize == 8 else "")),   # always kept
    ("vals", "vals", ["distinct"], vals_class),
]


def check(case):
    import_repo()
    with warnings.catch_warnings(), np.errstate(all="ignore"):
        warnings.simplefilter("ignore")
        try:
            v = _check(case)
        except Unsupported:
            return None
        return None if v is None else refine(case, v, _check, AXES)


def _check(case):
    lengths, dt, op, j = case["lengths"], case["dtype"], case["op"], case.get("j")
    if not any(lengths):
        raise Unsupported()                     # the property is stated for arrays with at least one non-empty row
    rows = _rows(case)
    width = max(lengths)
    if op == "colvals" and not (0 <= j < width):
        raise Unsupported()
    kind = np.dtype(dt).kind
    ra = mk(rows, dt)
    # python values as stored (float32 rounding of the alphabet is exact by construction; go through numpy to be sure)
    stored = [np.array(r, dtype=dt).tolist() for r in rows]
    cols = [[r[c] for r in stored if len(r) > c] for c in range(width)]
    desc = f"{_written(op, j)} with ra = RaggedArray(rows={rows}, dtype={dt})"
    what = op.split("-")[0]
    if what == "sum":
        exp = [sum(int(v) for v in col) if kind in "biu" else float(np.sum(np.array(col, dtype=np.float64))) for col in cols]
        if kind == "u":
            skip = [not (0 <= e < 2 ** 64) for e in exp]
        elif kind in "bi":
            skip = [not (-2 ** 63 <= e < 2 ** 63) for e in exp]
        else:
            skip = [False] * width
        rtol = float_rtol(dt) if kind == "f" else 0.0
    elif what == "mean":
        if kind in "biu":
            exp = [sum(int(v) for v in col) / len(col) for col in cols]
        else:
            exp = [float(np.sum(np.array(col, dtype=np.float64))) / len(col) for col in cols]
        skip = [False] * width
        rtol = 1e-5 if dt == "float32" else 1e-12
    elif what == "col_counts":
        exp, skip, rtol = [len(col) for col in cols], [False] * width, 0.0
    else:
        exp, skip, rtol = cols[j], None, 0.0
    try:
        got = _lib(ra, op, j)
    except Exception as e:
        return {"msg": f"{desc}: expected {short(exp)}, raised {type(e).__name__}: {e}", "what": f"raised:{type(e).__name__}:{op}"}
    try:
        g = np.asarray(got)
        ok_shape = g.ndim == 1 and g.dtype != object and g.shape[0] == len(exp)
    except Exception:
        g, ok_shape = None, False
    if not ok_shape:
        return {"msg": f"{desc}: expected {len(exp)} values {short(exp)}, got {short(got)}", "what": f"wrong-length:{op}"}
    gl = g.tolist()
    if what == "colvals":
        if not seq_eq(gl, exp):
            return {"msg": f"{desc}: got {short(gl)}, the column is {short(exp)}", "what": f"wrong:{op}"}
        return None
    for c in range(width):
        if skip[c] or num_eq(gl[c], exp[c], rtol):
            continue
        if what == "mean" and kind in "iu" and np.dtype(dt).itemsize == 8 and \
                num_eq(gl[c], float(np.mean(np.array(cols[c], dtype=dt))), rtol):
            continue                            # numpy's own float64 mean of that column (cancellation of huge cells)
        return {"msg": f"{desc}: column {c} = {cols[c]}: expected {exp[c]!r}, got {gl[c]!r} (all: expected {short(exp)}, got {short(gl)}, "
                       f"result dtype {g.dtype})", "what": f"wrong:{op}"}
    return None
