"""C07 bounded stand-in: row-wise scans and reorderings of ragged arrays against numpy applied to each row.

Oracle per row i (np.array(row_i, dtype)): np.cumsum, np.<add|subtract|bitwise_xor>.accumulate, np.sort, np.unique
(optionally return_counts=True), np.diff(., n).  The result must be a ragged array with the same number of rows, in
the same order, whose row i holds exactly numpy's numbers for row i (so an empty row stays empty, and diff gives an
empty row when the row has <= n elements).  Numbers are compared exactly; for float cells drawn from the 'extreme'
alphabet (finite dtype extremes, magnitudes around 2**mantissa) a relative tolerance of 1e-11 (float64) / 1e-5
(float32) is allowed so that only gross differences are reported.  The result dtype is not named by the statement and
is not checked.  NaN cells are not used (numpy's unique treats NaNs specially; the statement does not say)."""
import warnings
import numpy as np
from .common import import_repo, length_vectors
from .raggedutil import (ALL_DTYPES, INT_DTYPES, dtclass, cells, mk, seq_eq, short, float_rtol, Unsupported,
                         nonempty_variant, rows_class, vals_class, refine)

PROPERTY = "C07"
SCHEMES = ["distinct", "desc", "dups", "extreme", "close"]
OPS = ["cumsum-func", "cumsum-method", "acc-add", "acc-subtract", "acc-bitwise_xor", "sort", "unique", "unique-counts", "diff"]
QUICK_DTYPES = ["bool", "int8", "int64", "uint8", "uint64", "float32", "float64"]
RULE = ("exhaustive: every row-length vector (rows<=R, len<=L, incl. zero rows and empty rows in every position) x dtype x "
        "value scheme (distinct ascending | distinct descending | 3-letter alphabet with repeats, negatives and zero | "
        "dtype extremes, negatives, for floats also magnitudes around 2**mantissa | neighbouring large values that differ by one unit "
        "/ a few ulps) x operation: np.cumsum(ra, axis=-1) "
        "and ra.cumsum(axis=-1) (integer dtypes only), np.add/subtract/bitwise_xor.accumulate(ra, axis=-1) (dtypes "
        "numpy accepts), ra.sort(axis=-1), np.unique(ra, axis=-1[, return_counts=True]), np.diff(ra, n=n, axis=-1) for "
        "n = 0..L+1. non-trivial = the array has an empty row or zero rows, or a row of length 1, or n > 1")
BOUNDS = {"quick": {"max_rows": 3, "max_len": 3, "dtypes": QUICK_DTYPES, "schemes": SCHEMES, "diff_n": [0, 1, 2, 3, 4],
                    "dups_offsets": [1, 2, 3, 5, 8]},
          "thorough": {"max_rows": 4, "max_len": 4, "dtypes": ALL_DTYPES, "schemes": SCHEMES, "diff_n": [0, 1, 2, 3, 4, 5],
                       "dups_offsets": list(range(1, 17)),
                       "random": 40000, "random_max_rows": 7, "random_max_len": 7}}


def _np_row(op, n):
    if op.startswith("cumsum"):
        return np.cumsum
    if op.startswith("acc-"):
        return getattr(np, op[4:]).accumulate
    if op == "sort":
        return np.sort
    if op == "unique":
        return np.unique
    if op == "unique-counts":
        return lambda r: np.unique(r, return_counts=True)
    if op == "diff":
        return lambda r: np.diff(r, n=n)
    raise ValueError(op)


_SUPPORT = {}


def _supported(op, dt):
    if op.startswith("cumsum"):
        return dt in INT_DTYPES          # the statement: integer dtypes only
    if (op, dt) not in _SUPPORT:
        try:
            with warnings.catch_warnings(), np.errstate(all="ignore"):
                warnings.simplefilter("ignore")
                _np_row(op, 1)(np.ones(2, dtype=dt))
            _SUPPORT[(op, dt)] = True
        except TypeError:
            _SUPPORT[(op, dt)] = False
    return _SUPPORT[(op, dt)]


def cases(tier, seed):
    b = BOUNDS[tier]
    for lengths in length_vectors(b["max_rows"], b["max_len"]):
        for dt in b["dtypes"]:
            for scheme in SCHEMES:
                for op in OPS:
                    if not _supported(op, dt):
                        continue
                    for n in (b["diff_n"] if op == "diff" else [None]):
                        yield {"lengths": lengths, "dtype": dt, "vals": scheme, "op": op, "n": n}
                    if scheme == "dups" and op in ("sort", "unique", "unique-counts"):
                        # other alignments of the repeated values with the row boundaries
                        for off in b["dups_offsets"]:
                            yield {"lengths": lengths, "dtype": dt, "vals": scheme, "op": op, "n": None, "offset": off}
    if tier == "thorough":
        rng = np.random.default_rng(seed)
        for _ in range(b["random"]):
            nr = int(rng.integers(0, b["random_max_rows"] + 1))
            lengths = [int(x) if rng.random() > 0.3 else 0 for x in rng.integers(0, b["random_max_len"] + 1, size=nr)]
            dt = ALL_DTYPES[int(rng.integers(len(ALL_DTYPES)))]
            op = OPS[int(rng.integers(len(OPS)))]
            if not _supported(op, dt):
                continue
            yield {"lengths": lengths, "dtype": dt, "vals": SCHEMES[int(rng.integers(len(SCHEMES)))], "op": op,
                   "n": int(rng.integers(0, 7)) if op == "diff" else None, "offset": int(rng.integers(0, 17))}


def nontrivial(case):
    ls = case["lengths"]
    return len(ls) == 0 or 0 in ls or 1 in ls or (case["n"] or 0) > 1


def _lib(ra, op, n):
    if op == "cumsum-func":
        return np.cumsum(ra, axis=-1)
    if op == "cumsum-method":
        return ra.cumsum(axis=-1)
    if op.startswith("acc-"):
        return getattr(np, op[4:]).accumulate(ra, axis=-1)
    if op == "sort":
        r = ra.sort(axis=-1)
        return ra if r is None else r          # the library returns a new array; an in-place sort would also do
    if op == "unique":
        return np.unique(ra, axis=-1)
    if op == "unique-counts":
        return np.unique(ra, axis=-1, return_counts=True)
    if op == "diff":
        return np.diff(ra, n=n, axis=-1)
    raise ValueError(op)


def _written(op, n):
    return {"cumsum-func": "np.cumsum(ra, axis=-1)", "cumsum-method": "ra.cumsum(axis=-1)", "sort": "ra.sort(axis=-1)",
            "unique": "np.unique(ra, axis=-1)", "unique-counts": "np.unique(ra, axis=-1, return_counts=True)",
            "diff": f"np.diff(ra, n={n}, axis=-1)"}.get(op) or f"np.{op[4:]}.accumulate(ra, axis=-1)"


AXES = [
    ("rows", "lengths", lambda case: [nonempty_variant(case["lengths"])], rows_class),
    ("dtype", "dtype", ["int64", "float64", "bool", "uint8"], dtclass),
    ("vals", "vals", ["distinct"], vals_class),
    ("n", "n", [1], lambda n: None if n in (None, 1) else ("0" if n == 0 else ">1")),
]


def check(case):
    import_repo()
    with warnings.catch_warnings(), np.errstate(all="ignore"):
        warnings.simplefilter("ignore")
        try:
            v = _check(case)
        except Unsupported:
            return None
        return None if v is None else refine(case, v, _check, AXES)


def _rows_of(x):
    from npstructures import RaggedArray
    if not isinstance(x, RaggedArray):
        return None
    return [np.asarray(r).tolist() for r in x]


def _check(case):
    lengths, dt, op, n = case["lengths"], case["dtype"], case["op"], case.get("n")
    if not _supported(op, dt):
        raise Unsupported()
    rows = cells(lengths, dt, case["vals"], offset=case.get("offset", 0))
    ra = mk(rows, dt)
    f = _np_row(op, n)
    exp = [f(np.array(r, dtype=dt)) for r in rows]
    if op == "unique-counts":
        exp_parts = [[e[0].tolist() for e in exp], [e[1].tolist() for e in exp]]
    else:
        exp_parts = [[np.asarray(e).tolist() for e in exp]]
    rtol = float_rtol(dt) if (np.dtype(dt).kind == "f" and case["vals"] == "extreme") else 0.0
    desc = f"{_written(op, n)} with ra = RaggedArray(rows={rows}, dtype={dt})"
    try:
        got = _lib(ra, op, n)
    except Exception as e:
        return {"msg": f"{desc}: expected {short(exp_parts if len(exp_parts) > 1 else exp_parts[0])}, raised "
                       f"{type(e).__name__}: {e}", "what": f"raised:{type(e).__name__}:{op}"}
    got_parts = list(got) if op == "unique-counts" and isinstance(got, tuple) else [got]
    if len(got_parts) != len(exp_parts):
        return {"msg": f"{desc}: expected (values, counts), got {short(got)}", "what": f"not-ragged:{op}"}
    for which, (g, e) in enumerate(zip(got_parts, exp_parts)):
        gl = _rows_of(g)
        part = ("" if len(exp_parts) == 1 else ("values " if which == 0 else "counts "))
        if gl is None:
            return {"msg": f"{desc}: {part}result is {type(g).__name__} {short(g)}, not a RaggedArray; expected rows {short(e)}",
                    "what": f"not-ragged:{op}"}
        if [len(r) for r in gl] != [len(r) for r in e] or [int(l) for l in g.lengths] != [len(r) for r in e]:
            return {"msg": f"{desc}: {part}rows {short(gl)} (lengths {[int(l) for l in g.lengths]}), numpy row by row gives {short(e)}",
                    "what": f"wrong-lengths:{op}"}
        if not seq_eq(gl, e, rtol):
            return {"msg": f"{desc}: {part}rows {short(gl)}, numpy row by row gives {short(e)}",
                    "what": f"wrong{'-counts' if which else ''}:{op}"}
    return None
