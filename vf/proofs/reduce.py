"""C05: RaggedArray._reduce against the assumed contract of ufunc.reduceat.

Contract (from the property): for every row r,
   L(r) > 0  =>  result[r] = U(identity, fold_U(row r))        (numpy's reduce starts from the identity; for ufuncs
                                                                 without identity: result[r] = fold_U(row r))
   L(r) = 0  =>  result[r] = identity                           (only for ufuncs that have one)
and no exception, wherever the empty rows are.  fold_U(D, s, e) is the uninterpreted left fold of the assumed
reduceat / reduce contracts, so the statement holds for every ufunc at once.
"""
import numpy as np
import z3

from .base import Family, register, model_int
from .ragged import sym_ragged
from ..sym.core import SInt, cur
from ..sym.arr import SymArr, I, dim_term, ELEM_CONST, apply_binary
from ..sym.theory import prefix_sum, fold_fn


def telescoping(ctx, g, arr):
    """PS of the lengths view equals S (lemma proved by induction in RaggedArray.readers/size)"""
    ps = prefix_sum(arr)
    ctx.assume_forall("telescoping: PS_lengths == S", lambda q: z3.Implies(z3.And(0 <= q, q <= g.n), ps(q) == g.S(q)))
    return ps


@register
class Reduce(Family):
    name = "RaggedArray._reduce"
    qualname = "npstructures.raggedarray:RaggedArray._reduce"
    serves = ["C05", "C19"]
    assumed = ["ufunc.reduceat contract (DESIGN section 5)", "ufunc.reduce of an empty array = identity",
               "numpy.searchsorted on a sorted array", "numpy.pad(constant)",
               "identity law U(identity, identity) = identity",
               "associativity of ufuncs that have an identity: numpy.reduce(row) = U(identity, left fold of the row)"]

    def kinds(self):
        return ["add", "maximum", "logical_and", "add.keepdims"]

    def extra_functions(self):
        return ["RaggedBase.size", "RaggedBase.ravel", "RaggedArray.__len__"]

    def run(self, ctx, kind):
        uname = kind.split(".")[0]
        ufunc = getattr(np, uname)
        g = sym_ragged(ctx, kind="elem")
        ctx.ghost["g"] = g
        ra = g.ra
        telescoping(ctx, g, ra._shape.lengths)
        ctx.add_index(g.n - 1, g.n)
        if ufunc.identity is not None and not uname.startswith("logical"):
            e0 = ELEM_CONST(ufunc.identity)
            ctx.assume(apply_binary(uname, e0, e0) == e0)        # identity law U(id, id) = id (assumed, listed)
        res = ra._reduce(ufunc, ra, axis=-1, keepdims=kind.endswith("keepdims"))
        fold = fold_fn(uname, g.D)
        r = g.row()
        ctx.add_index(r + 1)
        if kind.endswith("keepdims"):
            ctx.prove("post.shape==(n,1)", z3.And(dim_term(res.shape_[0]) == g.n, z3.BoolVal(res.ndim == 2)))
            val = res.get(r, 0)
        else:
            ctx.prove("post.len==n", dim_term(res.shape_[0]) == g.n)
            val = res.get(r)
        from ..sym.arr import coerce_term
        kindt = "bool" if uname.startswith("logical") else "elem"
        val = coerce_term(val, kindt)
        f = fold(g.S(r), g.S(r) + g.L(r))
        if ufunc.identity is None:
            ctx.prove("post.nonempty row: result[r]==fold(row r)", z3.Implies(g.L(r) > 0, val == f))
        else:
            ident = ELEM_CONST(ufunc.identity) if kindt == "elem" else z3.BoolVal(bool(ufunc.identity))
            ctx.prove("post.nonempty row: result[r]==U(identity, fold(row r))",
                      z3.Implies(g.L(r) > 0, val == apply_binary(uname, ident, f)))
            ctx.prove("post.empty row: result[r]==identity",
                      z3.Implies(g.L(r) == 0, val == ident))

    def concretise(self, kind, model, ghost):
        g = ghost["g"]
        n = min(max(model_int(model, g.n), 0), 5)
        return {"lengths": [min(max(model_int(model, g.L(z3.IntVal(r))), 0), 4) for r in range(n)], "ufunc": kind.split(".")[0]}

    def concrete(self, case):
        from npstructures import RaggedArray
        ls = case["lengths"]
        tot = sum(ls)
        rows, v = [], 3
        for l in ls:
            rows.append([((v + i) * 7) % 11 - 3 for i in range(l)])
            v += l
        ra = RaggedArray(np.array([x for r in rows for x in r], dtype=np.int64), ls)
        uf = getattr(np, case["ufunc"])
        try:
            got = uf.reduce(ra, axis=-1)
        except Exception as e:
            if uf.identity is None and tot == 0:
                return None
            return {"msg": f"np.{case['ufunc']}.reduce on rows {rows} raised {type(e).__name__}: {e}", "sig": "raised:_reduce"}
        for r, row in enumerate(rows):
            if row or uf.identity is not None:
                exp = uf.reduce(np.array(row, dtype=np.int64))
                if got[r] != exp:
                    return {"msg": f"np.{case['ufunc']}.reduce on rows {rows}: row {r} gives {got[r]}, numpy {exp}", "sig": "wrong:_reduce"}

    def bounded_cases(self, tier, seed):
        from ..bounded.common import length_vectors
        for ls in length_vectors(4, 2):
            for u in ("add", "maximum", "logical_and", "bitwise_xor", "multiply"):
                yield {"lengths": ls, "ufunc": u}

    def nontrivial(self, case):
        return 0 in case["lengths"]


@register
class ReductionWrapper(Family):
    """the `reduction` decorator and the named reductions: axis=None reduces the flat data with the numpy function of
    the same name, keepdims returns the same numbers as a column, other axes are refused, and each named reduction is
    the reduce method of its ufunc along the last axis"""
    name = "raggedarray.reduction wrapper + named reductions"
    qualname = "npstructures.raggedarray:reduction"
    serves = ["C05"]
    assumed = ["numpy dispatch protocol: ufunc.reduce(ragged, axis) calls RaggedArray.__array_ufunc__(ufunc, 'reduce', ...)"]

    def kinds(self):
        return ["sum", "prod", "all", "any", "max", "min", "table"]

    def run(self, ctx, kind):
        import npstructures.raggedarray as ramod
        from npstructures import arrayfunctions as af
        if kind == "table":
            ok = all(af.HANDLED_FUNCTIONS[getattr(np, name)].__name__ == "<lambda>" for name in ("sum", "all", "any", "max", "min", "prod", "mean", "argmax", "argmin", "cumsum", "nonzero"))
            want = {np.add: "sum", np.logical_and: "all", np.logical_or: "any", np.maximum: "max", np.minimum: "min", np.multiply: "prod"}
            ctx.prove("post.REDUCTIONS maps each ufunc to the method of the matching name", z3.BoolVal(dict(af.REDUCTIONS) == want and ok))

            class Probe:
                def __getattr__(s, name):
                    return lambda *a, **k: ("CALLED", name, a, k)
            res = {name: af.HANDLED_FUNCTIONS[getattr(np, name)](Probe(), axis=-1) for name in ("sum", "all", "any", "max", "min", "prod", "mean")}
            ctx.prove("post.np.<name>(ra, ...) calls ra.<name>(...) with the same arguments",
                      z3.BoolVal(all(v == ("CALLED", k, (), {"axis": -1}) for k, v in res.items())))
            return
        g = sym_ragged(ctx, kind="elem")
        ra = g.ra
        want_ufunc = {"sum": "add", "prod": "multiply", "all": "logical_and", "any": "logical_or", "max": "maximum", "min": "minimum"}[kind]
        rec = []
        n = g.n
        col = SymArr.symbolic("rowres", n, "elem", np.int64, assume_len=False)
        old = ramod.RaggedArray.__dict__["_reduce"]
        ramod.RaggedArray._reduce = lambda self_, ufunc, ra_, axis=0, **kw: rec.append((ufunc.__name__, ra_, axis, kw)) or col
        try:
            out = getattr(ra, kind)(axis=-1)
            out_k = getattr(ra, kind)(axis=-1, keepdims=True)
            out_2 = getattr(ra, kind)(axis=7)
        finally:
            ramod.RaggedArray._reduce = old
        ctx.prove("post.axis=-1: the ufunc's reduce over the rows of this array", z3.BoolVal(
            out is col and len(rec) == 2 and all(r[0] == want_ufunc and r[1] is ra and r[2] in (-1, 1) for r in rec)))
        t = z3.Int("t")
        ctx.skolem(z3.And(0 <= t, t < n))
        ctx.prove("post.keepdims: the same numbers as an (n, 1) column", z3.And(z3.BoolVal(out_k.ndim == 2), dim_term(out_k.shape_[0]) == n,
                                                                                z3.BoolVal(out_k.shape_[1] == 1), out_k.get(t, 0) == col.fn(t)))
        ctx.prove("post.unsupported axis refused", z3.BoolVal(out_2 is NotImplemented))
        # axis=None: the numpy function of the same name on the flat data
        from ..sym import symnp
        seen = []
        real = getattr(symnp.SymNumpy, kind, None)

        class Res:
            def item(s):
                return "SCALAR"
        setattr(symnp.SymNumpy, kind, lambda self_, x, *a, **k: seen.append(x) or Res())
        try:
            out_n = getattr(ra, kind)()
        finally:
            if real is None:
                delattr(symnp.SymNumpy, kind)
            else:
                setattr(symnp.SymNumpy, kind, real)
        ctx.prove("post.axis=None: np.<name> of all elements, as a scalar", z3.BoolVal(out_n == "SCALAR" and len(seen) == 1 and seen[0] is g.D))


@register
class ArgExtremum(Family):
    """_arg_extremum(ext) with ext an (n, 1) column: result[r] = the FIRST column c of row r with row[c] == ext[r] (numpy ==), and 0 for a
    row without such a cell (in particular an empty row); argmax / argmin hand it the keepdims row maxima / minima.
    RaggedArray.nonzero and the column broadcast enter through their proved contracts."""
    name = "RaggedArray._arg_extremum"
    qualname = "npstructures.raggedarray:RaggedArray._arg_extremum"
    serves = ["C05", "C19"]
    timeout_ms = 30000
    assumed = ["callee contract RaggedArray.nonzero (proved: RaggedArray.nonzero/contract.*)",
               "callee contract RaggedArray._broadcast_rows: every cell of row r gets column[r] (proved: RaggedShape.broadcast_values / _raw_broadcast)",
               "numpy.unique(return_index=True): distinct values increasing, index of the first occurrence (audited)",
               "numpy fancy assignment (witness form)", "numpy == as an uninterpreted relation on elements"]

    def kinds(self):
        return ["values", "argmax-dispatch", "argmin-dispatch"]

    def extra_functions(self):
        return ["RaggedArray.__array_ufunc__", "RaggedArray.argmax", "RaggedArray.argmin"]

    def run(self, ctx, kind):
        from npstructures import RaggedArray
        from .scans import stub_broadcast_generic
        from .structural import contract_ragged_nonzero
        from ..sym.arr import coerce_term
        g = sym_ragged(ctx, kind="elem")
        ctx.ghost["g"] = g
        n, S, L, D = g.n, g.S, g.L, g.D.fn
        if kind.endswith("dispatch"):
            which = kind.split("-")[0]
            log = []
            col = SymArr.symbolic("col", n, "elem", np.int64, assume_len=False).reshape(-1, 1)
            old = {nm: RaggedArray.__dict__[nm] for nm in ("_arg_extremum", "max", "min")}
            RaggedArray._arg_extremum = lambda self_, e: log.append(("_arg_extremum", self_, e)) or "ARG"
            RaggedArray.max = lambda self_, **kw: log.append(("max", self_, kw)) or col
            RaggedArray.min = lambda self_, **kw: log.append(("min", self_, kw)) or col
            try:
                out = getattr(g.ra, which)(axis=-1)
                out_bad = getattr(g.ra, which)(axis=0)
            finally:
                for nm, f in old.items():
                    setattr(RaggedArray, nm, f)
            want = "max" if which == "argmax" else "min"
            ok = out == "ARG" and len(log) == 2 and log[0][0] == want and log[0][1] is g.ra and log[0][2] == {"axis": -1, "keepdims": True} and \
                log[1][0] == "_arg_extremum" and log[1][1] is g.ra and log[1][2] is col
            ctx.prove(f"post.{which}(axis=-1) = _arg_extremum(self.{want}(axis=-1, keepdims=True))", z3.BoolVal(bool(ok)))
            ctx.prove("post.other axes refused", z3.BoolVal(out_bad is NotImplemented))
            return
        ext1 = SymArr.symbolic("ext", n, "elem", np.int64, assume_len=False)
        ext = ext1.reshape(-1, 1)
        X = ext1.fn
        EQ = lambda x, y: apply_binary("equal", x, y)
        rec, nzrec = {}, {}
        cls, old_b = stub_broadcast_generic(ctx, g, rec, "elem")

        def nonzero_stub(self_):
            c = cur()
            data = self_.ravel()
            snap = data.snapshot()
            M = lambda j: coerce_term(snap(j), "bool")
            cnt = z3.Int("nzcnt")
            pos = z3.Function("nzpos", z3.IntSort(), z3.IntSort())
            rk = z3.Function("nzrk", z3.IntSort(), z3.IntSort())
            rows = SymArr.symbolic("rows", cnt, "int", np.int64, assume_len=False)
            cols = SymArr.symbolic("cols", cnt, "int", np.int64, assume_len=False)
            ground, schemas = contract_ragged_nonzero(g, M, rows.fn, cols.fn, cnt, pos, rk)
            for f in ground:
                c.assume(f)
            for nm, fn, ar in schemas:
                c.assume_forall(nm, fn, arity=ar)
            nzrec.update(M=M, cnt=cnt, pos=pos, rk=rk, rows=rows, cols=cols, receiver=self_)
            return rows, cols
        old_nz = RaggedArray.__dict__["nonzero"]
        RaggedArray.nonzero = nonzero_stub
        try:
            res = g.ra._arg_extremum(ext)
        finally:
            RaggedArray._broadcast_rows = old_b
            RaggedArray.nonzero = old_nz
        M, cnt, pos, rk, rows, cols = nzrec["M"], nzrec["cnt"], nzrec["pos"], nzrec["rk"], nzrec["rows"].fn, nzrec["cols"].fn
        uq = ctx.ghost["uniques"][-1]
        K, uniq, first, grp = uq["K"], uq["uniq"], uq["first"], uq["grp"]
        ctx.prove("post.one entry per row", dim_term(res.shape_[0]) == n)
        ctx.prove("post.nonzero is asked about the comparison of this array's rows with the column", z3.BoolVal(nzrec["receiver"]._shape is g.ra._shape))
        r, c = z3.Int("r"), z3.Int("c")
        ctx.skolem(z3.And(0 <= r, r < n, 0 <= c, c < L(r)))
        j = S(r) + c
        ctx.prove_then_assume("post.lemma: the mask handed to nonzero is row[c] == ext[r], cell by cell", M(j) == EQ(D(j), X(r)), pool=[r, r + 1, c, j])
        # (r, c) was an arbitrary cell: universal generalisation
        ctx.assume_forall("comparison mask, cell by cell (lemma above)", lambda r_, c_: z3.Implies(z3.And(0 <= r_, r_ < n, 0 <= c_, c_ < L(r_)),
                          M(S(r_) + c_) == EQ(D(S(r_) + c_), X(r_))), arity=2)
        sc = ctx.ghost["scatters"][-1]
        # first matching column c of row r
        ctx.assume(EQ(D(j), X(r)))
        ctx.assume_forall("c is the first match of row r", lambda c_: z3.Implies(z3.And(0 <= c_, c_ < c), z3.Not(EQ(D(S(r) + c_), X(r)))))
        t = rk(j)
        k = grp(t)
        f = first(k)
        cf = cols(f)
        pool = [r, r + 1, c, j, t, k, f, cf, S(r) + cf, pos(f), pos(t), rows(f), rows(f) + 1, rows(t), rows(t) + 1, rk(pos(f)), K, cnt, n, sc["wit"](r)]
        ctx.prove_then_assume("post.lemma: the match is listed (t = rank of its flat position) and listed in row r", z3.And(0 <= t, t < cnt, pos(t) == j, rows(t) == r, cols(t) == c), pool=pool)
        ctx.prove_then_assume("post.lemma: row r has a slot k in unique(rows) and its first listed cell f is not after t", z3.And(0 <= k, k < K, uniq(k) == r, 0 <= f, f <= t, rows(f) == r), pool=pool)
        ctx.prove_then_assume("post.lemma: the first listed cell of row r is a match at a column <= c, hence column c", cf == c, pool=pool + [cf + 1])
        ctx.prove("post.result[r] == first column of row r equal to ext[r]", res.get(r) == c, pool=pool)
        # a row without a match (e.g. an empty row)
        r2 = z3.Int("r2")
        ctx.skolem(z3.And(0 <= r2, r2 < n))
        ctx.assume_forall("row r2 has no match", lambda c_: z3.Implies(z3.And(0 <= c_, c_ < L(r2)), z3.Not(EQ(D(S(r2) + c_), X(r2)))))
        w = sc["wit"](r2)
        fw = first(w)
        cw = cols(fw)
        pool2 = [r2, r2 + 1, w, fw, cw, rows(fw), rows(fw) + 1, pos(fw), S(r2) + cw, K, cnt, n]
        ctx.prove("post.result[r] == 0 for a row without a cell equal to ext[r]", res.get(r2) == 0, pool=pool2)
        ctx.prove("post.operand not modified", z3.BoolVal(g.D.buf.writes == 0))

    def late_lemmas(self, ctx, kind, exc):
        """IndexError paths: the slots of unique(rows) are listed cells (first[k] < cnt) in existing rows (uniq[k] < n)"""
        if isinstance(exc, IndexError) and ctx.ghost.get("uniques") and ctx.ghost.get("forall_facts"):
            uq = ctx.ghost["uniques"][-1]
            w = ctx.ghost["forall_facts"][-1]["w"]
            f = uq["first"](w)
            ctx.prove_then_assume("late.lemma: the index bounds check cannot fail", z3.BoolVal(False), kind="lemma",
                                  pool=[w, f, f + 1, uq["K"], uq["n"], ctx.ghost["g"].n])

    def concretise(self, kind, model, ghost):
        g = ghost["g"]
        n = min(max(model_int(model, g.n), 0), 5)
        return {"lengths": [min(max(model_int(model, g.L(z3.IntVal(r))), 0), 4) for r in range(n)]}

    def concrete(self, case):
        from npstructures import RaggedArray
        ls = case["lengths"]
        rows, v = [], 3
        for l in ls:
            rows.append([((v + i) * 7) % 5 - 2 for i in range(l)])
            v += l
        if sum(ls) == 0:
            return None       # C05 speaks about argmax / argmin "for every non-empty row"; maximum / minimum have no identity for an all-empty array
        ra = RaggedArray(np.array([x for r in rows for x in r], dtype=np.int64), ls)
        for nm, fn in (("argmax", np.argmax), ("argmin", np.argmin)):
            try:
                got = getattr(ra, nm)(axis=-1)
            except Exception as e:
                return {"msg": f"{nm} on rows {rows} raised {type(e).__name__}: {e}", "sig": "raised:_arg_extremum"}
            for r, row in enumerate(rows):
                if not row:
                    continue
                exp = int(fn(np.array(row)))
                if int(got[r]) != exp:
                    return {"msg": f"{nm} on rows {rows}: row {r} gives {got[r]}, numpy {exp}", "sig": "wrong:_arg_extremum"}

    def bounded_cases(self, tier, seed):
        from ..bounded.common import length_vectors
        for ls in length_vectors(4, 3):
            yield {"lengths": ls}

    def nontrivial(self, case):
        return 0 in case["lengths"]


@register
class RaggedMean(Family):
    """RaggedArray.mean(axis) against the contracts of its callees: the mean is the callee's `sum(axis)` of an array holding the receiver's cells (a value-preserving
    conversion to float allowed), divided cell by cell by the number of contributing elements - `col_counts()` for the
    columns (C09: "divides that by the number of such rows, which is what col_counts reports"), the row length for the rows (C05).  The receiver is
    a contract-level ragged array (SpecRagged); `sum` and `col_counts` enter as opaque callees whose values are proved elsewhere
    (RaggedArray.sum[axis=0] values, RaggedArray._reduce, RaggedArray.col_counts), float division as an uninterpreted function of its operands."""
    name = "RaggedArray.mean"
    qualname = "npstructures.raggedarray:RaggedArray.mean"
    serves = ["C05", "C09"]
    assumed = ["callee contracts RaggedArray.sum(axis) and RaggedArray.col_counts() (integer values proved in their own families; float sums: bounded stand-in)",
               "numpy true division as an uninterpreted function of its two operands", "int / bool -> float conversion as a value-preserving embedding",
               "RaggedArray operands through their contracts (SpecRagged; audited)"]

    def kinds(self):
        return [f"{ax}.{dt}" for ax in ("axis=0", "axis=-1", "axis=1", "axis=-1,keepdims") for dt in ("int64", "bool", "float64")]

    def extra_functions(self):
        return ["reduction wrapper"]

    def run(self, ctx, kind):
        from npstructures import RaggedArray
        from .specragged import SpecRagged, _SpecRaggedMixin
        from ..sym.arr import coerce_term, ElemSort
        axs, dt = kind.split(".")
        keepdims = axs.endswith("keepdims")
        axis = int(axs.split(",")[0].split("=")[1])
        dtype = np.dtype(dt)
        n = z3.Int("n")
        L = z3.Function("L", z3.IntSort(), z3.IntSort())
        ctx.assume(n >= 0)
        x = SpecRagged.symbolic(ctx, "x", n, L, kind={"int64": "int", "bool": "bool", "float64": "elem"}[dt], dtype=dtype)
        W = z3.Int("W")
        wr = z3.Int("wr")
        ctx.assume(W >= 0)
        ctx.assume_forall("sum(axis=0) / col_counts: one entry per column of the longest row", lambda r: z3.Implies(z3.And(0 <= r, r < n), L(r) <= W))
        sumfn = z3.Function("callee_sum", z3.IntSort(), ElemSort)
        cntfn = z3.Function("callee_col_counts", z3.IntSort(), z3.IntSort())
        calls = {"sum": [], "col_counts": []}

        def sum_stub(self_, axis=None, **kw):
            calls["sum"].append((self_, axis, kw))
            return SymArr.fresh((W if axis == 0 else n,), lambda k: sumfn(k), "elem", np.float64)

        def cc_stub(self_):
            calls["col_counts"].append(self_)
            return SymArr.fresh((W,), lambda k: cntfn(k), "int", np.int64)
        _SpecRaggedMixin.sum, _SpecRaggedMixin.col_counts = sum_stub, cc_stub
        try:
            out = RaggedArray.mean(x, axis=axis, keepdims=True) if keepdims else RaggedArray.mean(x, axis=axis)
        finally:
            del _SpecRaggedMixin.sum, _SpecRaggedMixin.col_counts
        ok = len(calls["sum"]) == 1 and calls["sum"][0][1] in ((0,) if axis == 0 else (-1, 1)) and not calls["sum"][0][2]
        ctx.prove("post.exactly one sum along the requested axis", z3.BoolVal(ok))
        if not ok:
            return
        recv = calls["sum"][0][0]
        ctx.prove("post.the summed array has the receiver's geometry", z3.BoolVal(isinstance(recv, SpecRagged) and recv._shape is x._shape))
        r, c = z3.Int("r"), z3.Int("c")
        ctx.skolem(z3.And(0 <= r, r < n, 0 <= c, c < L(r)))
        # value-preserving: converted to float or left as they are (an exact integer sum divided afterwards is the same mean)
        ctx.prove("post.the summed array holds the receiver's cells", coerce_term(recv.cell(r, c), "elem") == coerce_term(x.cell(r, c), "elem"), pool=[r, c])
        k = z3.Int("k")
        if axis == 0:
            okc = len(calls["col_counts"]) == 1 and calls["col_counts"][0]._shape is x._shape
            ctx.prove("post.divisor: col_counts() of an array with the receiver's geometry", z3.BoolVal(okc))
            ctx.prove("post.one mean per column", z3.And(z3.BoolVal(out.ndim == 1), dim_term(out.shape_[0]) == W))
            ctx.skolem(z3.And(0 <= k, k < W))
            ctx.prove("post.mean[k] == sum[k] / col_counts[k]", out.get(k) == apply_binary("true_divide", sumfn(k), cntfn(k)), pool=[k])
        else:
            ctx.prove("post.no column counts for row means", z3.BoolVal(not calls["col_counts"]))
            ctx.skolem(z3.And(0 <= k, k < n))
            if keepdims:
                ctx.prove("post.a column: one mean per row", z3.And(z3.BoolVal(out.ndim == 2), dim_term(out.shape_[0]) == n, dim_term(out.shape_[1]) == 1))
                ctx.prove("post.mean[r, 0] == sum[r] / len(row r)", out.get(k, z3.IntVal(0)) == apply_binary("true_divide", sumfn(k), L(k)), pool=[k])
            else:
                ctx.prove("post.one mean per row", z3.And(z3.BoolVal(out.ndim == 1), dim_term(out.shape_[0]) == n))
                ctx.prove("post.mean[r] == sum[r] / len(row r)", out.get(k) == apply_binary("true_divide", sumfn(k), L(k)), pool=[k])
        ctx.prove("post.float result", z3.BoolVal(out.dtype.kind == "f"))
        ctx.prove("post.operand not modified", z3.BoolVal(x.writes == 0))

    def concretise(self, kind, model, ghost):
        return {"kind": kind, "lengths": [2, 0, 3, 1] if kind.startswith("axis=0") else [2, 1, 3]}

    def concrete(self, case):
        import math
        from npstructures import RaggedArray
        axs, dt = case["kind"].split(".")
        ls = case["lengths"]
        keepdims = axs.endswith("keepdims")
        axis = int(axs.split(",")[0].split("=")[1])
        if sum(ls) == 0:
            return None
        rows, v = [], 3
        for l in ls:
            rows.append([((v + i) * 7) % 11 - 3 for i in range(l)])
            v += l
        if dt == "bool":
            rows = [[bool(e % 2) for e in r] for r in rows]
        elif dt == "float64":
            rows = [[e + 0.5 for e in r] for r in rows]
        ra = RaggedArray(np.array([e for r in rows for e in r], dtype=dt), ls)
        if axis == 0:
            exp = [sum(float(r[k]) for r in rows if len(r) > k) / sum(1 for r in rows if len(r) > k) for k in range(max(ls))]
        else:
            if 0 in ls:
                return None                     # mean of an empty row: 0 / 0, outside the property
            exp = [sum(float(e) for e in r) / len(r) for r in rows]
        try:
            got = np.mean(ra, axis=axis, keepdims=True) if keepdims else ra.mean(axis=axis)
        except Exception as e:
            return {"msg": f"mean(axis={axis}) of rows {rows} ({dt}) raised {type(e).__name__}: {e}", "sig": "raised:mean"}
        got = np.asarray(got)
        if keepdims:
            if got.shape != (len(ls), 1):
                return {"msg": f"mean(axis={axis}, keepdims=True) of rows {rows}: shape {got.shape}", "sig": "wrong-shape:mean"}
            got = got[:, 0]
        got = got.tolist()
        if len(got) != len(exp) or any(not (isinstance(g_, float) and math.isclose(g_, e_, rel_tol=1e-12, abs_tol=1e-12)) for g_, e_ in zip(got, exp)):
            return {"msg": f"mean(axis={axis}) of rows {rows} ({dt}): {got}, expected {exp}", "sig": "wrong:mean"}

    def bounded_cases(self, tier, seed):
        from ..bounded.common import length_vectors
        for kind in self.kinds():
            for ls in length_vectors(3, 3):
                yield {"kind": kind, "lengths": ls}
