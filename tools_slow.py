"""lists the slowest obligations of the given proof modules: tools_slow.py <modules> [min_seconds]"""
import sys, importlib
sys.path.insert(0, '/verif')
from vf.sym import env
env.import_repo()
from vf.proofs import base
for m in sys.argv[1].split(','):
    importlib.import_module('vf.proofs.' + m)
thr = float(sys.argv[2]) if len(sys.argv) > 2 else 3.0
rows = []
for fam in base.REGISTRY:
    for kind in fam.kinds():
        r = base.run_kind(fam, kind)
        for o in r['obligations']:
            if (o.get('time') or 0) >= thr:
                rows.append((round(o['time'], 1), o['status'], o['name'][:150], o.get('reason', '')[:40]))
for row in sorted(rows, reverse=True)[:40]:
    print(*row)
