"""Contracts of the column-selection arithmetic (C02-O3/O4/O5, shared by C03, C06, C19).

Top-level postconditions are taken from the property statement: the selected cells of row r are
`row[r][slice]` of the plain Python list, i.e. CPython's (first, count, step) for that row length.
"""
import itertools
import numpy as np
import z3

from .base import Family, register, model_int
from .ragged import sym_view2, sym_shape, sym_ragged
from ..sym.core import SInt, SBool, ite
from ..sym.arr import SymArr, pyslice, I

SL_KINDS = ["".join(k) for k in itertools.product("NS", repeat=3)]


def slice_components(ctx, kind, names=("start", "stop", "step")):
    comps = []
    for k, nm in zip(kind, names):
        comps.append(None if k == "N" else SInt(z3.Int(nm)))
    if comps[2] is not None:
        ctx.assume(comps[2].t != 0)
    ctx.declare_inputs(*[c for c in comps if c is not None])
    return comps


def model_slice(model, kind):
    vals = []
    for k, nm in zip(kind, ("start", "stop", "step")):
        vals.append(None if k == "N" else model_int(model, z3.Int(nm)))
    if vals[2] == 0:
        vals[2] = 1
    return vals


def model_view2(model, g, max_rows=4):
    n = min(max(model_int(model, g.n), 0), max_rows)
    starts = [model_int(model, g.S(z3.IntVal(r))) for r in range(n)]
    lengths = [max(model_int(model, g.L(z3.IntVal(r))), 0) for r in range(n)]
    cs = model_int(model, g.step, 1) or 1
    return {"starts": starts, "lengths": lengths, "col_step": cs}


def conc_view2(case):
    from npstructures.raggedshape import RaggedView2
    return RaggedView2(np.array(case["starts"], dtype=np.int64), np.array(case["lengths"], dtype=np.int64), case["col_step"])


def small_views(tier):
    lens = range(0, 4 if tier == "quick" else 5)
    for n in (1, 2):
        for ls in itertools.product(lens, repeat=n):
            for cs in ((1, 2, -1) if tier == "quick" else (1, 2, 3, -1, -2)):
                starts, p = [], 50
                for l in ls:
                    starts.append(p)
                    p += 20
                yield {"starts": starts, "lengths": list(ls), "col_step": cs}


SMALL_B = [None, -5, -2, -1, 0, 1, 2, 5]
SMALL_S = [None, 1, 2, -1, -2, -3]


@register
class CalcLengths(Family):
    name = "RaggedView2._calculate_lengths"
    qualname = "npstructures.raggedshape:RaggedView2._calculate_lengths"
    serves = ["C02", "C03", "C06", "C19"]

    def kinds(self):
        return SL_KINDS

    def run(self, ctx, kind):
        g = sym_view2(ctx)
        ctx.ghost["g"] = g
        comps = slice_components(ctx, kind)
        res = g.obj._calculate_lengths(slice(*comps))
        r = g.row()
        _, cnt, _ = pyslice(SInt(g.L(r)), *comps)
        val = res.get(r) if isinstance(res, SymArr) else I(res)
        ctx.prove("post.count==pyslice_count", val == I(cnt))

    def concretise(self, kind, model, ghost):
        return dict(model_view2(model, ghost["g"]), slice=model_slice(model, kind), col_step=1)

    def concrete(self, case):
        v = conc_view2(case)
        sl = slice(*case["slice"])
        got = np.atleast_1d(v._calculate_lengths(sl)).tolist()
        if len(got) == 1 and len(case["lengths"]) > 1:
            got = got * len(case["lengths"])
        exp = [len(range(l)[sl]) for l in case["lengths"]]
        if got != exp:
            return {"msg": f"_calculate_lengths({sl}) on lengths {case['lengths']}: expected {exp}, got {got}",
                    "sig": "wrong:_calculate_lengths"}

    def bounded_cases(self, tier, seed):
        for v in small_views(tier):
            if v["col_step"] != 1:
                continue
            for a in SMALL_B:
                for b in SMALL_B:
                    for s in SMALL_S:
                        yield dict(v, slice=[a, b, s])


class _ColSliceBase(Family):
    def concretise(self, kind, model, ghost):
        return dict(model_view2(model, ghost["g"]), slice=model_slice(model, kind))

    def post(self, ctx, g, comps, out):
        """contract of a column slice on a (possibly strided) view, per generic row r"""
        r = g.row()
        first, cnt, step = pyslice(SInt(g.L(r)), *comps)
        newL = out.lengths.get(r)
        newS = out.starts.get(r)
        ctx.prove("post.length==pyslice_count", newL == I(cnt))
        ctx.prove("post.start==addr(first)", z3.Implies(I(cnt) > 0, newS == g.S(r) + g.step * I(first)))
        ctx.prove("post.col_step==col_step*step", I(out.col_step) == g.step * I(step))
        ctx.prove("post.n_rows", out.lengths.shape_[0] == g.n if not z3.is_expr(out.lengths.shape_[0])
                  else z3.simplify(out.lengths.shape_[0] == g.n))

    def check_conc(self, case, out, what):
        sl = slice(*case["slice"])
        cs = case["col_step"]
        starts = np.atleast_1d(out.starts).tolist()
        lengths = np.atleast_1d(out.lengths).tolist()
        for r, (s0, l) in enumerate(zip(case["starts"], case["lengths"])):
            cols = list(range(l))[sl]
            exp_addr = [s0 + cs * c for c in cols]
            got_addr = [starts[r] + out.col_step * k for k in range(lengths[r])]
            if exp_addr != got_addr:
                return {"msg": f"{what}({sl}) on view starts={case['starts']} lengths={case['lengths']} col_step={cs}: "
                               f"row {r} should address {exp_addr}, addresses {got_addr}", "sig": "wrong:" + what}

    def bounded_cases(self, tier, seed):
        for v in small_views(tier):
            for a in SMALL_B:
                for b in SMALL_B:
                    for s in SMALL_S:
                        if self.pos_only and (s is not None and s < 0):
                            continue
                        yield dict(v, slice=[a, b, s])


@register
class PosColSlice(_ColSliceBase):
    name = "RaggedView2._pos_col_slice"
    qualname = "npstructures.raggedshape:RaggedView2._pos_col_slice"
    serves = ["C02", "C03", "C06", "C19"]
    pos_only = True

    def kinds(self):
        return ["NNS", "SNS", "NSS", "SSS"]

    def run(self, ctx, kind):
        g = sym_view2(ctx)
        ctx.ghost["g"] = g
        comps = slice_components(ctx, kind)
        ctx.assume(comps[2].t > 0)           # requires: step > 0 (asserted by the function)
        out = g.obj._pos_col_slice(slice(*comps))
        self.post(ctx, g, comps, out)

    def concrete(self, case):
        sl = case["slice"]
        st = 1 if sl[2] is None else sl[2]
        out = conc_view2(case)._pos_col_slice(slice(sl[0], sl[1], st))
        return self.check_conc(case, out, "_pos_col_slice")


@register
class ColSliceSlice(_ColSliceBase):
    name = "RaggedView2.col_slice[slice]"
    qualname = "npstructures.raggedshape:RaggedView2.col_slice"
    serves = ["C02", "C03", "C06", "C19"]
    pos_only = False

    def kinds(self):
        return SL_KINDS

    def run(self, ctx, kind):
        g = sym_view2(ctx)
        ctx.ghost["g"] = g
        comps = slice_components(ctx, kind)
        out = g.obj.col_slice(slice(*comps))
        self.post(ctx, g, comps, out)

    def extra_functions(self):
        return ["RaggedView2._pos_col_slice", "RaggedView2._calculate_lengths", "RaggedView2.__post_init__"]

    def concrete(self, case):
        out = conc_view2(case).col_slice(slice(*case["slice"]))
        return self.check_conc(case, out, "col_slice")


@register
class ColSliceInt(Family):
    """integer column on a view: refused iff the column does not exist in some selected row, else the
    cell addr(r, idx mod L(r)) of every row"""
    name = "RaggedView2.col_slice[int]"
    qualname = "npstructures.raggedshape:RaggedView2.col_slice"
    serves = ["C02", "C06", "C19"]

    def kinds(self):
        return ["int"]

    def run(self, ctx, kind):
        g = sym_view2(ctx)
        ctx.ghost["g"] = g
        idx = z3.Int("idx")
        try:
            out = g.obj.col_slice(SInt(idx))
        except (ValueError, IndexError):
            # refusal is allowed only if some selected row lacks the column
            w = z3.Int("w_bad")
            ctx.add_index(w)
            bad = lambda r: z3.Or(idx >= g.L(r), idx < -g.L(r))
            # goal: exists r in [0,n) with bad(r).  Proved by refuting its negation: assume all rows fine.
            ctx.assume_forall("allrows.ok", lambda r: z3.Implies(z3.And(0 <= r, r < g.n), z3.Not(bad(r))))
            ctx.prove("raises=>some-row-lacks-column", z3.BoolVal(False))
            return
        r = g.row()
        ctx.prove("returns=>column-exists", z3.And(idx < g.L(r), idx >= -g.L(r)))
        col = z3.If(idx < 0, g.L(r) + idx, idx)
        ctx.prove("post.start==addr(r,idx)", z3.Implies(z3.And(idx < g.L(r), idx >= -g.L(r)),
                                                        out.starts.get(r) == g.S(r) + g.step * col))
        ctx.prove("post.length==1", out.lengths.get(r) == 1)

    def concretise(self, kind, model, ghost):
        return dict(model_view2(model, ghost["g"]), idx=model_int(model, z3.Int("idx")))

    def concrete(self, case):
        v = conc_view2(case)
        idx = case["idx"]
        exists = all(-l <= idx < l for l in case["lengths"])
        try:
            out = v.col_slice(idx)
        except (ValueError, IndexError) as e:
            if exists:
                return {"msg": f"col_slice({idx}) refused on lengths {case['lengths']}: {e}", "sig": "raised:col_slice[int]"}
            return None
        if not exists:
            return {"msg": f"col_slice({idx}) on lengths {case['lengths']} must be refused, returned starts "
                           f"{np.atleast_1d(out.starts).tolist()}", "sig": "not-refused:col_slice[int]"}
        exp = [s + case["col_step"] * (idx % l) for s, l in zip(case["starts"], case["lengths"])]
        got = np.atleast_1d(out.starts).tolist()
        if exp != got or np.atleast_1d(out.lengths).tolist() != [1] * len(exp):
            return {"msg": f"col_slice({idx}) on view {case}: expected starts {exp}, got {got}", "sig": "wrong:col_slice[int]"}

    def bounded_cases(self, tier, seed):
        for v in small_views(tier):
            for idx in range(-5, 6):
                yield dict(v, idx=idx)


@register
class GetElement(Family):
    """ra[i, j] on a freshly built array: refused iff row or column does not exist, else flat index S(i')+j'"""
    name = "IndexableArray._get_element"
    qualname = "npstructures.raggedarray.indexablearray:IndexableArray._get_element"
    serves = ["C02", "C19"]

    def kinds(self):
        return ["scalar", "arrays"]

    def run(self, ctx, kind):
        from npstructures import RaggedArray
        g = sym_ragged(ctx)
        ctx.ghost["g"] = g
        ra = g.ra
        n = g.n
        if kind == "scalar":
            row, col = z3.Int("row"), z3.Int("col")
            rows_ok = z3.And(row >= -n, row < n)
            rw = z3.If(row < 0, row + n, row)
            ctx.add_index(row, rw)
            ok = z3.And(rows_ok, col >= -g.L(rw), col < g.L(rw))
            try:
                flat, shape = ra._get_element(SInt(row), SInt(col))
            except IndexError:
                ctx.prove("raises=>row-or-column-missing", z3.Not(ok))
                return
            ctx.prove("returns=>row-and-column-exist", ok)
            cw = z3.If(col < 0, col + g.L(rw), col)
            ctx.prove("post.flat==S(row)+col", z3.Implies(ok, I(flat) == g.S(rw) + cw))
        else:
            m = z3.Int("m")
            ctx.assume(m >= 0)
            rows = SymArr.symbolic("rows", m, "int", assume_len=False)
            cols = SymArr.symbolic("cols", m, "int", assume_len=False)
            R, C = rows.fn, cols.fn
            ctx.ghost["R"], ctx.ghost["C"] = R, C
            rw = lambda t: z3.If(R(t) < 0, R(t) + n, R(t))
            ok = lambda t: z3.And(R(t) >= -n, R(t) < n, C(t) >= -g.L(rw(t)), C(t) < g.L(rw(t)))
            t = z3.Int("t")
            ctx.add_index(t)
            try:
                flat, shape = ra._get_element(rows, cols)
            except IndexError:
                ctx.assume_forall("all.ok", lambda q: z3.Implies(z3.And(0 <= q, q < m), ok(q)))
                ctx.assume_forall("all.ok.rows", lambda q: z3.Implies(z3.And(0 <= q, q < m), z3.And(0 <= rw(q), rw(q) < n)))
                ctx.prove("raises=>some-pair-missing", z3.BoolVal(False))
                return
            ctx.skolem(z3.And(0 <= t, t < m))
            ctx.add_index(rw(t), R(t))
            ctx.prove("returns=>all-pairs-exist", ok(t))
            cw = z3.If(C(t) < 0, C(t) + g.L(rw(t)), C(t))
            ctx.prove("post.flat[t]==S(row_t)+col_t", z3.Implies(ok(t), flat.get(t) == g.S(rw(t)) + cw))

    def concretise(self, kind, model, ghost):
        g = ghost["g"]
        n = min(max(model_int(model, g.n), 0), 5)
        lengths = [max(model_int(model, g.L(z3.IntVal(r))), 0) for r in range(n)]
        if kind == "scalar":
            return {"lengths": lengths, "row": model_int(model, z3.Int("row")), "col": model_int(model, z3.Int("col"))}
        t = model_int(model, z3.Int("t"))
        R, C = ghost["R"], ghost["C"]
        return {"lengths": lengths, "row": model_int(model, R(z3.IntVal(t))), "col": model_int(model, C(z3.IntVal(t)))}

    def concrete(self, case):
        from npstructures import RaggedArray
        lengths = case["lengths"]
        rows = []
        v = 10
        for l in lengths:
            rows.append(list(range(v, v + l)))
            v += l
        ra = RaggedArray(np.arange(10, v, dtype=np.int64), lengths)
        i, j = case["row"], case["col"]
        try:
            exp = rows[i][j]
            experr = None
        except IndexError as e:
            exp, experr = None, e
        try:
            got = ra[i, j]
            goterr = None
        except Exception as e:
            got, goterr = None, e
        if experr is not None and goterr is None:
            return {"msg": f"ra[{i},{j}] on rows {rows} must be refused, returned {got}", "sig": "not-refused:_get_element"}
        if experr is None and (goterr is not None or got != exp):
            return {"msg": f"ra[{i},{j}] on rows {rows}: expected {exp}, got {got} {goterr!r}", "sig": "wrong:_get_element"}

    def bounded_cases(self, tier, seed):
        from ..bounded.common import length_vectors
        for ls in length_vectors(3, 3, 1):
            for i in range(-len(ls) - 1, len(ls) + 1):
                for j in range(-5, 5):
                    yield {"lengths": ls, "row": i, "col": j}
