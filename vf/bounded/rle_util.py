"""Shared helpers of the run-length-array bounded oracles (C14, C15, C16).

Everything here is oracle-side: value alphabets per dtype, exhaustive pattern enumeration, JSON <-> numpy
conversion, NaN-aware equality, the canonical-form inspection of a RunLengthArray and the small "operation"
language (slice / unary ufunc / scalar ufunc / binary ufunc / concatenate) that C14 (canonical form of every
produced array) and C16 (value of every produced array) share.
"""
import itertools
import operator

import numpy as np

from .common import import_repo

QUICK_DTYPES = ["bool", "int8", "int64", "uint8", "uint64", "float32", "float64"]
ALL_DTYPES = ["bool", "int8", "int16", "int32", "int64", "uint8", "uint16", "uint32", "uint64", "float32", "float64"]


def dtype_class(d):
    k = np.dtype(d).kind
    return {"b": "bool", "i": "signed", "u": "unsigned", "f": "float"}[k]


def alphabets(dtype, tier="quick"):
    """-> list of (name, values): 3-value alphabets (2 for bool) as plain Python scalars.
    ints: a small one and one with the dtype extremes; floats: one with NaN and both zeros, one with inf and
    the extremes (thorough: a third with -inf, the smallest subnormal and +max)."""
    dt = np.dtype(dtype)
    c = dtype_class(dtype)
    if c == "bool":
        return [("tf", [False, True])]
    if c == "signed":
        ii = np.iinfo(dt)
        return [("small", [0, 1, -2]), ("extreme", [int(ii.min), int(ii.max), -1])]
    if c == "unsigned":
        ii = np.iinfo(dt)
        return [("small", [0, 1, 2]), ("extreme", [0, int(ii.max), int(ii.max) - 1])]
    fi = np.finfo(dt)
    out = [("nan-zeros", [float("nan"), 0.0, -0.0]), ("inf-extreme", [1.5, float("inf"), -float(fi.max)])]
    if tier == "thorough":
        out.append(("ninf-tiny-max", [-float("inf"), float(fi.smallest_subnormal), float(fi.max)]))
    return out


def words(alphabet, n):
    """every array of length n over the alphabet = every composition of n into runs with every value assignment"""
    for w in itertools.product(alphabet, repeat=n):
        yield list(w)


def selected_patterns(n):
    """a few index patterns of length n: all-equal, all-different, two runs, alternating, long middle run, mixed"""
    pats = [[0] * n, list(range(n)), [0] * (n // 2) + [1] * (n - n // 2), [i % 2 for i in range(n)]]
    if n >= 3:
        pats.append([0] + [1] * (n - 2) + [2])
        pats.append(([0, 0, 1] + [2] * n)[:n])
    out = []
    for p in pats:
        if p not in out:
            out.append(p)
    return out


def arr(values, dtype):
    return np.array(values, dtype=np.dtype(dtype))


def n_runs(a):
    """number of maximal runs per numpy != (adjacent NaNs are different runs)"""
    a = np.asarray(a)
    if a.size == 0:
        return 0
    return int(1 + np.count_nonzero(a[1:] != a[:-1]))


def special_float(a):
    a = np.asarray(a)
    if a.dtype.kind != "f":
        return False
    return bool(np.any(~np.isfinite(a)) or np.any((a == 0) & np.signbit(a)))


def same(got, exp):
    """element-by-element equality per numpy ==, NaN equal to NaN; shapes must agree"""
    got, exp = np.asarray(got), np.asarray(exp)
    if got.shape != exp.shape:
        return False
    if got.size == 0:
        return True
    with np.errstate(all="ignore"):
        e = got == exp
        if got.dtype.kind == "f" and exp.dtype.kind == "f":
            e = e | (np.isnan(got) & np.isnan(exp))
    return bool(np.all(e))


def show(x):
    if isinstance(x, np.ndarray):
        return f"{x.tolist()}:{x.dtype}"
    if isinstance(x, np.generic):
        return f"{x.item()!r}:{x.dtype}"
    return repr(x)


# ---------------------------------------------------------------------------------------------
# canonical form

def canon_problem(r, adjacent_distinct):
    """-> None | (tag, text). Inspects _events / starts / ends / values of a RunLengthArray."""
    ev = np.asarray(r._events)
    va = np.asarray(r._values)
    if ev.ndim != 1 or va.ndim != 1 or ev.dtype.kind not in "iu":
        return "shape", f"events {show(ev)} values {show(va)} are not 1-D integer boundaries / 1-D values"
    if len(ev) != len(va) + 1:
        return "count", f"{len(ev)} boundaries for {len(va)} values"
    if ev[0] != 0:
        return "first-boundary", f"boundaries {ev.tolist()} do not start at 0"
    if np.any(ev[1:] <= ev[:-1]):
        return "empty-run", f"boundaries {ev.tolist()} do not increase strictly"
    if int(ev[-1]) != len(r):
        return "last-boundary", f"boundaries {ev.tolist()} do not end at len()={len(r)}"
    if not (np.array_equal(np.asarray(r.starts), ev[:-1]) and np.array_equal(np.asarray(r.ends), ev[1:])
            and np.asarray(r.values) is not None and same(np.asarray(r.values), va)):
        return "accessors", f"starts/ends/values {r.starts}, {r.ends}, {r.values} disagree with boundaries {ev.tolist()}"
    if adjacent_distinct and len(va) > 1:
        with np.errstate(all="ignore"):
            eq = va[1:] == va[:-1]
        if np.any(eq):
            return "adjacent-equal", f"adjacent runs with equal values: boundaries {ev.tolist()} values {va.tolist()}"
    return None


# ---------------------------------------------------------------------------------------------
# slices

def slice_bounds(n):
    return [None] + list(range(-(n + 2), n + 3))


SLICE_STEPS = [None, 1, -1, 2, -2, 3, -3]


def all_slices(n, steps=SLICE_STEPS, bounds=None):
    bs = slice_bounds(n) if bounds is None else bounds
    for a in bs:
        for b in bs:
            for s in steps:
                yield [a, b, s]


def slice_out_of_range(n, s):
    """True iff Python has to clamp a bound of the slice: after adding n to a negative bound it lies outside
    [0, n] (positive step) resp. [-1, n-1] (negative step)."""
    a, b, st = s
    neg = st is not None and st < 0
    lo, hi = (-1, n - 1) if neg else (0, n)
    for x in (a, b):
        if x is None:
            continue
        raw = x + n if x < 0 else x
        if raw < lo or raw > hi:
            return True
    return False


# ---------------------------------------------------------------------------------------------
# operations shared by C14 (form of the result) and C16 (value of the result)

UFUNCS2 = ["add", "subtract", "multiply", "maximum", "minimum", "bitwise_and", "bitwise_or", "bitwise_xor",
           "logical_and", "logical_or", "equal", "not_equal", "less", "less_equal", "greater", "greater_equal"]
UFUNCS1 = ["negative", "absolute", "logical_not", "invert"]
OPERATORS = {"add": operator.add, "subtract": operator.sub, "multiply": operator.mul, "bitwise_and": operator.and_,
             "bitwise_or": operator.or_, "bitwise_xor": operator.xor, "equal": operator.eq, "not_equal": operator.ne,
             "less": operator.lt, "less_equal": operator.le, "greater": operator.gt, "greater_equal": operator.ge,
             "negative": operator.neg, "absolute": abs, "invert": operator.invert}


def dec_scalar(sc):
    """{"py": v} -> the Python scalar v ; {"np": "int8", "v": 7} -> np.int8(7)"""
    if "py" in sc:
        return sc["py"]
    return np.dtype(sc["np"]).type(sc["v"])


def scalar_tag(sc):
    """coarse class of a scalar: py-int / py-float / py-bool / np-bool / np-number (any other numpy scalar)"""
    if "py" in sc:
        return "py-" + type(sc["py"]).__name__
    return "np-bool" if sc["np"] == "bool" else "np-number"


def scalars_for(tier):
    out = [{"py": 2}, {"py": -3}, {"py": 2.5}, {"py": True}, {"py": float("nan")},
           {"np": "int8", "v": 7}, {"np": "uint64", "v": 2 ** 64 - 1}, {"np": "float32", "v": 0.5},
           {"np": "bool", "v": True}]
    if tier == "thorough":
        out += [{"py": 0}, {"py": -0.0}, {"py": float("inf")}, {"np": "int64", "v": -2 ** 63}, {"np": "float64", "v": -1.25},
                {"np": "uint8", "v": 255}]
    return out


def applicable(fn, *dense):
    """does numpy itself accept the operation on the dense operands?"""
    try:
        with np.errstate(all="ignore"):
            fn(*dense)
        return True
    except Exception:
        return False


def operation(case):
    """-> (dense operand arrays, fn) where fn(list of operands) applies the case's operation to dense arrays and to
    RunLengthArrays alike."""
    k = case["k"]
    if k == "concat":
        dense = [arr(p["a"], p["dtype"]) for p in case["parts"]]
        if case.get("seq") == "tuple":
            return dense, lambda xs: np.concatenate(tuple(xs))
        return dense, lambda xs: np.concatenate(list(xs))
    a = arr(case["a"], case["dtype"])
    if k == "slice":
        s = slice(*case["s"])
        return [a], lambda xs: xs[0][s]
    uname = case["u"]
    f = OPERATORS[uname] if case.get("form") == "operator" else getattr(np, uname)
    if k == "unary":
        return [a], lambda xs: f(xs[0])
    if k == "scalar":
        sc = dec_scalar(case["sc"])
        if case["side"] == "r":
            return [a], lambda xs: f(xs[0], sc)
        return [a], lambda xs: f(sc, xs[0])
    if k == "ufunc2":
        b = arr(case["b"], case["dtype2"])
        return [a, b], lambda xs: f(xs[0], xs[1])
    raise ValueError(k)


def snapshot(r):
    ev, va = np.asarray(r._events), np.asarray(r._values)
    return (ev.dtype.str, ev.tobytes(), va.dtype.str, va.tobytes())


def rla_of(dense):
    import_repo()
    from npstructures.runlengtharray import RunLengthArray
    return RunLengthArray.from_array(dense)


# ------- case families (shared enumeration, so that C14 inspects the form of what C16 evaluates) -------

def binary_pairs(n, alpha_a, alpha_b):
    """every pair of arrays of length n: all relative alignments of the run boundaries (nested, interleaved, coincident)"""
    for x in words(alpha_a, n):
        for y in words(alpha_b, n):
            yield x, y


def usable_ufuncs2(d1, d2, names=UFUNCS2):
    z1, z2 = np.ones(2, dtype=d1), np.ones(2, dtype=d2)
    return [u for u in names if applicable(getattr(np, u), z1, z2)]


def usable_ufuncs1(d, names=UFUNCS1):
    z = np.ones(2, dtype=d)
    return [u for u in names if applicable(getattr(np, u), z)]
