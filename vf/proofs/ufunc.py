"""C04: RaggedArray.__array_ufunc__ (call form) with the ufunc as an uninterpreted per-element function U,
so one proof covers every arithmetic / comparison / bitwise / logical ufunc.

Contract: same row geometry as the receiver; cell (r, c) of the result = U(op1(r,c), op2(r,c)) with the
operands in the caller's order, where op(r,c) is the ragged cell, the scalar, or the column entry of row r;
two ragged operands with different row lengths are refused; no operand buffer is written."""
import numpy as np
import z3

from .base import Family, register, model_int
from .ragged import sym_ragged, sym_shape
from ..sym.core import SInt, cur
from ..sym.arr import SymArr, SElem, I, dim_term, apply_binary, apply_unary, ElemSort


@register
class ArrayUfunc(Family):
    name = "RaggedArray.__array_ufunc__"
    qualname = "npstructures.raggedarray:RaggedArray.__array_ufunc__"
    serves = ["C04", "C10"]
    assumed = ["element-wise ufunc on flat arrays: r[j] = U(a[j], b[j]) (uninterpreted U)",
               "callee contract RaggedArray._broadcast_rows(column): flat[S(r)+c] = column[r] (proved: RaggedShape.broadcast_values / _raw_broadcast)",
               "lemma: equal row lengths => equal row starts"]

    def kinds(self):
        return ["unary", "scalar-right", "scalar-left", "npscalar-left", "ragged-ragged", "column-right", "column-left", "other-method"]

    def extra_functions(self):
        return ["RaggedBase.ravel", "ViewBase.__eq__", "RaggedArray.__init__"]

    def run(self, ctx, kind):
        from npstructures import RaggedArray
        g = sym_ragged(ctx, "a")
        ctx.ghost["g"] = g
        a = g.ra
        size = g.S(g.n)
        j = z3.Int("j")
        if kind == "other-method":
            r = a.__array_ufunc__(np.add, "outer", a, a)
            ctx.prove("post.unsupported methods refused", z3.BoolVal(r is NotImplemented))
            return
        if kind == "unary":
            out = a.__array_ufunc__(np.negative, "__call__", a)
            exp = lambda q: apply_unary("negative", g.D.fn(q))
        elif kind in ("scalar-right", "scalar-left", "npscalar-left"):
            s = z3.Const("s", ElemSort)
            sc = SElem(s)
            if kind == "scalar-right":
                out = a.__array_ufunc__(np.subtract, "__call__", a, sc)
                exp = lambda q: apply_binary("subtract", g.D.fn(q), s)
            else:
                out = a.__array_ufunc__(np.subtract, "__call__", sc, a)
                exp = lambda q: apply_binary("subtract", s, g.D.fn(q))
        elif kind == "ragged-ragged":
            g2 = sym_ragged(ctx, "b")
            ctx.ghost["g2"] = g2
            b = g2.ra
            ctx.add_index(g.n - 1, 2 * (g.n - 1), 2 * (g.n - 1) + 1)   # last row: size = S(n-1) + L(n-1) on both sides
            try:
                out = a.__array_ufunc__(np.subtract, "__call__", a, b)
            except (TypeError, ValueError):
                # refusal is only allowed when the row lengths differ
                ctx.assume(g.n == g2.n)
                ctx.assume_forall("same lengths", lambda r: z3.Implies(z3.And(0 <= r, r < g.n), g.L(r) == g2.L(r)))
                # lemma (vf.proofs.lemmas: same-lengths=>same-starts, by induction)
                ctx.assume_forall("same starts", lambda r: z3.Implies(z3.And(0 <= r, r <= g.n), g.S(r) == g2.S(r)))
                ctx.prove("raises=>row lengths differ", z3.BoolVal(False))
                return
            r = g.row()
            ctx.add_index(2 * r, 2 * r + 1)          # positions of (start, length) of row r in the interleaved codes
            ctx.prove("returns=>same number of rows", g.n == g2.n)
            ctx.prove("returns=>same row lengths", g.L(r) == g2.L(r))
            exp = lambda q: apply_binary("subtract", g.D.fn(q), g2.D.fn(q))
            ctx.prove("post.second operand not modified", z3.BoolVal(g2.D.buf.writes == 0))
        else:
            col = SymArr.symbolic("col", (g.n, 1), "elem", np.float64, assume_len=False)
            calls = {}

            def broadcast_stub(self_, values, dtype=None):
                calls["values"], calls["dtype"] = values, dtype
                c = cur()
                flat = SymArr.symbolic("bcast", size, "elem", np.int64, assume_len=False)
                # callee post: flat[S(r) + c] == values[r, 0]
                c.assume_forall("broadcast", lambda r, cc: z3.Implies(z3.And(0 <= r, r < g.n, 0 <= cc, cc < g.L(r)),
                                                                     flat.fn(g.S(r) + cc) == col.fn(r, 0)), arity=2)
                calls["flat"] = flat
                return RaggedArray(flat, self_._shape)
            old = RaggedArray.__dict__["_broadcast_rows"]
            RaggedArray._broadcast_rows = broadcast_stub
            try:
                if kind == "column-right":
                    out = a.__array_ufunc__(np.subtract, "__call__", a, col)
                else:
                    out = a.__array_ufunc__(np.subtract, "__call__", col, a)
            finally:
                RaggedArray._broadcast_rows = old
            ctx.prove("post.column handed to _broadcast_rows", z3.BoolVal(calls.get("values") is col))
            ctx.prove("post.column broadcast in numpy's result dtype of the operands (not the receiver's dtype)",
                      z3.BoolVal(calls.get("dtype") is not None and np.dtype(calls["dtype"]) == np.result_type(np.int64, np.float64)))
            r, c = g.row(), z3.Int("c")
            ctx.skolem(z3.And(0 <= c, c < g.L(r)))
            ctx.add_index(c)
            q = g.S(r) + c
            cell = apply_binary("subtract", g.D.fn(q), col.fn(r, 0)) if kind == "column-right" else \
                apply_binary("subtract", col.fn(r, 0), g.D.fn(q))
            ctx.prove("post.cell(r,c)==U(cell, column[r]) in operand order", out.ravel().get(q) == cell)
            ctx.prove("post.same geometry object", z3.BoolVal(out._shape is a._shape))
            ctx.prove("post.receiver not modified", z3.BoolVal(g.D.buf.writes == 0 and col.buf.writes == 0))
            return
        ctx.skolem(z3.And(0 <= j, j < size))
        ctx.prove("post.flat result[j]==U(operands[j]) in operand order", out.ravel().get(j) == exp(j))
        ctx.prove("post.len", dim_term(out.ravel().shape_[0]) == size)
        ctx.prove("post.same geometry object", z3.BoolVal(out._shape is a._shape))
        ctx.prove("post.receiver not modified", z3.BoolVal(g.D.buf.writes == 0))

    def concretise(self, kind, model, ghost):
        g = ghost["g"]
        n = min(max(model_int(model, g.n), 0), 4)
        case = {"lengths": [min(max(model_int(model, g.L(z3.IntVal(r))), 0), 3) for r in range(n)]}
        g2 = ghost.get("g2")
        if g2 is not None:
            n2 = min(max(model_int(model, g2.n), 0), 4)
            case["lengths_b"] = [min(max(model_int(model, g2.L(z3.IntVal(r))), 0), 3) for r in range(n2)]
        return case

    def concrete(self, case):
        from npstructures import RaggedArray
        ls = case["lengths"]
        rows, v = [], 10
        for l in ls:
            rows.append(list(range(v, v + l)))
            v += l
        a = RaggedArray(rows, dtype=np.int64) if rows else RaggedArray([], dtype=np.int64)
        if "lengths_b" in case:
            lb = case["lengths_b"]
            b = RaggedArray(np.arange(sum(lb), dtype=np.int64), lb)
            try:
                got = (a - b).tolist()
                err = None
            except Exception as e:
                got, err = None, e
            if lb != ls and err is None:
                return {"msg": f"ragged arrays with row lengths {ls} and {lb} were combined: {got}", "sig": "not-refused:array_ufunc"}
            if lb == ls and err is not None:
                return {"msg": f"ragged arrays with equal row lengths {ls} refused: {err!r}", "sig": "raised:array_ufunc"}
        col = np.arange(len(ls))[:, None] * 100
        checks = [("2 - a", lambda: 2 - a, [[2 - x for x in r] for r in rows]),
                  ("a - 2", lambda: a - 2, [[x - 2 for x in r] for r in rows]),
                  ("-a", lambda: -a, [[-x for x in r] for r in rows]),
                  ("a - a", lambda: a - a, [[0 for x in r] for r in rows])]
        if len(ls) > 1:
            checks += [("a - col", lambda: a - col, [[x - 100 * i for x in r] for i, r in enumerate(rows)]),
                       ("col - a", lambda: col - a, [[100 * i - x for x in r] for i, r in enumerate(rows)])]
        for what, f, exp in checks:
            try:
                got = f().tolist()
            except Exception as e:
                return {"msg": f"{what} on rows {rows} raised {type(e).__name__}: {e}", "sig": "raised:array_ufunc"}
            if got != exp and not (len(exp) == 0 and len(got) == 0):
                return {"msg": f"{what} on rows {rows}: {got}, expected {exp}", "sig": "wrong:array_ufunc"}

    def bounded_cases(self, tier, seed):
        from ..bounded.common import length_vectors
        for ls in length_vectors(3, 2):
            yield {"lengths": ls}
        for ls in length_vectors(2, 2):
            for lb in length_vectors(2, 2):
                yield {"lengths": ls, "lengths_b": lb}
