"""C13 bounded stand-in: BitArray.pack / unpack / integer and list indexing / sliding_window on every small
input, against plain Python integers (expected window i of size w = sum(a[i+j] << (b*j) for j in range(w)))."""
import itertools
import numpy as np
from .common import import_repo

PROPERTY = "C13"
RULE = ("exhaustive: bit width b in {1,2,4,8,16,32} (k = 64/b entries per register) x length n x value pattern "
        "(zero / all-max / ramp / alternating / only-last-nonzero / seeded random, all reduced modulo what fits in b bits "
        "AND in the input dtype) x operation: roundtrip unpack(pack(a)) with every input dtype in {u,i}{8,16,32,64}; "
        "integer index at every position; position lists (empty, singletons, repeats, unordered, register-boundary "
        "neighbours, whole range, reversed range, lists longer than one register, all lists of length <= 2 over the "
        "boundary positions); sliding_window(w) for w in 1..min(k, n) (for b=1 a subset of w in the quick tier). "
        "non-trivial = n is not a multiple of k (partial last register), or a window straddles a register boundary, "
        "or an integer position lies beyond the first register, or a position list has repeats / is not ascending / "
        "is longer than one register")
BOUNDS = {
    "quick": {"b": [1, 2, 4, 8, 16, 32], "n": "0..3k+2 for b>=2; for b=1 {0..3,31..33,62..66,126..130,190..194}",
              "dtypes": "all 8 for roundtrip; rotating over the 8 for the other operations",
              "patterns": ["zero", "max", "ramp", "alt", "last", "rand(1 seed)"],
              "windows": "all 1..min(k,n) for b>=2; b=1: {1,2,3,7,8,9,31,32,33,62,63,64}",
              "int positions": "every position, patterns ramp+rand",
              "lists": "structured family + all lists of length<=2 over boundary positions"},
    "thorough": {"b": [1, 2, 4, 8, 16, 32], "n": "0..3k+2 for every b (b=1: 0..194); plus 4k-1..4k+1",
                 "dtypes": "all 8 for every operation except integer positions (rotating)",
                 "patterns": ["zero", "max", "ramp", "alt", "last", "rand(3 seeds)"],
                 "windows": "all 1..min(k,n)", "int positions": "every position, every pattern",
                 "lists": "structured family + all lists of length<=3 over boundary positions",
                 "random": "40000 cases: n<=6k+5, random dtype/pattern seed/op/window/position list (len<=2k+3)"}}

BITS = [1, 2, 4, 8, 16, 32]
DTYPES = ["uint8", "uint16", "uint32", "uint64", "int8", "int16", "int32", "int64"]
PATTERNS = ["zero", "max", "ramp", "alt", "last"]
Q_B1_LENGTHS = [0, 1, 2, 3, 31, 32, 33, 62, 63, 64, 65, 66, 126, 127, 128, 129, 130, 190, 191, 192, 193, 194]
Q_B1_WINDOWS = [1, 2, 3, 7, 8, 9, 31, 32, 33, 62, 63, 64]


def limit(b, dtype):
    """largest value that fits in b bits and in the input dtype"""
    return min(2 ** b - 1, int(np.iinfo(dtype).max))


def values(case):
    """the input as a list of Python ints; depends on the case only"""
    b, n, dtype, pat = case["b"], case["n"], case["dtype"], case["pat"]
    m = limit(b, dtype)
    if pat == "zero":
        return [0] * n
    if pat == "max":
        return [m] * n
    if pat == "ramp":
        return [(i + 1) % (m + 1) for i in range(n)]
    if pat == "alt":
        return [m if i % 2 == 0 else 0 for i in range(n)]
    if pat == "last":
        return [0] * (n - 1) + [m] * min(n, 1)
    if pat == "rand":
        rng = np.random.default_rng([case["pseed"], b, n])
        # mixture: uniform values and extreme values, so that high digits bits are set often
        v = rng.integers(0, m + 1, size=n, dtype=np.uint64)
        e = rng.integers(0, 4, size=n)
        return [m if e[i] == 0 else int(v[i]) for i in range(n)]
    raise ValueError(pat)


def lengths(b, tier):
    k = 64 // b
    if tier == "quick" and b == 1:
        return Q_B1_LENGTHS
    ls = list(range(0, 3 * k + 3))
    if tier == "thorough":
        ls += [4 * k - 1, 4 * k, 4 * k + 1]
    return ls


def windows(b, n, tier):
    k = 64 // b
    ws = range(1, min(k, n) + 1)
    if tier == "quick" and b == 1:
        return [w for w in ws if w in Q_B1_WINDOWS]
    return list(ws)


def boundary_positions(b, n):
    k = 64 // b
    c = [0, 1, k - 1, k, k + 1, 2 * k - 1, 2 * k, 3 * k, n - 2, n - 1]
    return sorted({p for p in c if 0 <= p < n})


def position_lists(b, n, tier):
    k = 64 // b
    out = [[]]
    if n == 0:
        return out
    bp = boundary_positions(b, n)
    for ln in range(1, 4 if tier == "thorough" else 3):
        for combo in itertools.product(bp, repeat=ln):
            out.append(list(combo))
    out.append(list(range(n)))
    out.append(list(range(n - 1, -1, -1)))
    out.append(list(range(n)) + list(range(n - 1, -1, -1)))           # longer than the source, repeats
    out.append([n - 1] * (k + 1))                                      # one value, more than a register
    out.append([p for p in range(n) if p % 2 == 0])
    out.append([p for p in range(n) if p % k == k - 1] + [p for p in range(n) if p % k == 0])
    out.append([(7 * i + 3) % n for i in range(min(2 * k + 1, 70))])   # scattered, spans result registers
    return out


def rot_dtype(*key):
    return DTYPES[sum(key) % len(DTYPES)]


def cases(tier, seed):
    thorough = tier == "thorough"
    pseeds = [0, 1, 2] if thorough else [0]
    for b in BITS:
        for n in lengths(b, tier):
            pats = [(p, None) for p in PATTERNS] + [("rand", s) for s in pseeds]
            for pi, (pat, ps) in enumerate(pats):
                def mk(dtype, **kw):
                    c = {"b": b, "n": n, "dtype": dtype, "pat": pat}
                    if ps is not None:
                        c["pseed"] = ps
                    c.update(kw)
                    return c
                for dt in DTYPES:
                    yield mk(dt, op="roundtrip")
                if n == 0:
                    yield mk(rot_dtype(pi, b), op="list", pos=[], form="list")
                    yield mk(rot_dtype(pi, b), op="list", pos=[], form="array")
                    continue
                wdts = DTYPES if thorough else None
                for w in windows(b, n, tier):
                    for dt in (wdts or [rot_dtype(n, w, pi)]):
                        if thorough and b == 1 and dt not in ("uint8", "int64", rot_dtype(n, w, pi)):
                            continue
                        yield mk(dt, op="window", w=w)
                if thorough or pat in ("ramp", "rand"):
                    for p in range(n):
                        yield mk(rot_dtype(n, p, pi), op="int", pos=p, form="int")
                    for p in boundary_positions(b, n):
                        yield mk(rot_dtype(n, p, pi), op="int", pos=p, form="npint")
                if pat in ("ramp", "rand", "max") or thorough:
                    for li, pos in enumerate(position_lists(b, n, tier)):
                        if pat == "max" and not thorough and len(pos) > 2:
                            continue
                        for dt in (DTYPES if thorough and len(pos) > 3 else [rot_dtype(n, li, pi)]):
                            yield mk(dt, op="list", pos=pos, form="list" if (li + pi) % 3 else "array")
    if thorough:
        rng = np.random.default_rng(seed)
        for _ in range(40000):
            b = int(rng.choice(BITS))
            k = 64 // b
            n = int(rng.integers(0, 6 * k + 6))
            c = {"b": b, "n": n, "dtype": DTYPES[int(rng.integers(0, 8))], "pat": "rand",
                 "pseed": int(rng.integers(0, 2 ** 31))}
            kind = int(rng.integers(0, 4)) if n > 0 else 0
            if kind == 0:
                c["op"] = "roundtrip"
            elif kind == 1:
                c.update(op="window", w=int(rng.integers(1, min(k, n) + 1)))
            elif kind == 2:
                c.update(op="int", pos=int(rng.integers(0, n)), form="int" if rng.random() < 0.7 else "npint")
            else:
                ln = int(rng.integers(0, 2 * k + 4))
                c.update(op="list", pos=[int(x) for x in rng.integers(0, n, size=ln)],
                         form="list" if rng.random() < 0.6 else "array")
            yield c


def nontrivial(case):
    b, n = case["b"], case["n"]
    k = 64 // b
    if n % k != 0:
        return True
    op = case["op"]
    if op == "window":
        return case["w"] > 1 and n > k
    if op == "int":
        return case["pos"] >= k
    if op == "list":
        pos = case["pos"]
        return len(pos) > k or any(x >= y for x, y in zip(pos, pos[1:]))
    return False


def _cls(case):
    b, n = case["b"], case["n"]
    k = 64 // b
    return ("partial" if n % k else "full") + ("-multi" if n > k else "-single")


def _tolist(x):
    a = np.asarray(x)
    if a.ndim != 1:
        raise TypeError(f"not one-dimensional: shape {a.shape}")
    return [int(v) for v in a.tolist()]


def check(case):
    import_repo()
    from npstructures.bitarray import BitArray
    b, n, op = case["b"], case["n"], case["op"]
    a = values(case)
    m = limit(b, case["dtype"])
    assert all(0 <= v <= m for v in a) and len(a) == n
    arr = np.array(a, dtype=case["dtype"])
    assert arr.tolist() == a
    head = f"b={b} n={n} dtype={case['dtype']} pat={case['pat']}" + (f"/{case['pseed']}" if "pseed" in case else "")

    try:
        packed = BitArray.pack(arr, b)
    except Exception as e:
        return {"msg": f"{head}: pack raised {type(e).__name__}: {e}", "sig": f"raised:{type(e).__name__}:pack:{_cls(case)}"}
    if arr.tolist() != a:
        return {"msg": f"{head}: pack modified its input", "sig": "wrong:pack:input-modified"}

    if op == "roundtrip":
        try:
            got = _tolist(packed.unpack())
        except Exception as e:
            return {"msg": f"{head}: unpack raised {type(e).__name__}: {e}",
                    "sig": f"raised:{type(e).__name__}:unpack:{_cls(case)}"}
        if got != a:
            what = "count" if len(got) != len(a) else "values"
            return {"msg": f"{head}: unpack(pack(a)) expected {a}, got {got}", "sig": f"wrong:roundtrip:{what}:{_cls(case)}"}
        return None

    if op == "int":
        p = case["pos"]
        idx = p if case["form"] == "int" else np.int64(p)
        try:
            got = packed[idx]
            gv = np.asarray(got)
            if gv.ndim != 0:
                return {"msg": f"{head}: packed[{p}] is not a scalar: {got!r}", "sig": f"wrong:getint:not-scalar:{case['form']}"}
            gv = int(gv.item())
        except Exception as e:
            return {"msg": f"{head}: packed[{p}] ({case['form']}) raised {type(e).__name__}: {e}",
                    "sig": f"raised:{type(e).__name__}:getint:{case['form']}:{_cls(case)}"}
        if gv != a[p]:
            return {"msg": f"{head}: packed[{p}] ({case['form']}) expected {a[p]}, got {gv}; a={a}",
                    "sig": f"wrong:getint:{case['form']}:{_cls(case)}"}
        return None

    if op == "list":
        pos = case["pos"]
        idx = list(pos) if case["form"] == "list" else np.array(pos, dtype=np.int64)
        exp = [a[p] for p in pos]
        lk = "empty" if not pos else ("long" if len(pos) > 64 // b else "short")
        try:
            sub = packed[idx]
            if not isinstance(sub, BitArray):
                return {"msg": f"{head}: packed[{pos}] ({case['form']}) is not a BitArray: {sub!r}",
                        "sig": f"wrong:getlist:not-packed:{case['form']}:{lk}"}
            got = _tolist(sub.unpack())
        except Exception as e:
            return {"msg": f"{head}: packed[{pos}] ({case['form']}) raised {type(e).__name__}: {e}",
                    "sig": f"raised:{type(e).__name__}:getlist:{case['form']}:{lk}"}
        if got != exp:
            what = "count" if len(got) != len(exp) else "values"
            return {"msg": f"{head}: packed[{pos}].unpack() ({case['form']}) expected {exp}, got {got}; a={a}",
                    "sig": f"wrong:getlist:{what}:{case['form']}:{lk}"}
        # the result is itself a packed array of those elements: it must be position-addressable as well
        try:
            for t in sorted({0, len(pos) // 2, len(pos) - 1} & set(range(len(pos)))):
                g = int(np.asarray(sub[t]).item())
                if g != exp[t]:
                    return {"msg": f"{head}: packed[{pos}][{t}] expected {exp[t]}, got {g}", "sig": f"wrong:getlist:reindex:{lk}"}
        except Exception as e:
            return {"msg": f"{head}: packed[{pos}][t] raised {type(e).__name__}: {e}",
                    "sig": f"raised:{type(e).__name__}:getlist:reindex:{lk}"}
        return None

    if op == "window":
        w = case["w"]
        assert 1 <= w <= n and w * b <= 64
        exp = [sum(a[i + j] << (b * j) for j in range(w)) for i in range(n - w + 1)]
        wk = ("w1" if w == 1 else ("wfull" if w * b == 64 else "wmid")) + ":" + _cls(case)
        try:
            got = _tolist(packed.sliding_window(w))
        except Exception as e:
            return {"msg": f"{head}: sliding_window({w}) raised {type(e).__name__}: {e}",
                    "sig": f"raised:{type(e).__name__}:window:{wk}"}
        if len(got) != len(exp):
            return {"msg": f"{head}: sliding_window({w}) expected {len(exp)} windows, got {len(got)}",
                    "sig": f"wrong:window:count:{wk}"}
        if got != exp:
            i = next(i for i in range(len(exp)) if got[i] != exp[i])
            k = 64 // b
            where = "straddle" if i % k + w > k else "inside"
            return {"msg": f"{head}: sliding_window({w})[{i}] expected {exp[i]:#x}, got {got[i]:#x}; a[{i}:{i + w}]={a[i:i + w]}",
                    "sig": f"wrong:window:values:{where}:{wk}"}
        return None
    raise ValueError(op)
