"""C09: column aggregates.

* RaggedArray.col_counts: counts[j] = #{rows r : L(r) > j} for j < max L.  Proved for all row-length vectors with
  three small inductions (ghost counting functions):
      cnt(k, i) = #{r < i : L(r) == k}        (the bincount contract)
      H(j, i)   = sum_{k <= j} cnt(k, i)        (ghost; recurrence in j)
      gt(j, i)  = #{r < i : L(r) > j}           (ghost; recurrence in i: the spec function)
  (A) H(j, i+1) = H(j, i) + [L(i) <= j]   by induction on j;   (B) H(j, i) + gt(j, i) = i   by induction on i;
  (C) cumsum(counts0)[j] = n - H(j, n)      by induction on j (scan invariant of cumsum#1).
* RaggedArray.sum(axis=0): dispatch by dtype (which accumulator, which result dtype, which indices and weights).
* IndexableArray.get_column_values: a client of ra[lengths > j, j].
"""
import numpy as np
import z3

from .base import Family, register, model_int
from .ragged import sym_ragged
from .reduce import telescoping
from ..sym.core import SInt, cur, fresh_name
from ..sym.arr import SymArr, I, dim_term


@register
class ColCounts(Family):
    name = "RaggedArray.col_counts"
    qualname = "npstructures.raggedarray:RaggedArray.col_counts"
    serves = ["C09", "C19"]
    assumed = ["numpy.bincount contract (counting function cnt(k, i) with step axioms)", "numpy.cumsum(out=) = prefix sums"]

    def run(self, ctx, kind):
        g = sym_ragged(ctx)
        ctx.ghost["g"] = g
        n, L = g.n, g.L
        ctx.assume(n > 0)                     # the property speaks of shapes with at least one row reaching a column
        out = g.ra.col_counts()
        bc = None
        for e in ctx.ghost.get("prefix_sums", []):
            pass
        # locate the ghost functions of the primitives that were used
        ps = ctx.ghost["prefix_sums"][-1]["ps"]
        # the bincount result carried its counting function
        cnt = ctx.ghost["bincount"][-1]["cnt"]
        K = ctx.ghost["bincount"][-1]["len"]
        H = z3.Function(fresh_name("H"), z3.IntSort(), z3.IntSort(), z3.IntSort())
        gt = z3.Function(fresh_name("gt"), z3.IntSort(), z3.IntSort(), z3.IntSort())
        ind = lambda c: z3.If(c, z3.IntVal(1), z3.IntVal(0))
        ctx.assume_forall("H.base", lambda i: H(-1, i) == 0)
        ctx.assume_forall("H.step", lambda j, i: z3.Implies(j >= 0, H(j, i) == H(j - 1, i) + cnt(j, i)), arity=2)
        ctx.assume_forall("gt.base", lambda j: gt(j, 0) == 0)
        ctx.assume_forall("gt.step", lambda j, i: z3.Implies(z3.And(0 <= i, i < n), gt(j, i + 1) == gt(j, i) + ind(L(i) > j)), arity=2)
        j, i = z3.Int("j"), z3.Int("i")
        rng = z3.And(0 <= i, i < n)
        # (A) by induction on j (for a fixed row i)
        ctx.prove("lemmaA.base: H(-1,i+1) == H(-1,i) + [L(i) <= -1]", z3.Implies(rng, H(-1, i + 1) == H(-1, i) + ind(L(i) <= -1)),
                  pool=[i, i + 1, z3.IntVal(-1)])
        ctx.prove("lemmaA.step: from j-1 to j", z3.Implies(z3.And(rng, j >= 0, H(j - 1, i + 1) == H(j - 1, i) + ind(L(i) <= j - 1)),
                                                          H(j, i + 1) == H(j, i) + ind(L(i) <= j)), pool=[i, i + 1, j, j - 1])
        ctx.assume_forall("lemmaA", lambda jj, ii: z3.Implies(z3.And(0 <= ii, ii < n, jj >= -1), H(jj, ii + 1) == H(jj, ii) + ind(L(ii) <= jj)), arity=2)
        # (B) by induction on i
        ctx.prove("lemmaB.base: H(j,0) + gt(j,0) == 0 needs H(j,0) == 0 (induction on j)", z3.Implies(
            z3.And(j >= 0, H(j - 1, 0) == 0), H(j, 0) == 0), pool=[j, j - 1, z3.IntVal(0)])
        ctx.assume_forall("H(j,0)==0", lambda jj: z3.Implies(jj >= -1, H(jj, 0) == 0))
        ctx.prove("lemmaB.step: from i to i+1", z3.Implies(z3.And(rng, j >= -1, H(j, i) + gt(j, i) == i), H(j, i + 1) + gt(j, i + 1) == i + 1),
                  pool=[i, i + 1, j])
        ctx.assume_forall("lemmaB", lambda jj, ii: z3.Implies(z3.And(0 <= ii, ii <= n, jj >= -1), H(jj, ii) + gt(jj, ii) == ii), arity=2)
        # (C) scan invariant: ps(j+1) == n - H(j, n) for 0 <= j < K
        ctx.prove("lemmaC.base: ps(0) == n - H(-1,n) - n", ps(0) == 0, pool=[z3.IntVal(0)])
        ctx.prove("lemmaC.step", z3.Implies(z3.And(0 <= j, j < K, ps(j) == z3.If(j == 0, 0, n - H(j - 1, n))), ps(j + 1) == n - H(j, n)),
                  pool=[j, j - 1, j + 1, n, z3.IntVal(0)])
        ctx.assume_forall("lemmaC", lambda jj: z3.Implies(z3.And(0 <= jj, jj < K), ps(jj + 1) == n - H(jj, n)))
        # post
        c = z3.Int("c")
        ctx.skolem(z3.And(0 <= c, c < dim_term(out.shape_[0])))
        ctx.prove("post.counts[c] == #{rows with more than c cells}", out.get(c) == gt(c, n), pool=[c, n, c + 1])
        # length: one entry per column of the longest row
        w = z3.Int("w")
        ctx.prove("post.len == max row length", z3.And(
            z3.Implies(z3.And(0 <= w, w < n), L(w) <= dim_term(out.shape_[0])),
            dim_term(out.shape_[0]) == K - 1), pool=[w])

    def concretise(self, kind, model, ghost):
        g = ghost["g"]
        n = min(max(model_int(model, g.n), 1), 5)
        return {"lengths": [min(max(model_int(model, g.L(z3.IntVal(r))), 0), 4) for r in range(n)]}

    def concrete(self, case):
        from npstructures import RaggedArray
        ls = case["lengths"]
        if not ls or max(ls) == 0:
            return None
        ra = RaggedArray(np.arange(sum(ls)), ls)
        got = np.asarray(ra.col_counts()).tolist()
        exp = [sum(1 for l in ls if l > j) for j in range(max(ls))]
        if got != exp:
            return {"msg": f"col_counts on row lengths {ls}: {got}, expected {exp}", "sig": "wrong:col_counts"}

    def bounded_cases(self, tier, seed):
        from ..bounded.common import length_vectors
        for ls in length_vectors(4, 3, 1):
            yield {"lengths": ls}


@register
class ColumnSumDispatch(Family):
    name = "RaggedArray.sum[axis=0]"
    qualname = "npstructures.raggedarray:RaggedArray.sum"
    serves = ["C09", "C19"]
    assumed = ["numpy.add.at / weighted bincount accumulate the weights per index (values: bounded stand-in)",
               "numpy.issubdtype table for the element dtype (evaluated by numpy itself)"]

    def kinds(self):
        return ["int8", "int64", "uint8", "uint64", "float64", "axis=-1"]

    def extra_functions(self):
        return ["reduction wrapper", "ViewBase.unravel_multi_index"]

    def run(self, ctx, kind):
        g = sym_ragged(ctx, kind="elem", dtype=np.dtype(kind) if kind != "axis=-1" else np.int64)
        telescoping(ctx, g, g.ra._shape.lengths)
        ctx.assume(g.S(g.n) > 0)
        ctx.add_index(g.n, g.n - 1)
        if kind == "axis=-1":
            import npstructures.raggedarray as ramod
            rec = []
            old = ramod.RaggedArray.__dict__["_reduce"]
            ramod.RaggedArray._reduce = lambda self_, ufunc, ra, axis=0, **kw: rec.append((ufunc.__name__, axis, kw)) or "ROWSUMS"
            try:
                out = g.ra.sum(axis=-1)
            finally:
                ramod.RaggedArray._reduce = old
            ctx.prove("post.row sums are add.reduce along the last axis", z3.BoolVal(out == "ROWSUMS" and rec and rec[0][0] == "add" and rec[0][1] in (-1, 1)))
            return
        from ..sym import symnp
        rec = {}
        real_bincount = symnp.SymNumpy.bincount

        def bincount_rec(self_, x, weights=None, minlength=0):
            rec["bincount"] = (x, weights, minlength)
            return "BINCOUNT"
        symnp.SymNumpy.bincount = bincount_rec
        try:
            out = g.ra.sum(axis=0)
        finally:
            symnp.SymNumpy.bincount = real_bincount
        dt = np.dtype(kind)
        if dt.kind == "f":
            x, w, ml = rec["bincount"]
            ctx.prove("post.float: weighted bincount over the column index", z3.BoolVal(out == "BINCOUNT" and w is g.D))
            idx = x
        else:
            ev = ctx.ghost["ufunc_at"][-1]
            want = np.int64 if dt.kind == "i" else np.uint64
            ctx.prove("post.integer: exact accumulation with add.at into an int64 / uint64 result",
                      z3.BoolVal(ev["ufunc"] == "add" and ev["target"] is out and out.dtype == np.dtype(want) and "bincount" not in rec))
            j0 = z3.Int("j0")
            ctx.skolem(z3.And(0 <= j0, j0 < g.S(g.n)))
            ctx.prove("post.weights are the cells (cast to the result dtype)", z3.BoolVal(ev["values"].dtype == np.dtype(want)))
            idx = ev["idx"]
            z = z3.Int("z")
            ctx.skolem(z3.And(0 <= z, z < dim_term(out.shape_[0])))
            ctx.prove("post.accumulator starts at zero", ev["target_snapshot"](z) == 0)
        # the index array is the column of every flat position
        t = z3.Int("t")
        ctx.skolem(z3.And(0 <= t, t < g.S(g.n)))
        r = z3.Int("r")
        ctx.skolem(z3.And(0 <= r, r < g.n, g.S(r) <= t, t < g.S(r) + g.L(r)))
        ctx.add_index(t, r, r + 1, r - 1)
        ss = [e for e in [getattr(idx, "ss", None)] if e]
        ctx.prove("post.index of flat position t is its column t - S(row)", idx.get(t) == t - g.S(r))


@register
class GetColumnValues(Family):
    name = "IndexableArray.get_column_values"
    qualname = "npstructures.raggedarray.indexablearray:IndexableArray.get_column_values"
    serves = ["C09", "C19"]
    assumed = ["callee contract ra[mask, j] (C02)"]

    def run(self, ctx, kind):
        from npstructures.raggedarray.indexablearray import IndexableArray
        g = sym_ragged(ctx)
        rec = []
        old = IndexableArray.__dict__["__getitem__"]
        IndexableArray.__getitem__ = lambda self_, index: rec.append(index) or "COLUMN"
        jc = z3.Int("jc")
        try:
            out = g.ra.get_column_values(SInt(jc))
        finally:
            IndexableArray.__getitem__ = old
        mask, col = rec[0]
        r = g.row()
        ctx.prove("post.selects exactly the rows that reach the column", mask.get(r) == (g.L(r) > jc))
        ctx.prove("post.asks for that column of those rows", z3.And(I(col) == jc, z3.BoolVal(out == "COLUMN" and len(rec) == 1)))
