"""C05 bounded stand-in: row reductions of ragged arrays against numpy applied to each row alone.

Oracle: `np.<name>(np.array(row_i, dtype))` / `np.<ufunc>.reduce(np.array(row_i, dtype))` for every row (for
max/min/mean/argmax/argmin only for the non-empty rows; the call itself must still succeed when other rows are
empty); axis=None: the same numpy function on the flat data; keepdims: the per-row numbers as an (n_rows, 1) column.
Numbers are compared exactly as numbers (3 == 3.0, nan == nan); the statement does not name a result dtype, so the
dtype is not checked.  mean and the float-only ufuncs (hypot, logaddexp) are compared with a relative tolerance
(1e-12, float32 1e-5; for mean relative to the mean magnitude of the row's cells) because numpy does not promise the
rounding / summation order of its own mean."""
import warnings
import numpy as np
from .common import import_repo, length_vectors
from .raggedutil import (ALL_DTYPES, dtclass, cells, flat, mk, num_eq, short, float_rtol, Unsupported, nonempty_variant,
                         rows_class, vals_class, refine)

PROPERTY = "C05"
NAMED = ["sum", "prod", "any", "all", "max", "min", "mean", "argmax", "argmin"]
NEEDS_NONEMPTY = {"max", "min", "mean", "argmax", "argmin"}
UFUNCS = ["add", "multiply", "logical_and", "logical_or", "logical_xor", "bitwise_and", "bitwise_or", "bitwise_xor",
          "gcd", "hypot", "logaddexp", "logaddexp2"]            # every binary numpy ufunc with an identity
NAMED_FORMS = ["method", "func", "method-keepdims", "func-keepdims", "method-none", "func-none"]
UFUNC_FORMS = ["reduce", "reduce-keepdims", "reduce-none"]
SCHEMES = ["distinct", "mixed", "dups", "zeros"]
QUICK_DTYPES = ["bool", "int8", "int64", "uint8", "uint64", "float32", "float64"]

RULE = ("exhaustive: every row-length vector (rows<=R, len<=L; zero rows, all rows empty, empty rows first / middle / "
        "last / several in a row) x dtype x value scheme (distinct | distinct incl. dtype extremes, zero, negatives, inf | "
        "3-letter alphabet with the extremum repeated | zeros mixed with non-zeros) x reduction (sum prod any all max min "
        "mean argmax argmin as ra.f(axis=-1); np.<ufunc>.reduce(ra, axis=-1) for every numpy ufunc with an identity that "
        "numpy accepts for the dtype); the forms np.f(ra, axis=-1), keepdims=True and axis=None on every shape x dtype "
        "with one value scheme. max/min/mean/argmax/argmin: only arrays with at least one non-empty row, and only the "
        "non-empty rows are compared. non-trivial = the array has an empty row or zero rows, or the form is not the plain "
        "row reduction")
BOUNDS = {"quick": {"max_rows": 3, "max_len": 3, "dtypes": QUICK_DTYPES, "schemes_plain": SCHEMES,
                    "schemes_other_forms": ["mixed (dups for argmax/argmin/max/min)"]},
          "thorough": {"max_rows": 4, "max_len": 4, "dtypes": ALL_DTYPES, "schemes_plain": SCHEMES,
                       "schemes_other_forms": ["mixed", "dups"], "other_forms_max_len": 3, "random": 40000, "random_max_rows": 7, "random_max_len": 6}}

_SUPPORT = {}


def _supported(uf, dt):
    if (uf, dt) not in _SUPPORT:
        try:
            with warnings.catch_warnings(), np.errstate(all="ignore"):
                warnings.simplefilter("ignore")
                getattr(np, uf).reduce(np.ones(2, dtype=dt))
                getattr(np, uf).reduce(np.ones(0, dtype=dt))
            _SUPPORT[(uf, dt)] = True
        except TypeError:
            _SUPPORT[(uf, dt)] = False
    return _SUPPORT[(uf, dt)]


def _applicable(name, form, lengths):
    if name in NEEDS_NONEMPTY and not any(lengths):
        return False           # nothing is specified when no row has an element
    return True


def cases(tier, seed):
    b = BOUNDS[tier]
    dts = b["dtypes"]
    for lengths in length_vectors(b["max_rows"], b["max_len"]):
        for dt in dts:
            for scheme in SCHEMES:
                for name in NAMED:
                    if _applicable(name, "method", lengths):
                        yield {"lengths": lengths, "dtype": dt, "vals": scheme, "op": name, "form": "method"}
                for uf in UFUNCS:
                    if _supported(uf, dt):
                        yield {"lengths": lengths, "dtype": dt, "vals": scheme, "op": uf, "form": "reduce"}
            if tier == "thorough" and max(lengths, default=0) > b["other_forms_max_len"]:
                continue
            for name in NAMED:
                schemes = ["dups"] if name in ("argmax", "argmin", "max", "min") else ["mixed"]
                if tier == "thorough":
                    schemes = ["mixed", "dups"]
                for scheme in schemes:
                    for form in NAMED_FORMS[1:]:
                        if _applicable(name, form, lengths):
                            yield {"lengths": lengths, "dtype": dt, "vals": scheme, "op": name, "form": form}
            for uf in UFUNCS:
                if _supported(uf, dt):
                    for scheme in (["mixed"] if tier == "quick" else ["mixed", "dups"]):
                        for form in UFUNC_FORMS[1:]:
                            yield {"lengths": lengths, "dtype": dt, "vals": scheme, "op": uf, "form": form}
    if tier == "thorough":
        rng = np.random.default_rng(seed)
        for _ in range(b["random"]):
            n = int(rng.integers(0, b["random_max_rows"] + 1))
            lengths = [int(x) if rng.random() > 0.35 else 0 for x in rng.integers(0, b["random_max_len"] + 1, size=n)]
            dt = ALL_DTYPES[int(rng.integers(len(ALL_DTYPES)))]
            scheme = SCHEMES[int(rng.integers(len(SCHEMES)))]
            if rng.random() < 0.6:
                name = NAMED[int(rng.integers(len(NAMED)))]
                form = NAMED_FORMS[int(rng.integers(len(NAMED_FORMS)))]
                if not _applicable(name, form, lengths):
                    continue
            else:
                name = UFUNCS[int(rng.integers(len(UFUNCS)))]
                form = UFUNC_FORMS[int(rng.integers(len(UFUNC_FORMS)))]
                if not _supported(name, dt):
                    continue
            yield {"lengths": lengths, "dtype": dt, "vals": scheme, "op": name, "form": form,
                   "offset": int(rng.integers(0, 17))}


def nontrivial(case):
    return 0 in case["lengths"] or len(case["lengths"]) == 0 or case["form"] not in ("method", "reduce")


def _what(what, case):
    return f"{what}:{'ufunc-reduce' if case['form'].startswith('reduce') else 'named'}"


def _plain(form):
    return "reduce" if form.startswith("reduce") else "method"


def _other_ops(case):
    return ["add", "multiply", "logical_or", "bitwise_xor"] if case["form"].startswith("reduce") else ["sum", "any", "max", "mean"]


AXES = [
    ("op", "op", _other_ops, lambda op: op),
    ("form", "form", lambda case: [_plain(case["form"])], lambda f: None if f in ("method", "reduce") else f),
    ("rows", "lengths", lambda case: [nonempty_variant(case["lengths"])], rows_class),
    ("dtype", "dtype", ["int64", "float64", "bool", "uint8"], dtclass),
    ("vals", "vals", ["distinct"], vals_class),
]


def _call(ra, op, form):
    if form == "method":
        return getattr(ra, op)(axis=-1)
    if form == "func":
        return getattr(np, op)(ra, axis=-1)
    if form == "method-keepdims":
        return getattr(ra, op)(axis=-1, keepdims=True)
    if form == "func-keepdims":
        return getattr(np, op)(ra, axis=-1, keepdims=True)
    if form == "method-none":
        return getattr(ra, op)()
    if form == "func-none":
        return getattr(np, op)(ra)
    if form == "reduce":
        return getattr(np, op).reduce(ra, axis=-1)
    if form == "reduce-keepdims":
        return getattr(np, op).reduce(ra, axis=-1, keepdims=True)
    if form == "reduce-none":
        return getattr(np, op).reduce(ra, axis=None)
    raise ValueError(form)


def _written(op, form):
    return {"method": f"ra.{op}(axis=-1)", "func": f"np.{op}(ra, axis=-1)", "method-keepdims": f"ra.{op}(axis=-1, keepdims=True)",
            "func-keepdims": f"np.{op}(ra, axis=-1, keepdims=True)", "method-none": f"ra.{op}()", "func-none": f"np.{op}(ra)",
            "reduce": f"np.{op}.reduce(ra, axis=-1)", "reduce-keepdims": f"np.{op}.reduce(ra, axis=-1, keepdims=True)",
            "reduce-none": f"np.{op}.reduce(ra, axis=None)"}[form]


def check(case):
    import_repo()
    with warnings.catch_warnings(), np.errstate(all="ignore"):
        warnings.simplefilter("ignore")
        try:
            v = _check(case)
            if v is not None and case["form"] not in ("method", "reduce"):
                # a failure of the plain row reduction on the same input is reported as such, not as a failure of the form
                plain = dict(case, form=_plain(case["form"]))
                try:
                    vp = _check(plain)
                except Unsupported:
                    vp = None
                if vp is not None:
                    case, v = plain, {"msg": f"[seen through {_written(case['op'], case['form'])}] " + vp["msg"], "what": vp["what"]}
        except Unsupported:
            return None
        return None if v is None else refine(case, v, _check, AXES)


def _same(got, exp, rtol, op, row):
    """equality of numbers; for mean the tolerance is relative to the mean magnitude of the cells, because numpy does not
    promise the order of its own floating-point summation (cancellation of huge cells)"""
    if num_eq(got, exp, rtol):
        return True
    if op == "mean" and row and isinstance(got, float) and isinstance(exp, float):
        try:
            scale = sum(abs(float(v)) for v in row) / len(row)
            return abs(got - exp) <= rtol * scale
        except (OverflowError, ValueError):
            return False
    return False


def _check(case):
    """-> None | {"msg", "what"}; raises Unsupported when numpy refuses the input or nothing is specified for it"""
    lengths, dt, op, form = case["lengths"], case["dtype"], case["op"], case["form"]
    if form.startswith("reduce"):
        if op not in UFUNCS or not _supported(op, dt):
            raise Unsupported()
    elif op not in NAMED or not _applicable(op, form, lengths):
        raise Unsupported()
    rows = cells(lengths, dt, case["vals"], offset=case.get("offset", 0))
    n = len(rows)
    ra = mk(rows, dt)
    is_ufunc = form.startswith("reduce")
    npf = getattr(np, op).reduce if is_ufunc else getattr(np, op)
    rtol = float_rtol(dt) if (op == "mean" or op in ("hypot", "logaddexp", "logaddexp2")) else 0.0
    if op == "mean" and np.dtype(dt).kind != "f":
        rtol = 1e-12
    desc = f"{_written(op, form)} with ra = RaggedArray(rows={rows}, dtype={dt})"
    if form.endswith("none"):
        data = np.array(flat(rows), dtype=dt)
        if op in NEEDS_NONEMPTY and data.size == 0:
            raise Unsupported()
        exp = np.asarray(npf(data)).item()
        try:
            got = _call(ra, op, form)
        except Exception as e:
            return {"msg": f"{desc}: expected {exp!r} (numpy over all elements), raised {type(e).__name__}: {e}",
                    "what": _what(f"raised:{type(e).__name__}", case)}
        g = np.asarray(got)
        if g.shape != () and g.size != 1:
            return {"msg": f"{desc}: expected the single number {exp!r}, got {short(got)}", "what": _what("wrong-shape", case)}
        if not _same(g.reshape(()).item(), exp, rtol, op, flat(rows)):
            return {"msg": f"{desc}: expected {exp!r} (numpy over all elements), got {g.reshape(()).item()!r}",
                    "what": _what("wrong", case)}
        return None
    checked = [i for i in range(n) if lengths[i] > 0 or op not in NEEDS_NONEMPTY]
    exp = {i: np.asarray(npf(np.array(rows[i], dtype=dt))).item() for i in checked}
    exp_show = [exp.get(i, "<unspecified>") for i in range(n)]
    try:
        got = _call(ra, op, form)
    except Exception as e:
        return {"msg": f"{desc}: expected per row {exp_show}, raised {type(e).__name__}: {e}",
                "what": _what(f"raised:{type(e).__name__}", case)}
    try:
        g = np.asarray(got)
    except Exception as e:
        return {"msg": f"{desc}: result {short(got)} is not array-like ({e})", "what": _what("wrong-shape", case)}
    want_shape = (n, 1) if form.endswith("keepdims") else (n,)
    if g.shape != want_shape or g.dtype == object:
        return {"msg": f"{desc}: expected shape {want_shape} with per-row values {exp_show}, got shape {g.shape}: {short(got)}",
                "what": _what("wrong-shape", case)}
    gl = g.reshape(n).tolist()
    bad = [i for i in checked if not _same(gl[i], exp[i], rtol, op, rows[i])]
    if bad:
        i = bad[0]
        return {"msg": f"{desc}: row {i} = {rows[i]}: numpy gives {exp[i]!r}, got {gl[i]!r} (all: expected {exp_show}, got {gl})",
                "what": _what("wrong-empty-row" if lengths[i] == 0 else "wrong", case)}
    return None
