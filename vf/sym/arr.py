"""Symbolic numpy arrays (1-D and the 2-D forms the repository uses) and the numpy theory.

An array is a *view* (shape, address map) onto a *buffer* whose content is a meta-level closure
from index terms to an element term; element-wise numpy operations compose closures, so verification
conditions over them are quantifier free once the position is skolemised.  Primitives with fold
semantics (cumsum, accumulate, reduceat, flatnonzero, searchsorted, bincount, fancy assignment)
introduce fresh function symbols constrained by the primitive's *assumed contract* (DESIGN section 5),
in skolemised / witness form.  Out-of-range indexing forks a path that raises IndexError, as numpy does.
"""
import itertools
import numbers
import numpy as _np
import z3

from .core import (SInt, SBool, Unsupported, cur, as_int_term, as_bool_term, fresh_name, ite,
                   py_floordiv, py_mod, is_sym)

ElemSort = z3.DeclareSort("Elem")
INT2ELEM = z3.Function("int2elem", z3.IntSort(), ElemSort)
_buf_ids = itertools.count(1)


def I(x):
    return as_int_term(x)


def is_concrete_int(x):
    if isinstance(x, (SInt, SBool)):
        return False
    return isinstance(x, numbers.Integral) and not isinstance(x, bool) or isinstance(x, _np.integer)


def dim_term(d):
    return z3.IntVal(int(d)) if is_concrete_int(d) else I(d)


def dim_value(d):
    """python int if the dimension is concrete else None"""
    if is_concrete_int(d):
        return int(d)
    t = z3.simplify(I(d))
    if z3.is_int_value(t):
        return t.as_long()
    return None


def norm_dim(d):
    v = dim_value(d)
    if v is not None:
        return v
    t = z3.simplify(I(d))
    c = cur_opt()
    if c is not None and not z3.is_const(t):
        t = c.prune(t)
        if z3.is_int_value(t):
            return t.as_long()
    return t


def same_dim(a, b):
    va, vb = dim_value(a), dim_value(b)
    if va is not None and vb is not None:
        return va == vb
    return z3.is_true(z3.simplify(dim_term(a) == dim_term(b)))


def wrap_dim(d):
    """dimension as user-visible value: int or SInt"""
    v = dim_value(d)
    return v if v is not None else SInt(I(d))


def npdtype(d):
    if getattr(d, "__name__", "") == "SymIntType":
        d = int
    return _np.dtype(d)


def sort_of_dtype(dtype, data=False):
    dtype = npdtype(dtype)
    if dtype == _np.dtype(bool):
        return "bool"
    if data:
        return "elem"
    if _np.issubdtype(dtype, _np.unsignedinteger):
        c = cur_opt()
        if c is not None and c.ghost.get("unsigned_as_bv"):
            return "bv"                 # bit-pattern arrays (XOR tricks): 64-bit words
    if _np.issubdtype(dtype, _np.integer):
        return "int"
    return "elem"


def zero_of(kind):
    if kind == "int":
        return z3.IntVal(0)
    if kind == "bool":
        return z3.BoolVal(False)
    if kind == "bv":
        return z3.BitVecVal(0, 64)
    return ELEM_CONST(0)


_elem_consts = {}


def ELEM_CONST(v):
    """interpreted-constant embedding into the abstract element sort (0, 1, ...)"""
    if isinstance(v, (bool, _np.bool_)):
        v = int(v)
    if isinstance(v, (int, _np.integer)):
        return INT2ELEM(z3.IntVal(int(v)))
    k = repr(v)
    if k not in _elem_consts:
        _elem_consts[k] = z3.Const(f"elem_{k}", ElemSort)
    return _elem_consts[k]


def kind_of_term(t):
    s = t.sort()
    if s == z3.IntSort():
        return "int"
    if s == z3.BoolSort():
        return "bool"
    if z3.is_bv_sort(s):
        return "bv"
    if s == ElemSort:
        return "elem"
    raise Unsupported(f"element sort {s}")


def memo(f):
    """closures are pure functions of the index terms: memoise per index tuple, so that chains of in-place updates
    (each new content closure refers to the old one several times) are evaluated once per index"""
    if getattr(f, "_memo", False):
        return f
    cache = {}

    def g(*idx):
        idx = tuple(as_int_term(i) for i in idx)
        key = tuple(i.get_id() for i in idx)
        hit = cache.get(key)
        if hit is not None:
            return hit[1]
        v = f(*idx)
        if len(cache) > 4096:
            cache.clear()
        cache[key] = (idx, v)       # the index terms are kept alive: z3 recycles ids
        return v
    g._memo = True
    return g


class Buffer:
    @property
    def f(self):
        return self._f

    @f.setter
    def f(self, fn):
        self._f = memo(fn)

    def __init__(self, f, kind, fresh=True, label=""):
        self.id = next(_buf_ids)
        self.f = f                      # closure (*index terms) -> element term; replaced on writes
        self.kind = kind
        self.label = label
        self.fresh = fresh
        self.writes = 0
        self.born_alloc = None
        if cur_opt() is not None:
            c = cur_opt()
            c.allocs += 1
            self.born_alloc = c.allocs


def cur_opt():
    from . import core
    return core._CTX


def scalar_term(x, kind=None):
    """z3 term of a python / numpy / symbolic scalar, optionally coerced to an element kind."""
    if isinstance(x, SInt):
        t = x.t
    elif isinstance(x, SBool):
        t = x.t
    elif isinstance(x, (bool, _np.bool_)):
        t = z3.BoolVal(bool(x))
    elif isinstance(x, (numbers.Integral, _np.integer)):
        t = z3.IntVal(int(x))
    elif isinstance(x, (SElem, SBV)):
        t = x.t
    elif z3.is_expr(x):
        t = x
    elif isinstance(x, _np.ndarray) and x.ndim == 0:
        return scalar_term(x.item(), kind)
    elif isinstance(x, (float, _np.floating)):
        if kind in (None, "elem"):
            return ELEM_CONST(float(x))
        raise Unsupported("float scalar in integer context")
    else:
        raise Unsupported(f"scalar of type {type(x).__name__}")
    return coerce_term(t, kind) if kind else t


def coerce_term(t, kind):
    k = kind_of_term(t)
    if k == kind:
        return t
    if kind == "int" and k == "bool":
        return z3.If(t, z3.IntVal(1), z3.IntVal(0))
    if kind == "bool" and k == "int":
        return t != 0
    if kind == "elem" and k == "int":
        return INT2ELEM(t)
    if kind == "elem" and k == "bool":
        return z3.If(t, ELEM_CONST(1), ELEM_CONST(0))
    if kind == "bv" and k == "int":
        return z3.Int2BV(t, 64)
    if kind == "int" and k == "bv":
        return z3.BV2Int(t)
    if kind == "bool" and k == "elem":
        return ELEM_TRUTH(t)
    if kind == "bool" and k == "bv":
        return t != 0
    raise Unsupported(f"coercion {k} -> {kind}")


ELEM_TRUTH = z3.Function("elem_truth", ElemSort, z3.BoolSort())
_ufuncs = {}


def UF(name, *sorts):
    key = (name,) + tuple(str(s) for s in sorts)
    if key not in _ufuncs:
        _ufuncs[key] = z3.Function(name + "_" + "_".join(str(s)[:3] for s in sorts[:-1]), *sorts)
    return _ufuncs[key]


class SElem:
    """symbolic scalar of the abstract element sort (a cell of a data array)"""
    ndim = 0

    def __array_ufunc__(self, ufunc, method, *inputs, **kwargs):
        from . import symnp
        return symnp.dispatch_ufunc(ufunc, method, inputs, kwargs)

    shape = ()
    size = 1

    def __init__(self, t, dtype=None):
        self.t = t
        self.dtype = _np.dtype(dtype) if dtype is not None else _np.dtype(_np.int64)

    def __repr__(self):
        return f"SElem({self.t})"

    def item(self):
        return self

    def _bin(self, o, name, rev=False):
        try:
            to = scalar_term(o, "elem")
        except Unsupported:
            return NotImplemented
        a, b = (to, self.t) if rev else (self.t, to)
        return wrap_scalar(apply_binary(name, a, b), self.dtype)

    def __add__(self, o): return self._bin(o, "add")
    def __radd__(self, o): return self._bin(o, "add", True)
    def __sub__(self, o): return self._bin(o, "subtract")
    def __rsub__(self, o): return self._bin(o, "subtract", True)
    def __mul__(self, o): return self._bin(o, "multiply")
    def __rmul__(self, o): return self._bin(o, "multiply", True)
    def __truediv__(self, o): return self._bin(o, "true_divide")
    def __rtruediv__(self, o): return self._bin(o, "true_divide", True)
    def __eq__(self, o): return self._bin(o, "equal")
    def __ne__(self, o): return self._bin(o, "not_equal")
    def __lt__(self, o): return self._bin(o, "less")
    def __le__(self, o): return self._bin(o, "less_equal")
    def __gt__(self, o): return self._bin(o, "greater")
    def __ge__(self, o): return self._bin(o, "greater_equal")
    __hash__ = object.__hash__


numbers.Number.register(SElem)


class SBV:
    """symbolic 64-bit register value (numpy uint64 scalar)"""
    ndim = 0
    shape = ()
    size = 1

    def __array_ufunc__(self, ufunc, method, *inputs, **kwargs):
        from . import symnp
        return symnp.dispatch_ufunc(ufunc, method, inputs, kwargs)

    def __init__(self, t, dtype=None):
        self.t = t
        self.dtype = _np.dtype(dtype) if dtype is not None else _np.dtype(_np.uint64)

    def __repr__(self):
        return f"SBV({self.t})"

    def item(self):
        return self

    def astype(self, dtype, **kw):
        return SBV(self.t, dtype)

    def _bin(self, o, name, rev=False):
        if isinstance(o, SymArr):
            return NotImplemented
        try:
            to = scalar_term(o, "bv")
        except Unsupported:
            return NotImplemented
        a, b = (to, self.t) if rev else (self.t, to)
        return wrap_scalar(apply_binary(name, a, b), self.dtype)

    def __and__(self, o): return self._bin(o, "bitwise_and")
    def __rand__(self, o): return self._bin(o, "bitwise_and", True)
    def __or__(self, o): return self._bin(o, "bitwise_or")
    def __ror__(self, o): return self._bin(o, "bitwise_or", True)
    def __xor__(self, o): return self._bin(o, "bitwise_xor")
    def __rxor__(self, o): return self._bin(o, "bitwise_xor", True)
    def __lshift__(self, o): return self._bin(o, "left_shift")
    def __rlshift__(self, o): return self._bin(o, "left_shift", True)
    def __rshift__(self, o): return self._bin(o, "right_shift")
    def __rrshift__(self, o): return self._bin(o, "right_shift", True)
    def __add__(self, o): return self._bin(o, "add")
    def __radd__(self, o): return self._bin(o, "add", True)
    def __sub__(self, o): return self._bin(o, "subtract")
    def __rsub__(self, o): return self._bin(o, "subtract", True)
    def __eq__(self, o): return self._bin(o, "equal")
    def __ne__(self, o): return self._bin(o, "not_equal")
    def __invert__(self): return SBV(~self.t, self.dtype)
    __hash__ = object.__hash__


numbers.Number.register(SBV)


def wrap_scalar(t, dtype=None):
    k = kind_of_term(t)
    if k == "bv":
        return SBV(z3.simplify(t), dtype)
    if k == "int":
        return SInt(z3.simplify(t), dtype)
    if k == "bool":
        return SBool(z3.simplify(t))
    return SElem(t, dtype)


# ---------------------------------------------------------------------------------------------
# element-wise operations on terms

COMPARISONS = {"equal", "not_equal", "less", "less_equal", "greater", "greater_equal"}
_INT_BIN = {
    "add": lambda a, b: a + b,
    "subtract": lambda a, b: a - b,
    "multiply": lambda a, b: a * b,
    "minimum": lambda a, b: z3.If(a <= b, a, b),
    "maximum": lambda a, b: z3.If(a >= b, a, b),
    "equal": lambda a, b: a == b,
    "not_equal": lambda a, b: a != b,
    "less": lambda a, b: a < b,
    "less_equal": lambda a, b: a <= b,
    "greater": lambda a, b: a > b,
    "greater_equal": lambda a, b: a >= b,
}
_BOOL_BIN = {
    "bitwise_and": z3.And, "logical_and": z3.And,
    "bitwise_or": z3.Or, "logical_or": z3.Or,
    "bitwise_xor": z3.Xor, "logical_xor": z3.Xor,
    "equal": lambda a, b: a == b, "not_equal": lambda a, b: z3.Xor(a, b),
    "maximum": z3.Or, "minimum": z3.And,
}
_BV_BIN = {
    "bitwise_and": lambda a, b: a & b, "bitwise_or": lambda a, b: a | b, "bitwise_xor": lambda a, b: a ^ b,
    "left_shift": lambda a, b: z3.If(z3.ULT(b, 64), a << b, z3.BitVecVal(0, 64)),
    "right_shift": lambda a, b: z3.If(z3.ULT(b, 64), z3.LShR(a, b), z3.BitVecVal(0, 64)),
    "add": lambda a, b: a + b, "subtract": lambda a, b: a - b, "multiply": lambda a, b: a * b,
    "equal": lambda a, b: a == b, "not_equal": lambda a, b: a != b,
    "less": z3.ULT, "less_equal": z3.ULE, "greater": z3.UGT, "greater_equal": z3.UGE,
    "floor_divide": lambda a, b: z3.UDiv(a, b), "remainder": lambda a, b: z3.URem(a, b),
}


def div_abstraction(ctx, s):
    """floor division by the symbolic divisor s > 0, factored:  x*s is written MUL(x) with MUL(0) = 0, MUL(x+1) = MUL(x) + s
    (sound weakening of multiplication), and a // s = DIV(a) with  MUL(DIV(a)) <= a < MUL(DIV(a)+1)  (definition of floor division
    for s > 0, Python and numpy int64 alike).  Returns (DIV, MUL)."""
    s = z3.simplify(as_int_term(s))
    DIV = z3.Function(fresh_name("DIV"), z3.IntSort(), z3.IntSort())
    MUL = z3.Function(fresh_name("MUL"), z3.IntSort(), z3.IntSort())
    ctx.assume(s > 0)
    ctx.assume(MUL(0) == 0)
    ctx.assume_forall("MUL.step", lambda x: MUL(x + 1) == MUL(x) + s)
    ctx.assume_forall("floor-division", lambda a: z3.And(MUL(DIV(a)) <= a, a < MUL(DIV(a) + 1)))
    ctx.ghost["div_abstraction"] = {"divisor": s, "DIV": DIV, "MUL": MUL, "dividends": []}
    return DIV, MUL


def apply_binary(name, a, b):
    ka, kb = kind_of_term(a), kind_of_term(b)
    if "bv" in (ka, kb):
        a, b = coerce_term(a, "bv"), coerce_term(b, "bv")
        if name in _BV_BIN:
            return _BV_BIN[name](a, b)
        raise Unsupported(f"bit-vector ufunc {name}")
    if "elem" in (ka, kb) or name == "true_divide":
        # true division always yields a float: an uninterpreted function of the two operands embedded into the element sort
        a, b = coerce_term(a, "elem"), coerce_term(b, "elem")
        rs = z3.BoolSort() if name in COMPARISONS or name.startswith("logical_") else ElemSort
        return UF("U_" + name, ElemSort, ElemSort, rs)(a, b)
    if ka == "bool" and kb == "bool" and name in _BOOL_BIN:
        return _BOOL_BIN[name](a, b)
    if name in ("logical_and", "logical_or", "logical_xor"):
        return _BOOL_BIN[name](coerce_term(a, "bool"), coerce_term(b, "bool"))
    a, b = coerce_term(a, "int"), coerce_term(b, "int")
    if name in _INT_BIN:
        return _INT_BIN[name](a, b)
    if name in ("floor_divide", "remainder"):
        # numpy: integer division by zero gives 0 (with a warning); modelled for b != 0 only
        q = py_floordiv(a, b)
        return z3.If(b == 0, z3.IntVal(0), q if name == "floor_divide" else a - b * q)
    if name in ("bitwise_xor", "bitwise_and", "bitwise_or", "left_shift", "right_shift"):
        # bit operations on integers: 64-bit two's complement words
        return _BV_BIN[name](z3.Int2BV(a, 64), z3.Int2BV(b, 64))
    raise Unsupported(f"integer ufunc {name}")


def apply_unary(name, a):
    k = kind_of_term(a)
    if name in ("positive",):
        return a
    if k == "elem":
        rs = z3.BoolSort() if name in ("logical_not", "isnan", "isfinite", "signbit") else ElemSort
        return UF("U1_" + name, ElemSort, rs)(a)
    if k == "bool":
        if name in ("logical_not", "invert", "bitwise_not"):
            return z3.Not(a)
        if name in ("absolute", "abs", "sign"):
            return a
        a, k = coerce_term(a, "int"), "int"
    if k == "bv":
        if name in ("invert", "bitwise_not"):
            return ~a
        raise Unsupported(f"bit-vector unary {name}")
    if name == "negative":
        return -a
    if name in ("absolute", "abs", "fabs"):
        return z3.If(a >= 0, a, -a)
    if name == "sign":
        return z3.If(a > 0, z3.IntVal(1), z3.If(a < 0, z3.IntVal(-1), z3.IntVal(0)))
    if name == "logical_not":
        return a == 0
    if name in ("invert", "bitwise_not"):
        return -a - 1
    raise Unsupported(f"integer unary ufunc {name}")


def result_dtype_binary(name, da, db):
    if name in COMPARISONS or name.startswith("logical_"):
        return _np.dtype(bool)
    if name == "true_divide":
        try:
            return _np.result_type(da, db, _np.float16) if _np.dtype(da).kind == "f" or _np.dtype(db).kind == "f" else _np.dtype(_np.float64)
        except Exception:
            return _np.dtype(_np.float64)
    try:
        return _np.result_type(da, db)
    except Exception:
        return _np.dtype(da)


# ---------------------------------------------------------------------------------------------
# the spec function of CPython slicing (dual reading: ints or symbolic)


def pyslice(n, start, stop, step):
    """(first, count, step) of slice(start, stop, step) applied to a sequence of length n (step != 0).
    Mirrors CPython's PySlice_AdjustIndices; audited against slice.indices()."""
    from .core import smin, smax, floordiv
    if step is None:
        step = 1
    pos = step > 0
    if start is None:
        first = ite(pos, 0, n - 1)
    else:
        first = ite(start < 0, ite(pos, smax(start + n, 0), smax(start + n, -1)),
                    ite(pos, smin(start, n), smin(start, n - 1)))
    if stop is None:
        last = ite(pos, n, -1)
    else:
        last = ite(stop < 0, ite(pos, smax(stop + n, 0), smax(stop + n, -1)),
                   ite(pos, smin(stop, n), smin(stop, n - 1)))
    if is_sym(step) or is_sym(first) or is_sym(last):
        cnt_pos = ite(first < last, floordiv(last - first - 1, smax(step, 1)) + 1, 0)
        cnt_neg = ite(last < first, floordiv(first - last - 1, smax(-step, 1)) + 1, 0)
        count = ite(pos, cnt_pos, cnt_neg)
    elif step > 0:
        count = (last - first - 1) // step + 1 if first < last else 0
    else:
        count = (first - last - 1) // (-step) + 1 if last < first else 0
    return first, count, step


# ---------------------------------------------------------------------------------------------


class SymArr:
    """A numpy-array look-alike: shape (tuple of int | z3 Int term), buffer, address map."""
    __array_priority__ = 1000

    def __init__(self, shape, buf, addr=None, dtype=None):
        self.shape_ = tuple(norm_dim(d) for d in shape)
        self.buf = buf
        self.addr = addr if addr is not None else (lambda *i: i)
        self.dtype = npdtype(dtype) if dtype is not None else _np.dtype(_np.int64)
        self.contiguous = addr is None

    # -- constructors -----------------------------------------------------------------------
    @classmethod
    def fresh(cls, shape, f, kind, dtype=None, label=""):
        if dtype is None:
            dtype = {"bool": bool, "int": _np.int64}.get(kind, _np.int64)
        return cls(shape, Buffer(f, kind, label=label), None, dtype)

    @classmethod
    def symbolic(cls, name, n, kind="int", dtype=None, ndim=1, assume_len=True):
        """an arbitrary array: elements are applications of a fresh uninterpreted function"""
        sort = {"int": z3.IntSort(), "bool": z3.BoolSort(), "elem": ElemSort, "bv": z3.BitVecSort(64)}[kind]
        if isinstance(n, tuple):
            shape = n
        else:
            shape = (n,)
        fn = z3.Function(fresh_name(name), *([z3.IntSort()] * len(shape) + [sort]))
        arr = cls.fresh(shape, lambda *i: fn(*i), kind, dtype, label=name)
        arr.fn = fn
        if assume_len:
            for d in shape:
                if dim_value(d) is None:
                    cur().assume(I(d) >= 0)
        return arr

    @classmethod
    def from_scalar(cls, x):
        t = scalar_term(x)
        return cls.fresh((1,), lambda i: t, kind_of_term(t), getattr(x, "dtype", None))

    @classmethod
    def from_numpy(cls, a):
        a = _np.asarray(a)
        if a.ndim == 0:
            raise Unsupported("0-d concrete array to SymArr")
        if a.dtype == object:
            raise Unsupported("object array")
        kind = sort_of_dtype(a.dtype)
        if a.size > 64:
            raise Unsupported("large concrete array")
        flat = a.ravel().tolist()
        terms = [scalar_term(v, kind) for v in flat]
        shape = a.shape
        strides = []
        acc = 1
        for d in reversed(shape):
            strides.insert(0, acc)
            acc *= d

        def f(*idx):
            lin = sum((I(i) * s for i, s in zip(idx, strides)), z3.IntVal(0))
            lin = z3.simplify(lin)
            if z3.is_int_value(lin):
                v = lin.as_long()
                if 0 <= v < len(terms):
                    return terms[v]
            out = zero_of(kind)
            for k in range(len(terms) - 1, -1, -1):
                out = z3.If(lin == k, terms[k], out)
            return out
        return cls.fresh(shape, f, kind, a.dtype)

    # -- basic attributes -------------------------------------------------------------------
    @property
    def kind(self):
        return self.buf.kind

    @property
    def ndim(self):
        return len(self.shape_)

    @property
    def shape(self):
        return tuple(wrap_dim(d) for d in self.shape_)

    @property
    def size(self):
        out = 1
        for d in self.shape_:
            out = out * (d if is_concrete_int(d) else SInt(d))
        return out if is_concrete_int(out) else SInt(z3.simplify(out.t))

    def __len__(self):
        # CPython demands a real int; module-level `len` is rebound to sym_len during verification
        v = dim_value(self.shape_[0])
        if v is None:
            raise Unsupported("len() of an array with symbolic length reached CPython")
        return v

    def sym_len(self):
        return wrap_dim(self.shape_[0])

    def get(self, *idx):
        return self.buf.f(*self.addr(*[I(i) for i in idx]))

    def snapshot(self):
        f, addr = self.buf.f, self.addr
        return lambda *i: f(*addr(*i))

    def __repr__(self):
        return f"SymArr(shape={self.shape_}, kind={self.kind}, dtype={self.dtype})"

    def __bool__(self):
        v = [dim_value(d) for d in self.shape_]
        if all(x == 1 for x in v):
            return bool(wrap_scalar(self.get(*[0] * self.ndim)))
        raise ValueError("The truth value of an array with more than one element is ambiguous")

    def __iter__(self):
        v = dim_value(self.shape_[0])
        if v is None:
            gi = cur().ghost.get("generic_iteration")
            if gi is not None:
                # for-each verified for an ARBITRARY iteration: the iterator yields the element at the symbolic index k (0 <= k < len is the
                # proof's hypothesis; every array iterated in lock-step is recorded so that the proof can state that they are equally long)
                gi["arrays"].append(self)
                return iter([self[SInt(gi["k"])]])

            def lazy_fail():
                raise Unsupported("iteration over an array of symbolic length")
                yield
            return lazy_fail()
        return (self[i] for i in range(v))

    def item(self):
        return wrap_scalar(self.get(*[0] * self.ndim), self.dtype)

    def __int__(self):
        raise Unsupported("int() of a symbolic array reached CPython")

    def sym_int(self):
        """int(array): numpy >= 2.4? raises TypeError unless the array is 0-d"""
        if self.ndim != 0:
            raise TypeError("only 0-dimensional arrays can be converted to Python scalars")
        return self.item()

    # -- views / copies ---------------------------------------------------------------------
    def copy(self):
        return SymArr.fresh(self.shape_, self.snapshot(), self.kind, self.dtype)

    def ravel(self, order="C"):
        if order not in ("C", None):
            raise Unsupported(f"ravel(order={order!r}): the memory layout of an array is not modelled (only the logical, C-ordered index space is)")
        if self.ndim == 1:
            return self
        return self.flatten_view()

    def flatten(self, order="C"):
        if order not in ("C", None):
            raise Unsupported(f"flatten(order={order!r}): the memory layout of an array is not modelled")
        r = self.flatten_view()
        return SymArr.fresh(r.shape_, r.snapshot(), self.kind, self.dtype)

    def flatten_view(self):
        if self.ndim == 1:
            return self
        if self.ndim != 2:
            raise Unsupported("ravel of ndim > 2")
        n, k = self.shape_
        kt = dim_term(k)
        total = z3.simplify(dim_term(n) * kt)
        addr = self.addr
        kv = dim_value(k)
        ab = _registered_divisor(kt) if kv is None else None
        if kv == 1:
            na = lambda i: addr(i, z3.IntVal(0))
        elif ab is not None:
            # C order with the registered symbolic width s: flat i is (i // s, i - (i // s) * s) in factored form; n * s is MUL(n)
            DIV, MUL = ab["DIV"], ab["MUL"]
            total = MUL(dim_term(n))               # n * s in factored form: the size stays a linear term
            na = lambda i: addr(DIV(i), i - MUL(DIV(i)))
        else:
            na = lambda i: addr(py_floordiv(i, kt) if kv is None else i / kt, py_mod(i, kt) if kv is None else i % kt)
        r = SymArr((total,), self.buf, na, self.dtype)
        return r

    def reshape(self, *shape):
        if len(shape) == 1 and isinstance(shape[0], tuple):
            shape = shape[0]
        shape = tuple(shape)
        flat = self.ravel()
        total = dim_term(flat.shape_[0])
        if len(shape) == 1:
            if dim_value(shape[0]) == -1 or same_dim(shape[0], flat.shape_[0]):
                return flat
            if not cur().branch(dim_term(shape[0]) == total, "reshape"):
                raise ValueError("cannot reshape array")
            return flat
        if len(shape) != 2:
            raise Unsupported("reshape to ndim > 2")
        a, b = shape
        av, bv = dim_value(a), dim_value(b)
        if av == -1:
            bt = dim_term(b)
            if not cur().branch(z3.And(bt != 0, total % bt == 0) if bv is None else total % bt == 0, "reshape"):
                raise ValueError("cannot reshape array")
            a = z3.simplify(total / bt)
        elif bv == -1:
            at = dim_term(a)
            if not cur().branch(z3.And(at != 0, total % at == 0), "reshape"):
                raise ValueError("cannot reshape array")
            b = z3.simplify(total / at)
        else:
            ab0 = _registered_divisor(dim_term(b)) if bv is None else None
            prod = ab0["MUL"](dim_term(a)) if ab0 is not None else dim_term(a) * dim_term(b)
            if not cur().branch(prod == total, "reshape"):
                raise ValueError("cannot reshape array")
        bt = dim_term(b)
        faddr = flat.addr
        ab = _registered_divisor(bt) if dim_value(b) is None else None
        if ab is not None:
            MUL = ab["MUL"]
            return SymArr((a, b), self.buf, lambda i, j: faddr(MUL(i) + j), self.dtype)
        return SymArr((a, b), self.buf, lambda i, j: faddr(i * bt + j), self.dtype)

    def view(self, dtype=None):
        if dtype is None:
            return SymArr(self.shape_, self.buf, self.addr, self.dtype)
        dtype = npdtype(dtype)
        if dtype.itemsize == self.dtype.itemsize:
            # same item size: identity on bit patterns (element terms are kept; kind unchanged)
            r = SymArr(self.shape_, self.buf, self.addr, dtype)
            r.contiguous = self.contiguous
            return r
        if not self.contiguous:
            raise ValueError("To change to a dtype of a different size, the last axis must be contiguous")
        if self.dtype.itemsize == 4 and dtype.itemsize == 8 and self.ndim == 1 and self.kind == "int":
            return PairArr(self.reshape(-1, 2), contiguous=True)
        raise Unsupported("view with a different item size")

    def astype(self, dtype, copy=True):
        dtype = npdtype(dtype)
        if not copy and dtype == self.dtype:
            return self                    # numpy: no copy is made when the dtype already matches
        kind = self.kind
        snap = self.snapshot()
        if kind == "elem":
            if dtype == self.dtype:
                f = snap
            else:
                cast = UF("cast_" + dtype.name, ElemSort, ElemSort)
                f = lambda *i: cast(snap(*i))
            return SymArr.fresh(self.shape_, f, "elem", dtype)
        if kind == "bv":
            return SymArr.fresh(self.shape_, snap, "bv", dtype)
        nk = sort_of_dtype(dtype)
        if nk == "elem":
            # integer -> float: value-preserving embedding
            return SymArr.fresh(self.shape_, lambda *i: coerce_term(snap(*i), "elem"), "elem", dtype)
        return SymArr.fresh(self.shape_, lambda *i: coerce_term(snap(*i), nk), nk, dtype)

    def fill(self, value):
        t = scalar_term(value, self.kind)
        self._write_all(lambda *i: t)

    @property
    def T(self):
        if self.ndim == 1:
            return self
        addr = self.addr
        return SymArr((self.shape_[1], self.shape_[0]), self.buf, lambda i, j: addr(j, i), self.dtype)

    # -- indexing ---------------------------------------------------------------------------
    def __getitem__(self, idx):
        return getitem(self, idx)

    def __setitem__(self, idx, value):
        setitem(self, idx, value)

    # -- writes -----------------------------------------------------------------------------
    def _write_all(self, newf_logical):
        """overwrite every cell of this view: cell at logical index i gets newf_logical(*i)"""
        if self.contiguous and self.ndim >= 1:
            self.buf.f = newf_logical
            _note_write(self.buf)
            return
        raise Unsupported("whole-array write through a non-trivial view")

    # -- operators --------------------------------------------------------------------------
    def _b(self, o, name, rev=False):
        try:
            return binary(name, o, self) if rev else binary(name, self, o)
        except _NotArrayLike:
            return NotImplemented

    def __add__(self, o): return self._b(o, "add")
    def __radd__(self, o): return self._b(o, "add", True)
    def __sub__(self, o): return self._b(o, "subtract")
    def __rsub__(self, o): return self._b(o, "subtract", True)
    def __mul__(self, o): return self._b(o, "multiply")
    def __rmul__(self, o): return self._b(o, "multiply", True)
    def __floordiv__(self, o): return self._b(o, "floor_divide")
    def __truediv__(self, o): return self._b(o, "true_divide")
    def __rtruediv__(self, o): return self._b(o, "true_divide", True)
    def __rfloordiv__(self, o): return self._b(o, "floor_divide", True)
    def __mod__(self, o): return self._b(o, "remainder")
    def __rmod__(self, o): return self._b(o, "remainder", True)
    def __and__(self, o): return self._b(o, "bitwise_and")
    def __rand__(self, o): return self._b(o, "bitwise_and", True)
    def __or__(self, o): return self._b(o, "bitwise_or")
    def __ror__(self, o): return self._b(o, "bitwise_or", True)
    def __xor__(self, o): return self._b(o, "bitwise_xor")
    def __rxor__(self, o): return self._b(o, "bitwise_xor", True)
    def __lshift__(self, o): return self._b(o, "left_shift")
    def __rshift__(self, o): return self._b(o, "right_shift")
    def __lt__(self, o): return self._b(o, "less")
    def __le__(self, o): return self._b(o, "less_equal")
    def __gt__(self, o): return self._b(o, "greater")
    def __ge__(self, o): return self._b(o, "greater_equal")
    def __eq__(self, o): return self._b(o, "equal")
    def __ne__(self, o): return self._b(o, "not_equal")
    __hash__ = object.__hash__
    def __neg__(self): return unary("negative", self)
    def __invert__(self): return unary("invert", self)
    def __abs__(self): return unary("absolute", self)

    def _inplace(self, o, name):
        r = binary(name, self, o)
        if not all(same_dim(a, b) for a, b in zip(r.shape_, self.shape_)) or r.ndim != self.ndim:
            raise Unsupported("in-place operation that broadcasts the left operand")
        snap = r.snapshot()
        kind = self.kind
        assign_all(self, lambda *i: coerce_term(snap(*i), kind))
        if hasattr(r, "nz_shift"):
            self.nz_shift = r.nz_shift          # positions of a flatnonzero result shifted in place
        return self

    def __iadd__(self, o): return self._inplace(o, "add")
    def __isub__(self, o): return self._inplace(o, "subtract")
    def __imul__(self, o): return self._inplace(o, "multiply")
    def __ifloordiv__(self, o): return self._inplace(o, "floor_divide")
    def __ior__(self, o): return self._inplace(o, "bitwise_or")
    def __iand__(self, o): return self._inplace(o, "bitwise_and")
    def __ixor__(self, o): return self._inplace(o, "bitwise_xor")

    # -- numpy protocols (calls arriving through *real* numpy functions) -----------------------
    def __array_ufunc__(self, ufunc, method, *inputs, **kwargs):
        from . import symnp
        return symnp.dispatch_ufunc(ufunc, method, inputs, kwargs)

    def __array_function__(self, func, types, args, kwargs):
        from . import symnp
        impl = getattr(symnp.SYMNP, func.__name__, None)
        if impl is None or not symnp.SYMNP.is_overridden(func.__name__):
            raise Unsupported(f"numpy function {func.__name__} on symbolic arrays")
        return impl(*args, **kwargs)

    # -- methods mirroring ndarray --------------------------------------------------------------
    def sum(self, axis=None, **kw):
        from . import symnp
        return symnp.SYMNP.sum(self, axis=axis, **kw)

    def any(self, axis=None, **kw):
        from . import symnp
        return symnp.SYMNP.any(self, axis=axis)

    def all(self, axis=None, **kw):
        from . import symnp
        return symnp.SYMNP.all(self, axis=axis)

    def max(self, axis=None, **kw):
        from . import symnp
        return symnp.SYMNP.max(self, axis=axis)

    def min(self, axis=None, **kw):
        from . import symnp
        return symnp.SYMNP.min(self, axis=axis)

    def cumsum(self, axis=None, dtype=None, out=None):
        from . import symnp
        return symnp.SYMNP.cumsum(self, dtype=dtype, out=out)

    def nonzero(self):
        from . import symnp
        return symnp.SYMNP.nonzero(self)

    def tolist(self):
        if cur().ghost.get("generic_iteration") is not None:
            return SymPyList(self)
        raise Unsupported("tolist() of a symbolic array")


class SymPyList:
    """the Python list of an array's elements (ndarray.tolist()), kept as the array it was made from"""

    def __init__(self, arr):
        self.arr = arr


class _NotArrayLike(Exception):
    pass


class PairArr:
    """`a.view(np.uint64)` of a contiguous int32 array [x0, y0, x1, y1, ...]: k 64-bit words, word i = the pair
    (x_i, y_i).  The pairs are kept explicitly as a (k, 2) view; indexing selects pairs; `.view(np.int32)` unpairs and,
    as in numpy, requires a contiguous array (a basic slice with a step other than 1 is not)."""

    def __init__(self, m, contiguous=True, scalar=False):
        self.m = m                      # SymArr of shape (k, 2)
        self.contiguous = contiguous
        self.scalar = scalar
        self.dtype = _np.dtype(_np.uint64)

    @property
    def ndim(self):
        return 0 if self.scalar else 1

    @property
    def shape(self):
        return () if self.scalar else (wrap_dim(self.m.shape_[0]),)

    def __getitem__(self, idx):
        idx = _unproxy(idx)
        if isinstance(idx, slice):
            first, cnt, step = slice_axis(self.m.shape_[0], idx)
            sub = getitem_nd(self.m, (idx, slice(None)))
            # numpy: the sliced array is contiguous iff the step is 1 or at most one element is selected
            contiguous = cur().branch(z3.Or(step == 1, dim_term(cnt) <= 1), "contiguous-slice")
            return PairArr(sub, contiguous=contiguous)
        if isinstance(idx, (SInt, numbers.Integral, _np.integer)) and not isinstance(idx, bool):
            t = I(idx)
            check_index_bounds(t, self.m.shape_[0])
            w = wrap_index(t, self.m.shape_[0])
            msnap = self.m.snapshot()
            row = SymArr.fresh((1, 2), lambda i, j: msnap(w, j), self.m.kind, self.m.dtype)
            return PairArr(row, contiguous=True, scalar=True)
        if idx is Ellipsis:
            return self
        sub = getitem_nd(self.m, (idx, slice(None))) if not isinstance(idx, (list, _np.ndarray, SymArr)) else None
        if sub is None:
            ia = as_operand(idx)[1]
            if ia.kind == "bool":
                nz = nonzero_facts(ia, "pm")
                msnap = self.m.snapshot()
                sub = SymArr.fresh((nz.cnt, 2), lambda i, j: msnap(nz.pos(i), j), self.m.kind, self.m.dtype)
                sub.nz = nz
            else:
                check_index_bounds(ia, self.m.shape_[0])
                isnap, msnap = ia.snapshot(), self.m.snapshot()
                n0 = self.m.shape_[0]
                sub = SymArr.fresh((ia.shape_[0], 2), lambda i, j: msnap(wrap_index(isnap(i), n0), j), self.m.kind, self.m.dtype)
        return PairArr(sub, contiguous=True)

    def copy(self):
        snap = self.m.snapshot()
        return PairArr(SymArr.fresh(self.m.shape_, snap, self.m.kind, self.m.dtype), True, self.scalar)

    def view(self, dtype):
        dtype = npdtype(dtype)
        if dtype.itemsize == 8:
            return self
        if dtype.itemsize != 4:
            raise Unsupported("view of paired words with this item size")
        if not self.contiguous:
            raise ValueError("To change to a dtype of a different size, the last axis must be contiguous")
        flat = self.m.flatten()
        flat.dtype = dtype
        return flat


def _note_write(buf):
    buf.writes += 1
    c = cur_opt()
    if c is not None:
        c.heap_writes.append(buf)


def assign_all(arr, f_logical):
    """arr[...] = values given per logical index (whole view overwritten)"""
    if arr.contiguous:
        arr.buf.f = f_logical
        _note_write(arr.buf)
        return
    # strided / offset 1-D view created by a basic slice with known (first, step): invert the address map
    inv = getattr(arr, "inv", None)
    if inv is None:
        raise Unsupported("write through a view without an inverse address map")
    old = arr.buf.f
    shape = arr.shape_

    def newf(*p):
        hit, li = inv(*p)
        return z3.If(hit, f_logical(*li), old(*p))
    arr.buf.f = newf
    _note_write(arr.buf)


def as_operand(x):
    """-> ('scalar', term, dtype) | ('array', SymArr)"""
    if isinstance(x, SymArr):
        return ("array", x)
    if isinstance(x, (SInt, SBool, SElem, SBV)):
        return ("scalar", x.t, x.dtype)
    if isinstance(x, (bool, _np.bool_)):
        return ("scalar", z3.BoolVal(bool(x)), _np.dtype(bool))
    if isinstance(x, (numbers.Integral, _np.integer)):
        return ("scalar", z3.IntVal(int(x)), getattr(x, "dtype", _np.dtype(_np.int64)))
    if isinstance(x, (float, _np.floating)):
        return ("scalar", ELEM_CONST(float(x)), _np.dtype(_np.float64))
    if isinstance(x, _np.ndarray):
        if x.ndim == 0:
            return as_operand(x.item())
        return ("array", SymArr.from_numpy(x))
    if isinstance(x, (list, tuple)):
        if all(isinstance(e, (numbers.Number, _np.generic)) and not is_sym(e) and not isinstance(e, (SElem, SBV)) for e in x) and len(x) > 0:
            return ("array", SymArr.from_numpy(_np.asarray(x)))
        if len(x) > 0 and all(isinstance(e, (numbers.Number, SInt, SBool, SElem)) for e in x):
            return ("array", from_list(x))
    raise _NotArrayLike(type(x).__name__)


def from_list(xs, dtype=None):
    terms = [scalar_term(v) for v in xs]
    kinds = {kind_of_term(t) for t in terms}
    kind = "elem" if "elem" in kinds else ("int" if "int" in kinds else "bool")
    terms = [coerce_term(t, kind) for t in terms]

    def f(i):
        i = z3.simplify(I(i))
        if z3.is_int_value(i) and 0 <= i.as_long() < len(terms):
            return terms[i.as_long()]
        out = terms[-1] if terms else zero_of(kind)
        for k in range(len(terms) - 2, -1, -1):
            out = z3.If(i == k, terms[k], out)
        return out
    return SymArr.fresh((len(terms),), f, kind, dtype)


def broadcast_shapes(sa, sb):
    """numpy broadcasting on possibly symbolic dims. returns (shape, mapa, mapb): index adapters."""
    na, nb = len(sa), len(sb)
    n = max(na, nb)
    pa = (1,) * (n - na) + tuple(sa)
    pb = (1,) * (n - nb) + tuple(sb)
    out, ma, mb = [], [], []
    for da, db in zip(pa, pb):
        va, vb = dim_value(da), dim_value(db)
        if same_dim(da, db):
            out.append(da); ma.append(True); mb.append(True)
        elif va == 1:
            out.append(db); ma.append(False); mb.append(True)
        elif vb == 1:
            out.append(da); ma.append(True); mb.append(False)
        else:
            # symbolic dims that are not syntactically equal: numpy raises unless they are equal (or 1)
            c = cur()
            ta, tb = dim_term(da), dim_term(db)
            if c.branch(ta == tb, "broadcast"):
                out.append(da); ma.append(True); mb.append(True)
            elif va is None and c.branch(ta == 1, "broadcast1"):
                out.append(db); ma.append(False); mb.append(True)
            elif vb is None and c.branch(tb == 1, "broadcast1"):
                out.append(da); ma.append(True); mb.append(False)
            else:
                raise ValueError("operands could not be broadcast together")

    def adapter(mask, nd):
        off = n - nd
        m = mask[off:]
        def ad(idx):
            sub = idx[off:]
            return tuple(i if keep else z3.IntVal(0) for i, keep in zip(sub, m))
        return ad
    return tuple(out), adapter(ma, na), adapter(mb, nb)


def _registered_mul(name, arr, t):
    """x * s for the registered symbolic divisor s (see div_abstraction) is written MUL(x): keeps the VCs linear"""
    ab = cur().ghost.get("div_abstraction")
    if name == "multiply" and ab is not None and arr.kind == "int" and z3.is_expr(t) and kind_of_term(t) == "int" and ab["divisor"].eq(z3.simplify(t)):
        return ab["MUL"]
    return None


def _registered_divisor(kt):
    ab = cur().ghost.get("div_abstraction")
    if ab is not None and z3.is_expr(kt) and ab["divisor"].eq(z3.simplify(kt)):
        return ab
    return None


def binary(name, a, b, dtype=None):
    oa, ob = as_operand(a), as_operand(b)
    if oa[0] == "scalar" and ob[0] == "scalar":
        return wrap_scalar(apply_binary(name, oa[1], ob[1]), result_dtype_binary(name, oa[2], ob[2]))
    if oa[0] == "scalar":
        arr = ob[1]
        snap = arr.snapshot()
        t = oa[1]
        rd = result_dtype_binary(name, oa[2] if not isinstance(a, (int, bool)) else arr.dtype, arr.dtype)
        mul = _registered_mul(name, arr, t)
        if mul is not None:
            return SymArr.fresh(arr.shape_, lambda *i: mul(snap(*i)), "int", dtype or rd)
        probe = apply_binary(name, t, snap(*[z3.IntVal(0)] * arr.ndim))
        return SymArr.fresh(arr.shape_, lambda *i: apply_binary(name, t, snap(*i)), kind_of_term(probe), dtype or rd)
    if ob[0] == "scalar":
        arr = oa[1]
        snap = arr.snapshot()
        t = ob[1]
        if name == "add" and hasattr(arr, "nz") and z3.is_int_value(z3.simplify(t)) if z3.is_expr(t) and kind_of_term(t) == "int" else False:
            shifted = SymArr.fresh(arr.shape_, lambda *i: snap(*i) + t, "int", arr.dtype)
            shifted.nz, shifted.nz_shift = arr.nz, getattr(arr, "nz_shift", 0) + z3.simplify(t).as_long()
            return shifted
        rd = result_dtype_binary(name, arr.dtype, ob[2] if not isinstance(b, (int, bool)) else arr.dtype)
        mul = _registered_mul(name, arr, t)
        if mul is not None:
            return SymArr.fresh(arr.shape_, lambda *i: mul(snap(*i)), "int", dtype or rd)
        ab = cur().ghost.get("div_abstraction")
        if name == "floor_divide" and ab is not None and arr.kind == "int" and z3.is_expr(t) and ab["divisor"].eq(z3.simplify(t)):
            # division by the registered symbolic positive divisor s in factored form (keeps the VCs linear): DIV(a) is the unique Q
            # with MUL(Q) <= a < MUL(Q+1), MUL(x) standing for x*s (see div_abstraction); decided when the array operation is made
            DIV = ab["DIV"]
            return SymArr.fresh(arr.shape_, lambda *i: DIV(snap(*i)), "int", dtype or rd)
        probe = apply_binary(name, snap(*[z3.IntVal(0)] * arr.ndim), t)
        return SymArr.fresh(arr.shape_, lambda *i: apply_binary(name, snap(*i), t), kind_of_term(probe), dtype or rd)
    A, B = oa[1], ob[1]
    shape, ma, mb = broadcast_shapes(A.shape_, B.shape_)
    sa, sb = A.snapshot(), B.snapshot()
    nd = len(shape)
    probe = apply_binary(name, sa(*ma(tuple([z3.IntVal(0)] * nd))), sb(*mb(tuple([z3.IntVal(0)] * nd))))
    rd = result_dtype_binary(name, A.dtype, B.dtype)
    return SymArr.fresh(shape, lambda *i: apply_binary(name, sa(*ma(i)), sb(*mb(i))), kind_of_term(probe), dtype or rd)


def unary(name, a):
    oa = as_operand(a)
    if oa[0] == "scalar":
        return wrap_scalar(apply_unary(name, oa[1]), oa[2])
    arr = oa[1]
    snap = arr.snapshot()
    probe = apply_unary(name, snap(*[z3.IntVal(0)] * arr.ndim))
    rd = _np.dtype(bool) if kind_of_term(probe) == "bool" else arr.dtype
    return SymArr.fresh(arr.shape_, lambda *i: apply_unary(name, snap(*i)), kind_of_term(probe), rd)


# ---------------------------------------------------------------------------------------------
# quantified facts about arrays


def forall_fact(name, n, body):
    """a fresh boolean  b  with  b => forall i in [0,n). body(i)   and   !b => body fails at a witness"""
    c = cur()
    b = z3.Bool(fresh_name("all_" + name))
    w = z3.Int(fresh_name("w_" + name))
    nt = dim_term(n)
    c.assume_forall(name, lambda i: z3.Implies(z3.And(b, 0 <= i, i < nt), body(i)))
    c.assume(z3.Implies(z3.Not(b), z3.And(0 <= w, w < nt, z3.Not(body(w)))))
    c.add_index(w)
    c.ghost.setdefault("forall_facts", []).append({"name": name, "b": b, "w": w, "n": nt})
    return b


def check_index_bounds(idx_arr_or_term, n, what="index"):
    """numpy raises IndexError for an index outside [-n, n): fork that path."""
    c = cur()
    nt = dim_term(n)
    if isinstance(idx_arr_or_term, SymArr):
        ia = idx_arr_or_term
        if ia.ndim != 1:
            flat = ia.ravel()
        else:
            flat = ia
        snap = flat.snapshot()
        ok = forall_fact("inb", flat.shape_[0], lambda i: z3.And(snap(i) >= -nt, snap(i) < nt))
        if not c.branch(ok, "index-bounds"):
            raise IndexError(f"{what} out of bounds")
    else:
        t = idx_arr_or_term
        if not c.branch(z3.And(t >= -nt, t < nt), "index-bounds"):
            raise IndexError(f"{what} out of bounds")


def wrap_index(t, n):
    nt = dim_term(n)
    return z3.If(t < 0, t + nt, t)


# ---------------------------------------------------------------------------------------------
# indexing


def _slice_parts(s):
    def conv(v):
        if v is None:
            return None
        if isinstance(v, SInt):
            return v
        if isinstance(v, (numbers.Integral, _np.integer)):
            return int(v)
        raise Unsupported(f"slice component {type(v).__name__}")
    return conv(s.start), conv(s.stop), conv(s.step)


def slice_axis(n, s):
    """-> (first term, count dim, step term) for slice s on an axis of length n"""
    start, stop, step = _slice_parts(s)
    if step is not None and is_sym(step):
        if cur().branch(step.t == 0, "slice-step-zero"):
            raise ValueError("slice step cannot be zero")
    elif step == 0:
        raise ValueError("slice step cannot be zero")
    nv = dim_value(n)
    if nv is not None and all(not is_sym(x) for x in (start, stop, step)):
        a, b, c = slice(start, stop, step).indices(nv)
        cnt = len(range(a, b, c))
        return z3.IntVal(a), cnt, z3.IntVal(c)
    nn = n if nv is not None else SInt(dim_term(n))
    first, count, step = pyslice(nn if nv is None else nv, start, stop, step)
    cnt = norm_dim(count)
    ft = I(first)
    c = cur_opt()
    if c is not None and not z3.is_const(ft) and not z3.is_int_value(ft):
        ft = c.prune(ft)
    return ft, cnt, I(step)


def _unproxy(idx):
    if type(idx).__name__ == "SliceProxy":
        return idx.to_slice()
    if isinstance(idx, tuple):
        return tuple(_unproxy(i) for i in idx)
    return idx


def getitem(arr, idx):
    idx = _unproxy(idx)
    if isinstance(idx, tuple):
        if len(idx) == 0:
            return arr
        if len(idx) == 1:
            return getitem(arr, idx[0])
        return getitem_nd(arr, idx)
    if idx is Ellipsis:
        return arr
    if idx is None:
        addr = arr.addr
        return SymArr((1,) + arr.shape_, arr.buf, lambda i, *r: addr(*r), arr.dtype)
    if arr.ndim == 2:
        if isinstance(idx, (list, _np.ndarray)):
            try:
                idx = as_operand(idx)[1]
            except _NotArrayLike:
                raise Unsupported("index list")
        if isinstance(idx, SymArr) and idx.ndim == 1:
            # row gather of a matrix: fresh (len(idx), k) / (#true, k)
            n0, k0 = arr.shape_
            asnap = arr.snapshot()
            if idx.kind == "bool":
                if not same_dim(n0, idx.shape_[0]) and not cur().branch(dim_term(n0) == dim_term(idx.shape_[0]), "mask-len"):
                    raise IndexError("boolean index did not match indexed array along axis 0")
                nz = nonzero_facts(idx, "mg2")
                r = SymArr.fresh((nz.cnt, k0), lambda i, j: asnap(nz.pos(i), j), arr.kind, arr.dtype)
                r.nz = nz
                return r
            if idx.kind != "int":
                raise IndexError("arrays used as indices must be of integer (or boolean) type")
            check_index_bounds(idx, n0)
            isnap = idx.snapshot()
            return SymArr.fresh((idx.shape_[0], k0), lambda i, j: asnap(wrap_index(isnap(i), n0), j), arr.kind, arr.dtype)
        return getitem_nd(arr, (idx, slice(None)))
    n = arr.shape_[0]
    if isinstance(idx, slice):
        first, cnt, step = slice_axis(n, idx)
        addr = arr.addr
        r = SymArr((cnt,), arr.buf, lambda i: addr(first + i * step), arr.dtype)
        sv = z3.simplify(step)
        r.contiguous = False
        if arr.contiguous:
            # inverse address map for writes through this view
            def inv(p, first=first, step=step, cnt=cnt):
                d = p - first
                li = py_floordiv(d, step)
                return z3.And(py_mod(d, step) == 0, li >= 0, li < dim_term(cnt)), (li,)
            r.inv = inv
            r.is_unit_prefix = z3.is_int_value(sv) and sv.as_long() == 1
        elif getattr(arr, "inv", None) is not None and arr.ndim == 1:
            # a slice of a sliced view: compose the inverse address maps (writes through it reach the base buffer)
            outer = arr.inv

            def inv2(p, first=first, step=step, cnt=cnt):
                inside, (la,) = outer(p)
                d = la - first
                li = py_floordiv(d, step)
                return z3.And(inside, py_mod(d, step) == 0, li >= 0, li < dim_term(cnt)), (li,)
            r.inv = inv2
        return r
    if isinstance(idx, (SInt, numbers.Integral, _np.integer)) and not isinstance(idx, bool):
        t = I(idx)
        check_index_bounds(t, n)
        return wrap_scalar(arr.get(wrap_index(t, n)), arr.dtype)
    if isinstance(idx, (list, _np.ndarray)):
        try:
            idx = as_operand(idx)[1]
        except _NotArrayLike:
            raise Unsupported("index list")
    if isinstance(idx, SymArr):
        if idx.kind == "bool":
            return mask_gather(arr, idx)
        if idx.kind != "int":
            raise IndexError("arrays used as indices must be of integer (or boolean) type")
        check_index_bounds(idx, n)
        isnap, asnap = idx.snapshot(), arr.snapshot()
        return SymArr.fresh(idx.shape_, lambda *i: asnap(wrap_index(isnap(*i), n)), arr.kind, arr.dtype)
    raise Unsupported(f"index of type {type(idx).__name__}")


def getitem_nd(arr, idx):
    idx = tuple(i for i in idx)
    if any(i is Ellipsis for i in idx):
        k = [j for j, i in enumerate(idx) if i is Ellipsis][0]
        n_real = len([i for i in idx if i is not None and i is not Ellipsis])
        fill = (slice(None),) * (arr.ndim - n_real)
        idx = idx[:k] + fill + idx[k + 1:]
    # None (newaxis) handling and plain ints/slices per axis
    out_shape, axis_maps = [], []     # axis_maps[j] : function(out index tuple) -> term for source axis j
    src_axis = 0
    builders = []
    for it in idx:
        if it is None:
            out_shape.append(1)
            builders.append(("new", None))
            continue
        if src_axis >= arr.ndim:
            raise IndexError("too many indices for array")
        n = arr.shape_[src_axis]
        if isinstance(it, slice):
            first, cnt, step = slice_axis(n, it)
            out_shape.append(cnt)
            builders.append(("slice", (first, step)))
        elif isinstance(it, (SInt, numbers.Integral, _np.integer)) and not isinstance(it, bool):
            t = I(it)
            check_index_bounds(t, n)
            builders.append(("int", wrap_index(t, n)))
        elif isinstance(it, (SymArr, list, _np.ndarray)):
            return getitem_fancy_nd(arr, idx)
        else:
            raise Unsupported(f"nd index component {type(it).__name__}")
        src_axis += 1
    while src_axis < arr.ndim:
        out_shape.append(arr.shape_[src_axis])
        builders.append(("slice", (z3.IntVal(0), z3.IntVal(1))))
        src_axis += 1
    addr = arr.addr

    def new_addr(*oi):
        oi = list(oi)
        src = []
        k = 0
        for kind, p in builders:
            if kind == "new":
                k += 1
            elif kind == "slice":
                first, step = p
                src.append(first + oi[k] * step)
                k += 1
            else:
                src.append(p)
        return addr(*src)
    if not out_shape:
        return wrap_scalar(arr.buf.f(*new_addr()), arr.dtype)
    r = SymArr(tuple(out_shape), arr.buf, new_addr, arr.dtype)
    r.contiguous = False
    if arr.contiguous and all(k == "slice" for k, _ in builders):
        shp = tuple(out_shape)

        def inv(*p):
            conds, lis = [], []
            for (kind, (first, step)), pa, cnt in zip(builders, p, shp):
                d = pa - first
                li = py_floordiv(d, step)
                conds += [py_mod(d, step) == 0, li >= 0, li < dim_term(cnt)]
                lis.append(li)
            return z3.And(*conds), tuple(lis)
        r.inv = inv
    return r


def getitem_fancy_nd(arr, idx):
    """a[rows_array, cols_array] / a[rows_array, int] etc. on a 2-D array (pointwise fancy indexing)"""
    if arr.ndim != 2 or len(idx) != 2:
        raise Unsupported("fancy nd indexing beyond 2-D")
    ops = []
    for ax, it in enumerate(idx):
        n = arr.shape_[ax]
        if isinstance(it, slice):
            raise Unsupported("mixed slice / fancy indexing")
        o = as_operand(it)
        if o[0] == "scalar":
            check_index_bounds(o[1], n)
            ops.append(("s", wrap_index(o[1], n)))
        else:
            if o[1].kind == "bool":
                raise Unsupported("boolean component in nd fancy index")
            check_index_bounds(o[1], n)
            ops.append(("a", o[1], n))
    arrs = [o[1] for o in ops if o[0] == "a"]
    shape = arrs[0].shape_
    for a2 in arrs[1:]:
        shape, _, _ = broadcast_shapes(shape, a2.shape_)
    snaps = [(o[1].snapshot(), o[2]) if o[0] == "a" else None for o in ops]
    asnap = arr.snapshot()

    def f(*i):
        src = []
        for o, sn in zip(ops, snaps):
            if o[0] == "s":
                src.append(o[1])
            else:
                src.append(wrap_index(sn[0](*i[-o[1].ndim:]), sn[1]))
        return asnap(*src)
    return SymArr.fresh(shape, f, arr.kind, arr.dtype)


# -- boolean masks: the rank / position functions of the flatnonzero contract ------------------


class _NzGlobal:
    """per mask VALUE (closure): rk(i) = number of true cells before i (for every i >= 0), pos(t) = position of the t-th true
    cell.  Shared by all arrays with the same mask closure, whatever their length (flatnonzero of a prefix is a prefix)."""

    def __init__(self, mask_f, name):
        c = cur()
        self.mask = mask_f
        self.pos = z3.Function(fresh_name(name + "_pos"), z3.IntSort(), z3.IntSort())
        self.rk = z3.Function(fresh_name(name + "_rk"), z3.IntSort(), z3.IntSort())
        rk = self.rk
        c.assume(rk(0) == 0)
        c.assume_forall(name + ".rk", lambda i: z3.Implies(0 <= i, z3.And(rk(i + 1) == rk(i) + z3.If(mask_f(i), 1, 0), rk(i) >= 0, rk(i) <= i)))
        c.assume_forall(name + ".rkmono", lambda i, j: z3.Implies(z3.And(0 <= i, i <= j), rk(i) <= rk(j)), arity=2)
        c.add_index(z3.IntVal(0))


class NonzeroFacts:
    """flatnonzero(mask) for a 1-D boolean closure of length n:
    cnt = rk(n) = number of true cells; pos: [0,cnt) -> [0,n) strictly increasing with mask[pos[t]];
    rk(i) = number of true cells before i  (rk(0)=0, rk(i+1)=rk(i)+mask[i], pos[rk(i)]=i if mask[i])."""

    def __init__(self, glob, n, name="nz"):
        c = cur()
        self.n = dim_term(n)
        self.mask, self.pos, self.rk = glob.mask, glob.pos, glob.rk
        self.cnt = glob.rk(self.n)
        n_, pos, rk, cnt, mask_f = self.n, self.pos, self.rk, self.cnt, self.mask
        c.assume(z3.And(cnt >= 0, cnt <= n_))
        c.assume_forall(name + ".pos", lambda t: z3.Implies(z3.And(0 <= t, t < cnt),
                        z3.And(0 <= pos(t), pos(t) < n_, mask_f(pos(t)), rk(pos(t)) == t)))
        c.assume_forall(name + ".posmono", lambda t: z3.Implies(z3.And(0 <= t, t + 1 < cnt), pos(t) < pos(t + 1)))
        c.assume_forall(name + ".posmono2", lambda s_, t: z3.Implies(z3.And(0 <= s_, s_ < t, t < cnt), pos(s_) < pos(t)), arity=2)
        c.assume_forall(name + ".hit", lambda i: z3.Implies(z3.And(0 <= i, i < n_, mask_f(i)), z3.And(rk(i) < cnt, pos(rk(i)) == i)))
        c.add_index(z3.IntVal(0), n_)
        c.ghost.setdefault("nonzero_facts", []).append(self)


_NZ_PROBE = z3.Int("probe!nz")


def nonzero_facts(mask_arr, name="nz"):
    """the flatnonzero contract of a mask; one set of ghost functions per (structurally identical) mask value"""
    flat = mask_arr.ravel()
    snap = flat.snapshot()
    if flat.kind != "bool":
        s2 = snap
        snap = lambda i: coerce_term(s2(i), "bool")
    c = cur()
    t, n = snap(_NZ_PROBE), dim_term(flat.shape_[0])
    gcache = c.ghost.setdefault("cache_nz_global", {})
    if t.get_id() not in gcache:
        gcache[t.get_id()] = (_NzGlobal(snap, name), t)          # the term is kept alive (ids are recycled otherwise)
    glob = gcache[t.get_id()][0]
    cache = c.ghost.setdefault("cache_nz", {})
    key = (t.get_id(), n.get_id())
    if key in cache:
        return cache[key][0]
    nz = NonzeroFacts(glob, flat.shape_[0], name)
    cache[key] = (nz, t, n)
    return nz


def mask_gather(arr, mask):
    if arr.ndim != 1 or mask.ndim != 1:
        raise Unsupported("boolean mask gather on ndim > 1")
    c = cur()
    if not same_dim(arr.shape_[0], mask.shape_[0]):
        if not c.branch(dim_term(arr.shape_[0]) == dim_term(mask.shape_[0]), "mask-len"):
            raise IndexError("boolean index did not match indexed array")
    nz = nonzero_facts(mask, "mg")
    asnap = arr.snapshot()
    r = SymArr.fresh((nz.cnt,), lambda t: asnap(nz.pos(t)), arr.kind, arr.dtype)
    r.nz = nz
    return r


# -- assignment ------------------------------------------------------------------------------


def value_fn(value, shape, kind):
    """closure giving the value assigned at logical index i of a selection with `shape`"""
    o = as_operand(value)
    if o[0] == "scalar":
        t = coerce_term(o[1], kind)
        return lambda *i: t
    v = o[1]
    vs = v.snapshot()
    if v.ndim == len(shape) and all(same_dim(a, b) for a, b in zip(v.shape_, shape)):
        return lambda *i: coerce_term(vs(*i), kind)
    bshape, _, mb = broadcast_shapes(shape, v.shape_)
    if len(bshape) != len(shape) or not all(same_dim(a, b) for a, b in zip(bshape, shape)):
        raise ValueError("could not broadcast input array")
    return lambda *i: coerce_term(vs(*mb(i)), kind)


_PROBES = [z3.Int("probe!a"), z3.Int("probe!b")]


def same_view(a, b):
    """both are views of the same buffer with syntactically identical address maps and shapes"""
    if not (isinstance(a, SymArr) and isinstance(b, SymArr)) or a.buf is not b.buf or a.ndim != b.ndim:
        return False
    if not all(same_dim(x, y) for x, y in zip(a.shape_, b.shape_)):
        return False
    pr = _PROBES[: a.ndim]
    try:
        return all(z3.simplify(I(x)).eq(z3.simplify(I(y))) for x, y in zip(a.addr(*pr), b.addr(*pr)))
    except Exception:
        return False


def setitem(arr, idx, value):
    c = cur()
    idx = _unproxy(idx)
    if isinstance(value, SymArr) and value.buf is arr.buf and isinstance(idx, (slice, tuple)):
        # `a[s] op= x` ends with a[s] = (the view a[s] itself): copying a view onto itself changes nothing
        try:
            sub0 = getitem(arr, idx)
        except Exception:
            sub0 = None
        if sub0 is not None and same_view(sub0, value):
            return
    if idx is Ellipsis or (isinstance(idx, slice) and idx == slice(None)) or (isinstance(idx, tuple) and len(idx) == 0):
        vf = value_fn(value, arr.shape_, arr.kind)
        assign_all(arr, vf)
        return
    if isinstance(idx, tuple) and arr.ndim == 1 and any(i is Ellipsis for i in idx):
        rest = tuple(i for i in idx if i is not Ellipsis)
        if len(rest) <= 1:
            return setitem(arr, rest[0] if rest else Ellipsis, value)       # a[..., k] on a 1-d array is a[k]
    if isinstance(idx, tuple):
        sub = getitem_nd(arr, idx) if len(idx) > 1 else None
        if len(idx) == 1:
            return setitem(arr, idx[0], value)
        if isinstance(sub, SymArr) and sub.buf is arr.buf and getattr(sub, "inv", None) is not None:
            assign_all(sub, value_fn(value, sub.shape_, arr.kind))
            return
        raise Unsupported("nd assignment")
    if arr.ndim != 1:
        sub = getitem(arr, idx)
        if isinstance(sub, SymArr) and sub.buf is arr.buf and getattr(sub, "inv", None) is not None:
            assign_all(sub, value_fn(value, sub.shape_, arr.kind))
            return
        raise Unsupported("assignment into a 2-D array with this index")
    n = arr.shape_[0]
    if isinstance(idx, slice):
        sub = getitem(arr, idx)
        vf = value_fn(value, sub.shape_, arr.kind)
        if getattr(sub, "inv", None) is not None:
            assign_all(sub, vf)
            return
        return write_view(sub, arr, value)
    if isinstance(idx, (SInt, numbers.Integral, _np.integer)) and not isinstance(idx, bool):
        t = I(idx)
        check_index_bounds(t, n)
        p0 = wrap_index(t, n)
        vt = value_fn(value, (), arr.kind)()
        write_cells(arr, lambda p: p == p0, lambda p: vt)
        return
    if isinstance(idx, (list, _np.ndarray)):
        idx = as_operand(idx)[1]
    if isinstance(idx, SymArr) and idx.kind == "bool":
        nz = nonzero_facts(idx, "ms")
        msnap = idx.snapshot()
        o = as_operand(value)
        if o[0] == "scalar":
            vt = coerce_term(o[1], arr.kind)
            write_cells(arr, lambda p: z3.And(0 <= p, p < dim_term(idx.shape_[0]), msnap(p)), lambda p: vt)
        else:
            v = o[1]
            if not same_dim(v.shape_[0], nz.cnt):
                if dim_value(v.shape_[0]) == 1:
                    vs0 = v.snapshot()
                    write_cells(arr, lambda p: z3.And(0 <= p, p < dim_term(idx.shape_[0]), msnap(p)),
                                lambda p: coerce_term(vs0(z3.IntVal(0)), arr.kind))
                    return
                if not c.branch(dim_term(v.shape_[0]) == nz.cnt, "mask-assign-len"):
                    raise ValueError("NumPy boolean array indexing assignment cannot assign mismatching input values")
            vs = v.snapshot()
            write_cells(arr, lambda p: z3.And(0 <= p, p < dim_term(idx.shape_[0]), msnap(p)),
                        lambda p: coerce_term(vs(nz.rk(p)), arr.kind))
        return
    if isinstance(idx, SymArr):
        scatter(arr, idx, value, None)
        return
    raise Unsupported(f"assignment index {type(idx).__name__}")


def write_cells(arr, hit_logical, val_logical):
    """1-D arr: cells at logical positions p with hit(p) get val(p); others unchanged"""
    if arr.contiguous:
        old = arr.buf.f
        arr.buf.f = lambda p: z3.If(hit_logical(p), val_logical(p), old(p))
        _note_write(arr.buf)
        return
    inv = getattr(arr, "inv", None)
    if inv is None:
        raise Unsupported("write through a view without inverse map")
    old = arr.buf.f

    def newf(p):
        inside, (li,) = inv(p)
        return z3.If(z3.And(inside, hit_logical(li)), val_logical(li), old(p))
    arr.buf.f = newf
    _note_write(arr.buf)


def write_view(sub, base, value):
    raise Unsupported("assignment through a general view")


def scatter(arr, idx, value, op):
    """arr[idx] = value  /  arr[idx] op= value  for an integer index array (numpy: last write wins;
    `op=` reads the array once before any write).  Witness form: wit(p) is the last position t with idx[t] == p."""
    c = cur()
    if arr.ndim != 1 or idx.ndim != 1:
        raise Unsupported("scatter on ndim > 1")
    n = arr.shape_[0]
    m = dim_term(idx.shape_[0])
    check_index_bounds(idx, n)
    isnap0 = idx.snapshot()
    isnap = lambda t: wrap_index(isnap0(t), n)
    o = as_operand(value)
    if o[0] == "scalar":
        vt = coerce_term(o[1], arr.kind)
        vf = lambda t: vt
    else:
        v = o[1]
        if v.ndim != 1:
            raise Unsupported("scatter value ndim")
        if not same_dim(v.shape_[0], idx.shape_[0]):
            if dim_value(v.shape_[0]) == 1:
                vs0 = v.snapshot()
                vf = lambda t: coerce_term(vs0(z3.IntVal(0)), arr.kind)
            else:
                if not c.branch(dim_term(v.shape_[0]) == m, "scatter-len"):
                    raise ValueError("shape mismatch: value array could not be broadcast to indexing result")
                vs = v.snapshot()
                vf = lambda t: coerce_term(vs(t), arr.kind)
        else:
            vs = v.snapshot()
            vf = lambda t: coerce_term(vs(t), arr.kind)
    mv = dim_value(idx.shape_[0])
    old = arr.snapshot()
    if mv is not None and mv <= 8:
        # concrete number of writes: sequential semantics, exact
        def newf(p):
            out = old(p)
            for t in range(mv):
                tt = z3.IntVal(t)
                nv = vf(tt) if op is None else apply_binary(op, old(p), vf(tt))
                out = z3.If(isnap(tt) == p, nv, out)
            return out
        _install(arr, newf)
        return
    wit = z3.Function(fresh_name("wit"), z3.IntSort(), z3.IntSort())
    hit = lambda p: z3.And(0 <= wit(p), wit(p) < m, isnap(wit(p)) == p)
    # every written position is hit, and its witness is the last writer
    c.assume_forall("scatter.hit", lambda t: z3.Implies(z3.And(0 <= t, t < m),
                    z3.And(hit(isnap(t)), wit(isnap(t)) >= t)))
    c.ghost.setdefault("scatters", []).append({"wit": wit, "idx": isnap, "m": m, "hit": hit})

    def newf(p):
        nv = vf(wit(p)) if op is None else apply_binary(op, old(p), vf(wit(p)))
        return z3.If(hit(p), nv, old(p))
    _install(arr, newf)


def _install(arr, newf_logical):
    if arr.contiguous:
        arr.buf.f = newf_logical
        _note_write(arr.buf)
        return
    inv = getattr(arr, "inv", None)
    if inv is None:
        raise Unsupported("write through a view without inverse map")
    old = arr.buf.f

    def newf(p):
        inside, (li,) = inv(p)
        return z3.If(inside, newf_logical(li), old(p))
    arr.buf.f = newf
    _note_write(arr.buf)
