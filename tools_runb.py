import sys, collections
sys.path.insert(0,'/verif')
from vf.bounded import common
mod, tier = sys.argv[1], sys.argv[2]
r = common.run('vf.bounded.'+mod, tier, 0)
print({k:v for k,v in r.items() if k not in ('violations','samples','rule','bounds')})
c = collections.Counter(v[1]['sig'] for v in r['violations'])
print(c)
seen=set()
for case, v in r['violations']:
    if v['sig'] not in seen:
        seen.add(v['sig']); print(v['sig'], '::', v['msg'][:300])
