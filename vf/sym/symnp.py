"""`symnp`: the numpy namespace seen by the repository's modules during symbolic execution.

Functions fall through to the real numpy unless a symbolic value is among the arguments (or the
function creates an array of symbolic size).  Each override is the *assumed contract* of the numpy
primitive (DESIGN.md section 5); `vf.audit` compares each of them with the installed numpy on small
concrete inputs.
"""
import numbers
import numpy as _np
import z3

from . import core
from .core import SInt, SBool, Unsupported, cur, as_int_term, fresh_name, is_sym
from .arr import (SymArr, SElem, SBV, I, dim_term, dim_value, same_dim, binary, unary, as_operand, _NotArrayLike,
                  scalar_term, coerce_term, kind_of_term, wrap_scalar, zero_of, sort_of_dtype, forall_fact,
                  nonzero_facts, check_index_bounds, wrap_index, from_list, norm_dim, apply_binary,
                  ElemSort, UF, ELEM_CONST, assign_all, scatter, is_concrete_int, wrap_dim, py_floordiv)


def _symbolic(x):
    if isinstance(x, (SymArr, SInt, SBool, SElem, SBV)):
        return True
    if isinstance(x, (list, tuple)):
        return any(_symbolic(e) for e in x)
    if isinstance(x, (slice, SliceProxy)):
        return any(_symbolic(e) for e in (x.start, x.stop, x.step))
    return False


def any_symbolic(args, kwargs):
    return any(_symbolic(a) for a in args) or any(_symbolic(v) for v in kwargs.values())


class _NdarrayMeta(type):
    def __instancecheck__(cls, obj):
        return isinstance(obj, (SymArr, _np.ndarray))

    def __subclasscheck__(cls, sub):
        return issubclass(sub, (SymArr, _np.ndarray))


class ndarray(metaclass=_NdarrayMeta):
    pass


def to_arr(x, dtype=None):
    if isinstance(x, SymArr):
        return x
    o = as_operand(x)
    if o[0] == "scalar":
        raise _NotArrayLike("scalar")
    return o[1]


_UFUNC_NAMES = {}


class SymNumpy:
    """attribute access falls through to numpy; overrides below"""
    ndarray = ndarray

    def __getattr__(self, name):
        real = getattr(_np, name)
        if isinstance(real, _np.ufunc):
            return SymUfunc(real)
        if callable(real) and not isinstance(real, type):
            def guarded(*a, **k):
                a = tuple(_fix(x) for x in a)
                k = {n: _fix(v) for n, v in k.items()}
                if any_symbolic(a, k):
                    raise Unsupported(f"numpy.{name} is not modelled for symbolic arguments")
                return real(*a, **k)
            guarded.__name__ = name
            return guarded
        return real

    def is_overridden(self, name):
        return name in type(self).__dict__

    # -- conversion / creation ----------------------------------------------------------------
    def asanyarray(self, x, dtype=None, **kw):
        if isinstance(x, SymArr):
            if dtype is not None and _np.dtype(dtype) != x.dtype:
                if x.kind in ("int", "bool") and sort_of_dtype(dtype) == x.kind:
                    r = SymArr(x.shape_, x.buf, x.addr, dtype)
                    r.contiguous = x.contiguous
                    if hasattr(x, "inv"):
                        r.inv = x.inv
                    return r
                return x.astype(dtype)
            return x
        if isinstance(x, (SInt, SBool, SElem)):
            if dtype is not None and isinstance(x, SInt):
                return SInt(x.t, dtype)
            return x
        if _symbolic(x):
            if isinstance(x, (list, tuple)):
                return from_list(list(x), dtype)
        return _np.asanyarray(x, dtype=dtype, **kw)

    asarray = asanyarray

    def array(self, x, dtype=None, **kw):
        if isinstance(x, SymArr):
            return x.copy() if dtype is None else x.astype(dtype)
        if _symbolic(x):
            return self.asanyarray(x, dtype=dtype)
        return _np.array(x, dtype=dtype, **kw)

    def ascontiguousarray(self, x, dtype=None, **kw):
        from .arr import PairArr
        if isinstance(x, PairArr):
            return x if x.contiguous else x.copy()
        if isinstance(x, SymArr):
            return x if x.contiguous else x.copy()
        return _np.ascontiguousarray(x, dtype=dtype, **kw)

    def atleast_1d(self, x):
        from .arr import PairArr
        if isinstance(x, PairArr):
            return PairArr(x.m, x.contiguous, scalar=False) if x.scalar else x
        if isinstance(x, SymArr):
            return x
        if isinstance(x, (SInt, SBool, SElem)):
            return SymArr.from_scalar(x)
        return _np.atleast_1d(x)

    def _filled(self, shape, term_fn, dtype, kind=None):
        if isinstance(shape, (tuple, list)):
            shape = tuple(shape)
        else:
            shape = (shape,)
        if not any(is_sym(d) for d in shape) and not z3.is_expr(term_fn):
            return None
        shape = tuple(norm_dim(d) for d in shape)
        for d in shape:
            if dim_value(d) is None:
                if cur().branch(dim_term(d) < 0, "neg-dim"):
                    raise ValueError("negative dimensions are not allowed")
        return shape

    def full(self, shape, fill_value, dtype=None, **kw):
        if not _symbolic(shape) and not _symbolic(fill_value):
            return _np.full(shape, fill_value, dtype=dtype, **kw)
        shp = shape if isinstance(shape, (tuple, list)) else (shape,)
        shp = tuple(norm_dim(d) for d in shp)
        for d in shp:
            if dim_value(d) is None and cur().branch(dim_term(d) < 0, "neg-dim"):
                raise ValueError("negative dimensions are not allowed")
        if dtype is None:
            dtype = getattr(fill_value, "dtype", _np.int64) if not isinstance(fill_value, (int, bool)) else (
                bool if isinstance(fill_value, bool) else _np.int64)
        kind = sort_of_dtype(dtype) if not isinstance(fill_value, SElem) else "elem"
        if fill_value is None:
            # numpy builds an object array of None; modelled as an abstract element constant
            t = ELEM_CONST(None)
            return SymArr.fresh(shp, lambda *i: t, "elem", object)
        t = scalar_term(fill_value, kind)
        return SymArr.fresh(shp, lambda *i: t, kind, dtype)

    def zeros(self, shape, dtype=float, **kw):
        if not _symbolic(shape):
            return _np.zeros(shape, dtype=dtype, **kw)
        kind = sort_of_dtype(dtype)
        return self.full(shape, 0 if kind != "bool" else False, dtype=dtype)

    def ones(self, shape, dtype=float, **kw):
        if not _symbolic(shape):
            return _np.ones(shape, dtype=dtype, **kw)
        kind = sort_of_dtype(dtype)
        return self.full(shape, 1 if kind != "bool" else True, dtype=dtype)

    def empty(self, shape, dtype=float, **kw):
        if not _symbolic(shape):
            return _np.empty(shape, dtype=dtype, **kw)
        shp = shape if isinstance(shape, (tuple, list)) else (shape,)
        return SymArr.symbolic("empty", tuple(norm_dim(d) for d in shp), sort_of_dtype(dtype), dtype)

    def _like(self, a, dtype, shape, val):
        if not _symbolic(a) and not _symbolic(shape):
            return None
        dtype = a.dtype if dtype is None else dtype
        if shape is None:
            shape = a.shape_ if isinstance(a, SymArr) else _np.shape(a)
        kind = a.kind if (isinstance(a, SymArr) and _np.dtype(dtype) == a.dtype) else sort_of_dtype(dtype)
        shp = shape if isinstance(shape, (tuple, list)) else (shape,)
        shp = tuple(norm_dim(d) for d in shp)
        if val is None:
            return SymArr.symbolic("empty", shp, kind, dtype)
        t = coerce_term(z3.IntVal(val), kind) if kind != "bv" else z3.BitVecVal(val, 64)
        return SymArr.fresh(shp, lambda *i: t, kind, dtype)

    def zeros_like(self, a, dtype=None, shape=None, **kw):
        r = self._like(a, dtype, shape, 0)
        return r if r is not None else _np.zeros_like(a, dtype=dtype, shape=shape, **kw)

    def ones_like(self, a, dtype=None, shape=None, **kw):
        r = self._like(a, dtype, shape, 1)
        return r if r is not None else _np.ones_like(a, dtype=dtype, shape=shape, **kw)

    def empty_like(self, a, dtype=None, shape=None, **kw):
        r = self._like(a, dtype, shape, None)
        return r if r is not None else _np.empty_like(a, dtype=dtype, shape=shape, **kw)

    def arange(self, *args, dtype=None, **kw):
        if not any_symbolic(args, {}):
            return _np.arange(*args, dtype=dtype, **kw)
        if len(args) == 1:
            start, stop = 0, args[0]
        elif len(args) == 2:
            start, stop = args
        else:
            raise Unsupported("arange with step")
        st, sp = I(start), I(stop)
        n = z3.simplify(z3.If(sp - st > 0, sp - st, 0))
        return SymArr.fresh((n,), lambda i: st + i, "int", dtype or _np.int64)

    # -- element-wise ---------------------------------------------------------------------------
    def where(self, c, x=None, y=None):
        if not any_symbolic((c, x, y), {}):
            return _np.where(c, x, y)
        if x is None:
            raise Unsupported("np.where with one argument")
        oc, ox, oy = as_operand(c), as_operand(x), as_operand(y)
        if all(o[0] == "scalar" for o in (oc, ox, oy)):
            kx, ky = kind_of_term(ox[1]), kind_of_term(oy[1])
            k = "elem" if "elem" in (kx, ky) else ("int" if "int" in (kx, ky) else kx)
            return wrap_scalar(z3.If(coerce_term(oc[1], "bool"), coerce_term(ox[1], k), coerce_term(oy[1], k)))
        from .arr import broadcast_shapes
        shape = ()
        parts = []
        for o in (oc, ox, oy):
            if o[0] == "array":
                shape, _, _ = broadcast_shapes(shape, o[1].shape_) if shape != () else (o[1].shape_, None, None)
        fns = []
        for o in (oc, ox, oy):
            if o[0] == "scalar":
                t = o[1]
                fns.append(lambda i, t=t: t)
            else:
                _, _, mb = broadcast_shapes(shape, o[1].shape_)
                sn = o[1].snapshot()
                fns.append(lambda i, sn=sn, mb=mb: sn(*mb(i)))
        z = tuple([z3.IntVal(0)] * len(shape))
        kx, ky = kind_of_term(fns[1](z)), kind_of_term(fns[2](z))
        order = ["elem", "bv", "int", "bool"]
        k = min((kx, ky), key=order.index)
        dt = None
        for o in (ox, oy):
            if o[0] == "array":
                dt = o[1].dtype if dt is None else _np.result_type(dt, o[1].dtype)
        if dt is None:
            dt = _np.result_type(ox[2], oy[2])
        f = lambda *i: z3.If(coerce_term(fns[0](i), "bool"), coerce_term(fns[1](i), k), coerce_term(fns[2](i), k))
        return SymArr.fresh(shape, f, k, dt)

    def abs(self, x): return unary("absolute", x)
    absolute = abs
    def sign(self, x): return unary("sign", x)
    def logical_not(self, x): return unary("logical_not", x)

    # -- reductions -----------------------------------------------------------------------------
    def all(self, x, axis=None, **kw):
        if not _symbolic(x):
            return _np.all(x, axis=axis, **kw)
        if isinstance(x, (SBool, SInt)):
            return SBool(coerce_term(x.t, "bool"))
        x = to_arr(x)
        if axis is not None and x.ndim > 1:
            raise Unsupported("np.all with axis on 2-D")
        flat = x.ravel()
        snap = flat.snapshot()
        nv = dim_value(flat.shape_[0])
        if nv is not None and nv <= 8:
            return SBool(z3.simplify(z3.And([coerce_term(snap(z3.IntVal(i)), "bool") for i in range(nv)] + [z3.BoolVal(True)])))
        return SBool(forall_fact("npall", flat.shape_[0], lambda i: coerce_term(snap(i), "bool")))

    def any(self, x, axis=None, **kw):
        if not _symbolic(x):
            return _np.any(x, axis=axis, **kw)
        if isinstance(x, (SBool, SInt)):
            return SBool(coerce_term(x.t, "bool"))
        x = to_arr(x)
        if axis is not None and x.ndim > 1:
            raise Unsupported("np.any with axis on 2-D")
        flat = x.ravel()
        snap = flat.snapshot()
        nv = dim_value(flat.shape_[0])
        if nv is not None and nv <= 8:
            return SBool(z3.simplify(z3.Or([coerce_term(snap(z3.IntVal(i)), "bool") for i in range(nv)] + [z3.BoolVal(False)])))
        return SBool(z3.Not(forall_fact("npany", flat.shape_[0], lambda i: z3.Not(coerce_term(snap(i), "bool")))))

    def _extremum(self, x, axis, is_min):
        if isinstance(x, (SInt,)):
            return x
        x = to_arr(x)
        if x.ndim != 1 or axis not in (None, 0, -1):
            raise Unsupported("min/max on ndim > 1")
        if x.kind != "int":
            raise Unsupported("min/max of non-integer symbolic array")
        c = cur()
        n = dim_term(x.shape_[0])
        if c.branch(n == 0, "empty-extremum"):
            raise ValueError("zero-size array to reduction operation which has no identity")
        snap = x.snapshot()
        m = z3.Int(fresh_name("min" if is_min else "max"))
        w = z3.Int(fresh_name("argext"))
        c.assume(z3.And(0 <= w, w < n, snap(w) == m))
        c.add_index(w)
        if is_min:
            c.assume_forall("min.lb", lambda i: z3.Implies(z3.And(0 <= i, i < n), m <= snap(i)))
        else:
            c.assume_forall("max.ub", lambda i: z3.Implies(z3.And(0 <= i, i < n), m >= snap(i)))
        return SInt(m, x.dtype)

    def min(self, x, axis=None, **kw):
        if not _symbolic(x):
            return _np.min(x, axis=axis, **kw)
        return self._extremum(x, axis, True)

    def max(self, x, axis=None, **kw):
        if not _symbolic(x):
            return _np.max(x, axis=axis, **kw)
        return self._extremum(x, axis, False)

    amin, amax = min, max

    def sum(self, x, axis=None, dtype=None, **kw):
        if not _symbolic(x):
            return _np.sum(x, axis=axis, dtype=dtype, **kw)
        x = to_arr(x)
        if x.ndim != 1:
            raise Unsupported("sum on ndim > 1")
        from .theory import prefix_sum
        ps = prefix_sum(x)
        return SInt(ps(dim_term(x.shape_[0])), _np.int64)

    def cumsum(self, x, axis=None, dtype=None, out=None):
        if not _symbolic(x):
            return _np.cumsum(x, axis=axis, dtype=dtype, out=out)
        x = to_arr(x)
        if x.ndim != 1:
            raise Unsupported("cumsum on ndim > 1")
        from .theory import prefix_sum
        ps = prefix_sum(x)
        f = lambda i: ps(i + 1)
        if out is not None:
            assign_all(out, f)
            return out
        rd = dtype or (x.dtype if x.dtype.kind != "b" else _np.int64)
        return SymArr.fresh(x.shape_, f, "int" if x.kind in ("int", "bool") else x.kind, rd)

    def diff(self, x, n=1, **kw):
        if not _symbolic(x):
            return _np.diff(x, n=n, **kw)
        x = to_arr(x)
        if x.ndim != 1 or n != 1:
            raise Unsupported("diff beyond 1-D, n=1")
        snap = x.snapshot()
        m = z3.simplify(z3.If(dim_term(x.shape_[0]) >= 1, dim_term(x.shape_[0]) - 1, 0))
        return SymArr.fresh((m,), lambda i: apply_binary("subtract", snap(i + 1), snap(i)), x.kind, x.dtype)

    def flatnonzero(self, x):
        if not _symbolic(x):
            return _np.flatnonzero(x)
        x = to_arr(x)
        nz = nonzero_facts(x, "fnz")
        r = SymArr.fresh((nz.cnt,), lambda t: nz.pos(t), "int", _np.int64)
        r.nz = nz
        return r

    def nonzero(self, x):
        if not _symbolic(x):
            return _np.nonzero(x)
        x = to_arr(x)
        if x.ndim == 1:
            return (self.flatnonzero(x),)
        raise Unsupported("nonzero on 2-D")

    def searchsorted(self, a, v, side="left", sorter=None):
        if not any_symbolic((a, v), {}):
            return _np.searchsorted(a, v, side=side, sorter=sorter)
        from .theory import searchsorted
        return searchsorted(to_arr(a), v, side)

    def unique(self, ar, return_index=False, return_inverse=False, return_counts=False, axis=None, **kw):
        if not any_symbolic((ar,), {}):
            return _np.unique(ar, return_index=return_index, return_inverse=return_inverse, return_counts=return_counts, axis=axis, **kw)
        if return_inverse or axis is not None or kw:
            raise Unsupported("np.unique beyond (values[, first index][, counts]) of a 1-D array")
        from .theory import unique_with_index
        vals, idxs, counts = unique_with_index(to_arr(ar))
        out = (vals,) + ((idxs,) if return_index else ()) + ((counts,) if return_counts else ())
        return out if len(out) > 1 else vals

    def argsort(self, a, axis=-1, kind=None, order=None, stable=None):
        """np.argsort of a 1-D integer array: a permutation perm of [0, n) (ghost inverse inv) with a[perm] non-decreasing
        (adjacent form; the pairwise form is lemma adjacent-sorted=>sorted); ties keep their input order for the stable kinds."""
        if not any_symbolic((a,), {}):
            return _np.argsort(a, axis=axis, kind=kind, order=order)
        from .theory import argsort
        return argsort(to_arr(a), stable=bool(stable) or kind in ("mergesort", "stable"))

    def bincount(self, x, weights=None, minlength=0):
        if not any_symbolic((x, weights, minlength), {}):
            return _np.bincount(x, weights=weights, minlength=minlength)
        from .theory import bincount
        return bincount(to_arr(x), weights, minlength)

    def pad(self, a, pad_width, mode="constant", constant_values=0, **kw):
        if not any_symbolic((a, pad_width, constant_values), {}):
            return _np.pad(a, pad_width, mode=mode, constant_values=constant_values, **kw)
        a = to_arr(a)
        if a.ndim != 1 or mode != "constant":
            raise Unsupported("pad beyond 1-D constant")
        if isinstance(pad_width, (tuple, list)):
            lo, hi = pad_width
        else:
            lo = hi = pad_width
        if constant_values is None:
            raise TypeError("int() argument must be a string, a bytes-like object or a real number, not 'NoneType'")
        ct = scalar_term(constant_values, a.kind)
        lo_t, hi_t = I(lo), I(hi)
        n = dim_term(a.shape_[0])
        snap = a.snapshot()
        total = z3.simplify(n + lo_t + hi_t)
        return SymArr.fresh((total,), lambda i: z3.If(z3.And(i >= lo_t, i < lo_t + n), snap(i - lo_t), ct), a.kind, a.dtype)

    def insert(self, a, obj, values, axis=None):
        if not any_symbolic((a, obj, values), {}):
            return _np.insert(a, obj, values, axis=axis)
        a = to_arr(a)
        if a.ndim != 1 or not (is_concrete_int(obj) and int(obj) == 0):
            raise Unsupported("insert other than at position 0 of a 1-D array")
        ov = as_operand(values)
        snap = a.snapshot()
        n = dim_term(a.shape_[0])
        if ov[0] == "scalar":
            t = coerce_term(ov[1], a.kind)
            return SymArr.fresh((z3.simplify(n + 1),), lambda i: z3.If(i == 0, t, snap(i - 1)), a.kind, a.dtype)
        v = ov[1]
        k = dim_term(v.shape_[0])
        vs = v.snapshot()
        return SymArr.fresh((z3.simplify(n + k),), lambda i: z3.If(i < k, coerce_term(vs(i), a.kind), snap(i - k)), a.kind, a.dtype)

    def append(self, a, values, axis=None):
        if not any_symbolic((a, values), {}):
            return _np.append(a, values, axis=axis)
        return self.concatenate([to_arr(a).ravel(), self.atleast_1d(self.asanyarray(values)).ravel() if not isinstance(values, SymArr) else values.ravel()])

    def concatenate(self, arrays, axis=0, dtype=None, **kw):
        arrays = list(arrays)
        if not any_symbolic(arrays, {}):
            return _np.concatenate(arrays, axis=axis, dtype=dtype, **kw)
        arrs = []
        for a in arrays:
            if isinstance(a, (SInt, SBool, SElem)):
                raise ValueError("zero-dimensional arrays cannot be concatenated")
            arrs.append(to_arr(a) if not (isinstance(a, (list, tuple)) and len(a) == 0) else None)
        arrs = [a for a in arrs if a is not None]
        if any(a.ndim != 1 for a in arrs):
            return self._concatenate2d(arrs, axis)
        order = ["elem", "bv", "int", "bool"]
        kind = min((a.kind for a in arrs), key=order.index)
        snaps = [a.snapshot() for a in arrs]
        lens = [dim_term(a.shape_[0]) for a in arrs]
        offs = [z3.IntVal(0)]
        for l in lens:
            offs.append(z3.simplify(offs[-1] + l))
        dt = arrs[0].dtype
        for a in arrs[1:]:
            dt = _np.result_type(dt, a.dtype)

        def f(i):
            out = coerce_term(snaps[-1](i - offs[len(arrs) - 1]), kind)
            for k in range(len(arrs) - 2, -1, -1):
                out = z3.If(i < offs[k + 1], coerce_term(snaps[k](i - offs[k]), kind), out)
            return out
        return SymArr.fresh((offs[-1],), f, kind, dtype or dt)

    def _concatenate2d(self, arrs, axis):
        if axis == 0 and all(a.ndim == 2 for a in arrs):
            w = arrs[0].shape_[1]
            for a in arrs[1:]:
                if not same_dim(a.shape_[1], w) and not cur().branch(dim_term(a.shape_[1]) == dim_term(w), "concat-cols"):
                    raise ValueError("all the input array dimensions except for the concatenation axis must match exactly")
            order = ["elem", "bv", "int", "bool"]
            kind = min((a.kind for a in arrs), key=order.index)
            snaps = [a.snapshot() for a in arrs]
            offs = [z3.IntVal(0)]
            for a in arrs:
                offs.append(z3.simplify(offs[-1] + dim_term(a.shape_[0])))

            def f0(i, j):
                out = coerce_term(snaps[-1](i - offs[len(arrs) - 1], j), kind)
                for k in range(len(arrs) - 2, -1, -1):
                    out = z3.If(i < offs[k + 1], coerce_term(snaps[k](i - offs[k], j), kind), out)
                return out
            return SymArr.fresh((offs[-1], w), f0, kind, arrs[0].dtype)
        if axis not in (-1, 1) or any(a.ndim != 2 for a in arrs):
            raise Unsupported("2-D concatenate other than along the last axis")
        n = arrs[0].shape_[0]
        for a in arrs[1:]:
            if not same_dim(a.shape_[0], n) and not cur().branch(dim_term(a.shape_[0]) == dim_term(n), "concat-rows"):
                raise ValueError("all the input array dimensions except for the concatenation axis must match exactly")
        order = ["elem", "bv", "int", "bool"]
        kind = min((a.kind for a in arrs), key=order.index)
        snaps = [a.snapshot() for a in arrs]
        widths = [dim_term(a.shape_[1]) for a in arrs]
        offs = [z3.IntVal(0)]
        for w in widths:
            offs.append(z3.simplify(offs[-1] + w))

        def f(i, j):
            out = coerce_term(snaps[-1](i, j - offs[len(arrs) - 1]), kind)
            for k in range(len(arrs) - 2, -1, -1):
                out = z3.If(j < offs[k + 1], coerce_term(snaps[k](i, j - offs[k]), kind), out)
            return out
        return SymArr.fresh((n, offs[-1]), f, kind, arrs[0].dtype)

    def hstack(self, tup, **kw):
        tup = list(tup)
        if not any_symbolic(tup, {}):
            return _np.hstack(tup, **kw)
        if all(isinstance(a, SymArr) and a.ndim == 1 for a in tup):
            return self.concatenate(tup)
        return self._concatenate2d([to_arr(a) for a in tup], 1)

    def delete(self, a, obj, axis=None):
        """np.delete(a, idx) for idx = flatnonzero(mask) [+ constant]: the elements at the other positions, in order
        (boolean gather with the complement mask); an index outside [0, len(a)) is refused; len = len(a) - len(idx)"""
        if not any_symbolic((a, obj), {}):
            return _np.delete(a, obj, axis=axis)
        a = to_arr(a)
        nz = getattr(obj, "nz", None)
        if a.ndim != 1 or nz is None:
            raise Unsupported("np.delete other than with positions obtained from flatnonzero")
        sh = getattr(obj, "nz_shift", 0)
        c = cur()
        n = dim_term(a.shape_[0])
        if c.branch(z3.And(nz.cnt > 0, z3.Or(nz.pos(nz.cnt - 1) + sh >= n, nz.pos(0) + sh < -n)), "delete-bounds"):
            raise IndexError("index out of bounds for np.delete")
        if sh < 0 and c.branch(z3.And(nz.cnt > 0, nz.pos(0) + sh < 0), "delete-negative"):
            raise Unsupported("np.delete with negative (wrapping) positions")
        keep = SymArr.fresh((n,), lambda i: z3.Not(z3.And(0 <= i - sh, i - sh < nz.n, nz.mask(i - sh))), "bool", bool)
        from .arr import mask_gather
        r = mask_gather(a, keep)
        c.assume(r.nz.cnt == n - nz.cnt)           # every deleted position is distinct and inside the array
        return r

    def repeat(self, a, repeats, axis=None):
        if not any_symbolic((a, repeats), {}):
            return _np.repeat(a, repeats, axis=axis)
        raise Unsupported("np.repeat")

    def mean(self, x, *a, **k):
        # defined (rather than left to __getattr__) so that `func == np.mean` in an __array_function__ dispatch compares equal
        if not any_symbolic((x,) + a, k):
            return _np.mean(x, *a, **k)
        if hasattr(x, "__array_function__") and not isinstance(x, SymArr):
            return x.__array_function__(self.mean, (type(x),), (x,) + a, k)
        raise Unsupported("numpy.mean of a symbolic array (float arithmetic)")

    def issubdtype(self, a, b):
        if isinstance(a, (SymArr, SInt, SBool, SElem)):
            a = a.dtype
        elif hasattr(a, "dtype") and not isinstance(a, (_np.dtype, type)):
            a = a.dtype
        return _np.issubdtype(a, b)

    def result_type(self, *a):
        return _np.result_type(*[x.dtype if isinstance(x, (SymArr, SInt, SBool, SElem)) else x for x in a])

    def ndim(self, x):
        if isinstance(x, (SymArr, SInt, SBool, SElem)):
            return x.ndim
        return _np.ndim(x)

    def shape(self, x):
        if isinstance(x, (SymArr, SInt, SBool, SElem)):
            return x.shape
        return _np.shape(x)



class SymUfunc:
    """wrapper around a real ufunc: equal to and hashing like the real one (dictionary keys in the
    repository are real ufuncs), symbolic when a symbolic operand is present"""

    def __init__(self, real):
        self.real = real
        self.__name__ = real.__name__

    def __eq__(self, o):
        return self.real is (o.real if isinstance(o, SymUfunc) else o)

    def __ne__(self, o):
        return not self.__eq__(o)

    def __hash__(self):
        return hash(self.real)

    def __repr__(self):
        return repr(self.real)

    @property
    def identity(self):
        return self.real.identity

    @property
    def nin(self):
        return self.real.nin

    def __call__(self, *a, **k):
        if not any_symbolic(a, k):
            return self.real(*a, **k)
        return dispatch_ufunc(self.real, "__call__", a, k)

    def reduce(self, *a, **k):
        if not any_symbolic(a, k):
            return self.real.reduce(*a, **k)
        return dispatch_ufunc(self.real, "reduce", a, k)

    def accumulate(self, *a, **k):
        if not any_symbolic(a, k):
            return self.real.accumulate(*a, **k)
        return dispatch_ufunc(self.real, "accumulate", a, k)

    def reduceat(self, *a, **k):
        if not any_symbolic(a, k):
            return self.real.reduceat(*a, **k)
        return dispatch_ufunc(self.real, "reduceat", a, k)

    def at(self, *a, **k):
        if not any_symbolic(a, k):
            return self.real.at(*a, **k)
        return dispatch_ufunc(self.real, "at", a, k)


def _has_override(x):
    # objects that implement __array_ufunc__ themselves (RaggedArray, RunLengthArray, ...)
    return (not isinstance(x, (SymArr, _np.ndarray, _np.generic, SInt, SBool, SElem))
            and getattr(type(x), "__array_ufunc__", None) is not None)


def dispatch_ufunc(ufunc, method, inputs, kwargs):
    name = ufunc.__name__
    # numpy's dispatch protocol: an operand with its own __array_ufunc__ takes over
    for x in inputs:
        if _has_override(x):
            r = type(x).__array_ufunc__(x, ufunc, method, *inputs, **kwargs)
            if r is not NotImplemented:
                return r
    out = kwargs.pop("out", None)
    if isinstance(out, tuple):
        out = out[0] if len(out) == 1 else out
    dtype = kwargs.pop("dtype", None)
    kwargs.pop("axis", None) if method != "reduce" else None
    if method == "__call__":
        if ufunc.nin == 1:
            r = unary(name, inputs[0])
        elif ufunc.nin == 2:
            try:
                r = binary(name, inputs[0], inputs[1])
            except _NotArrayLike as e:
                raise Unsupported(f"operand of type {e}")
        else:
            raise Unsupported("ufunc with more than two inputs")
        if out is not None:
            snap = r.snapshot()
            assign_all(out, lambda *i: coerce_term(snap(*i), out.kind))
            return out
        return r
    from . import theory
    if method == "accumulate":
        return theory.accumulate(name, to_arr(inputs[0]), out=out, dtype=dtype)
    if method == "reduceat":
        return theory.reduceat(ufunc, to_arr(inputs[0]), inputs[1])
    if method == "reduce":
        return theory.reduce_(ufunc, to_arr(inputs[0]), kwargs.get("axis", 0))
    if method == "at":
        # unbuffered in-place accumulation  target[idx] (+)= values, one index after the other (numpy's documented semantics):
        #   acc(k, 0) = target[k];  acc(k, j+1) = U(acc(k, j), values[j]) if idx[j] == k else acc(k, j);  target'[k] = acc(k, len(idx))
        # recorded as a ghost event as well (callers' dispatch proofs look at it)
        target, idx = inputs[0], inputs[1]
        vals = inputs[2] if len(inputs) > 2 else None
        c = cur()
        ev = {"ufunc": name, "target": target, "target_snapshot": target.snapshot() if isinstance(target, SymArr) else None, "idx": idx, "values": vals}
        c.ghost.setdefault("ufunc_at", []).append(ev)
        if isinstance(target, SymArr):
            vkind = vals.kind if isinstance(vals, SymArr) else (kind_of_term(scalar_term(vals)) if vals is not None else None)
            compatible = vkind is not None and not (vkind == "elem" and target.kind != "elem") and not (vkind == "bv") == (target.kind != "bv")
            if target.ndim == 1 and isinstance(idx, SymArr) and idx.ndim == 1 and idx.kind == "int" and vals is not None and compatible:
                from .arr import check_index_bounds, wrap_index, as_operand
                check_index_bounds(idx, target.shape_[0])
                old = ev["target_snapshot"]
                isnap = idx.snapshot()
                ov = as_operand(vals)
                vsnap = (lambda j: ov[1]) if ov[0] == "scalar" else ov[1].snapshot()
                m = dim_term(idx.shape_[0])
                n_t = target.shape_[0]
                esort = old(z3.IntVal(0)).sort()
                acc = z3.Function(fresh_name("at_acc"), z3.IntSort(), z3.IntSort(), esort)
                kind = target.kind
                c.assume_forall("ufunc.at.base", lambda k: acc(k, 0) == old(k))
                c.assume_forall("ufunc.at.step", lambda k, j: z3.Implies(z3.And(0 <= j, j < m),
                                acc(k, j + 1) == z3.If(wrap_index(isnap(j), n_t) == k, coerce_term(apply_binary(name, acc(k, j), coerce_term(vsnap(j), kind)), kind), acc(k, j))), arity=2)
                assign_all(target, lambda k: acc(k, m))
                ev["acc"], ev["m"] = acc, m
            else:
                hv = z3.Function(fresh_name("at_result"), *([z3.IntSort()] * target.ndim + [target.snapshot()(*[z3.IntVal(0)] * target.ndim).sort()]))
                assign_all(target, lambda *i: hv(*i))
        return None
    raise Unsupported(f"ufunc method {method}")


def _fix(v):
    return int if v is SymIntType else v


def _wrap_dtype_fix(fn):
    def w(*a, **k):
        a = tuple(_fix(x) for x in a)
        k = {n: _fix(v) for n, v in k.items()}
        return fn(*a, **k)
    w.__name__ = getattr(fn, "__name__", "f")
    return w



# ---------------------------------------------------------------------------------------------
# builtins rebound in the repository's module namespaces during symbolic execution


def sym_len(x):
    if isinstance(x, SymArr):
        return x.sym_len()
    m = getattr(type(x), "__len__", None)
    if m is None:
        raise TypeError(f"object of type '{type(x).__name__}' has no len()")
    if isinstance(x, (list, tuple, dict, str, set, range, bytes, _np.ndarray)):
        return len(x)
    return m(x)        # repository classes may return a symbolic length


def sym_int(x, *a):
    if isinstance(x, SInt):
        return x
    if isinstance(x, SBool):
        return SInt(as_int_term(x))
    if isinstance(x, SymArr):
        if x.ndim == 0:
            return x.item()
        # numpy 2.5: int() of an array with ndim > 0 raises TypeError
        raise TypeError("only 0-dimensional arrays can be converted to Python scalars")
    if isinstance(x, SElem):
        raise Unsupported("int() of an abstract element")
    return int(x, *a)


class _SymIntMeta(type):
    def __instancecheck__(cls, obj):
        return isinstance(obj, int)

    def __call__(cls, *a, **k):
        return sym_int(*a, **k)


class SymIntType(metaclass=_SymIntMeta):
    """stands for the builtin `int` (callable and usable in isinstance / dtype=int)"""


def sym_abs(x):
    if isinstance(x, SymArr):
        return unary("absolute", x)
    return abs(x)


def sym_max(*a, **k):
    if len(a) == 1:
        seq = list(a[0])
    else:
        seq = list(a)
    if any(is_sym(x) for x in seq):
        from .core import smax
        out = seq[0]
        for x in seq[1:]:
            out = smax(out, x)
        return out
    return max(*a, **k)


def sym_min(*a, **k):
    seq = list(a[0]) if len(a) == 1 else list(a)
    if any(is_sym(x) for x in seq):
        from .core import smin
        out = seq[0]
        for x in seq[1:]:
            out = smin(out, x)
        return out
    return min(*a, **k)


def sym_sum(it, start=0):
    out = start
    for x in it:
        out = out + x
    return out


def sym_range(*a):
    if any(is_sym(x) for x in a):
        raise Unsupported("range() over a symbolic bound (a loop needing an invariant)")
    return range(*a)


for _n, _f in list(SymNumpy.__dict__.items()):
    if callable(_f) and not _n.startswith("__") and _n not in ("ndarray", "is_overridden"):
        setattr(SymNumpy, _n, _wrap_dtype_fix(_f))
SYMNP = SymNumpy()

import builtins as _builtins


class SliceProxy:
    """slice with symbolic components whose .indices() is CPython's PySlice_AdjustIndices as the spec function
    `pyslice` (an assumed contract of the builtin, audited against slice.indices)"""

    def __init__(self, start, stop, step):
        self.start, self.stop, self.step = start, stop, step

    def to_slice(self):
        return _builtins.slice(self.start, self.stop, self.step)

    def indices(self, n):
        from .arr import pyslice
        step = 1 if self.step is None else self.step
        if is_sym(step):
            if cur().branch(as_int_term(step) == 0, "slice-step-zero"):
                raise ValueError("slice step cannot be zero")
        elif step == 0:
            raise ValueError("slice step cannot be zero")
        first, count, step = pyslice(n, self.start, self.stop, step)
        # CPython returns (start, stop, step) with the stop clamped, not the count: recompute stop
        from .core import ite, smin, smax
        pos = step > 0
        if self.stop is None:
            last = ite(pos, n, -1)
        else:
            last = ite(self.stop < 0, ite(pos, smax(self.stop + n, 0), smax(self.stop + n, -1)),
                       ite(pos, smin(self.stop, n), smin(self.stop, n - 1)))
        return first, last, step

    def __repr__(self):
        return f"SliceProxy({self.start}, {self.stop}, {self.step})"


class _SliceMeta(type):
    def __instancecheck__(cls, obj):
        return isinstance(obj, (_builtins.slice, SliceProxy))

    def __call__(cls, *a):
        if len(a) == 1:
            a = (None, a[0], None)
        elif len(a) == 2:
            a = (a[0], a[1], None)
        # always a proxy: its .indices() accepts a symbolic length (the builtin's does not)
        return SliceProxy(*a)


class SymSliceType(metaclass=_SliceMeta):
    """stands for the builtin `slice`"""


REBOUND_BUILTINS = {"slice": SymSliceType, "len": sym_len, "int": SymIntType, "abs": sym_abs, "max": sym_max, "min": sym_min,
                    "sum": sym_sum, "range": sym_range}
