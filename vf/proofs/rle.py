"""C14 / C15 / C16: contracts of the 1-D RunLengthArray.

Abstract view: Dense(rla)(p) = values[run(p)], run(p) = the unique t with events[t] <= p < events[t+1];
invariant Canon: events[0] = 0, strictly increasing, len(events) = len(values) + 1.
Element values are abstract (sort Elem); numpy's `!=` on them is the uninterpreted relation U_not_equal.
"""
import numpy as np
import z3

from .base import Family, register, model_int
from .colslice import SL_KINDS, slice_components, model_slice
from ..sym.core import SInt, SBool, cur, fresh_name
from ..sym.arr import SymArr, I, dim_term, pyslice, UF, ElemSort, apply_binary, apply_unary, ELEM_CONST


class RLA:
    def __init__(self, m, E, V, obj):
        self.m, self.E, self.V, self.obj = m, E, V, obj     # m runs; events E(0..m); values V(0..m-1)

    @property
    def n(self):
        return self.E(self.m)


def sym_rla(ctx, name="rla", kind="elem", nonempty=True):
    """a canonical RunLengthArray with m >= 1 runs (m >= 0 if not nonempty)"""
    from npstructures.runlengtharray import RunLengthArray
    m = z3.Int(fresh_name(name + "_m"))
    ctx.assume(m >= (1 if nonempty else 0))
    ev = SymArr.symbolic(name + "_E", z3.simplify(m + 1), "int", np.int64, assume_len=False)
    va = SymArr.symbolic(name + "_V", m, kind, np.int64, assume_len=False)
    E, V = ev.fn, va.fn
    ctx.assume(E(0) == 0)
    ctx.assume_forall(name + ".canon", lambda t: z3.Implies(z3.And(0 <= t, t < m), E(t) < E(t + 1)))
    ctx.assume_forall(name + ".mono", lambda a, b: z3.Implies(z3.And(0 <= a, a < b, b <= m), E(a) < E(b)), arity=2)
    ctx.add_index(z3.IntVal(0), m, m - 1)
    obj = RunLengthArray.__new__(RunLengthArray)
    obj._events = ev
    obj._starts = ev[:-1]
    obj._ends = ev[1:]
    obj._values = va
    r = RLA(m, E, V, obj)
    r.ev, r.va = ev, va
    return r


@register
class RlaUfunc(Family):
    """unary ufunc / ufunc with a scalar on either side: same run boundaries, values' = U(values[, s]) in operand order"""
    name = "RunLengthArray.__array_ufunc__"
    qualname = "npstructures.runlengtharray:RunLengthArray.__array_ufunc__"
    serves = ["C16"]
    assumed = ["element-wise ufunc on the value array: r[t] = U(values[t], s) (uninterpreted U)"]

    def kinds(self):
        return ["unary", "scalar-right", "scalar-left", "npscalar-right", "npscalar-left", "method-reduce"]

    def extra_functions(self):
        return ["RunLengthArray.__init__", "RunLengthArray._is_scalar"]

    def run(self, ctx, kind):
        a = sym_rla(ctx)
        obj = a.obj
        s = z3.Const("s", ElemSort)
        from ..sym.arr import SElem
        sc = SElem(s)
        if kind == "method-reduce":
            r = obj.__array_ufunc__(np.subtract, "reduce", obj)
            ctx.prove("post.other methods are refused (NotImplemented)", z3.BoolVal(r is NotImplemented))
            return
        if kind == "unary":
            out = obj.__array_ufunc__(np.negative, "__call__", obj)
            expect = lambda t: apply_unary("negative", a.V(t))
        elif kind.endswith("right"):
            out = obj.__array_ufunc__(np.subtract, "__call__", obj, sc)
            expect = lambda t: apply_binary("subtract", a.V(t), s)
        else:
            out = obj.__array_ufunc__(np.subtract, "__call__", sc, obj)
            expect = lambda t: apply_binary("subtract", s, a.V(t))
        t = z3.Int("t")
        ctx.skolem(z3.And(0 <= t, t < a.m))
        ctx.add_index(t, t + 1)
        ctx.prove("post.same number of runs", dim_term(out._values.shape_[0]) == a.m)
        ctx.prove("post.values[t]==U(...) in operand order", out._values.get(t) == expect(t))
        ctx.prove("post.boundaries unchanged", z3.And(out._events.get(t) == a.E(t), out._events.get(t + 1) == a.E(t + 1),
                                                      dim_term(out._events.shape_[0]) == a.m + 1))
        ctx.prove("post.operands not modified", z3.BoolVal(a.ev.buf.writes == 0 and a.va.buf.writes == 0))

    def concretise(self, kind, model, ghost):
        return {"a": [1, 1, 2]}

    def concrete(self, case):
        from npstructures import RunLengthArray
        x = np.array(case["a"])
        r = RunLengthArray.from_array(x)
        for got, exp, what in ((np.asarray(5 - r), 5 - x, "5 - rla"), (np.asarray(r - 5), x - 5, "rla - 5"),
                               (np.asarray(-r), -x, "-rla"), (np.asarray(np.int64(5) - r), 5 - x, "np.int64(5) - rla")):
            if got.tolist() != exp.tolist():
                return {"msg": f"{what} with rla = {case['a']}: {got.tolist()}, numpy {exp.tolist()}", "sig": "wrong:rla-ufunc"}

    def bounded_cases(self, tier, seed):
        import itertools
        for n in range(1, 5):
            for v in itertools.product([0, 1, 3], repeat=n):
                yield {"a": list(v)}


@register
class RlaGetPosition(Family):
    """rla[i] / rla[index array]: the value of the run containing position i (negative i from the end)"""
    name = "RunLengthArray._get_position"
    qualname = "npstructures.runlengtharray:RunLengthArray._get_position"
    serves = ["C15"]
    assumed = ["numpy.searchsorted(side='right') on the (sorted) run boundaries"]

    def kinds(self):
        return ["scalar", "array"]

    def run(self, ctx, kind):
        a = sym_rla(ctx)
        n = a.n
        if kind == "scalar":
            i = z3.Int("i")
            ctx.assume(z3.And(i >= -n, i < n))            # requires: an existing position
            p = z3.If(i < 0, i + n, i)
            out = a.obj._get_position(SInt(i))
            val = out.t
            ctx.add_index(i)
        else:
            k = z3.Int("k")
            ctx.assume(k >= 0)
            idx = SymArr.symbolic("idx", k, "int", assume_len=False)
            ctx.assume_forall("positions exist", lambda q: z3.Implies(z3.And(0 <= q, q < k), z3.And(idx.fn(q) >= -n, idx.fn(q) < n)))
            out = a.obj._get_position(idx)
            q = z3.Int("q")
            ctx.skolem(z3.And(0 <= q, q < k))
            ctx.add_index(q)
            p = z3.If(idx.fn(q) < 0, idx.fn(q) + n, idx.fn(q))
            val = out.get(q)
            ctx.prove("post.len", dim_term(out.shape_[0]) == k)
        # the result is values[t] for THE run t containing p
        t = z3.Int("t")
        ctx.skolem(z3.And(0 <= t, t < a.m, a.E(t) <= p, p < a.E(t + 1)))
        ctx.add_index(t, t + 1)
        ctx.prove("post.result==values[run(p)]", val == a.V(t))

    def concrete(self, case):
        from npstructures import RunLengthArray
        x = np.array(case["a"])
        r = RunLengthArray.from_array(x)
        n = len(x)
        for i in range(-n, n):
            if r[i] != x[i]:
                return {"msg": f"rla[{i}] with rla = {case['a']}: {r[i]}", "sig": "wrong:rla-getitem-int"}
        idx = list(range(-n, n))
        if np.asarray(r[idx]).tolist() != x[idx].tolist():
            return {"msg": f"rla[{idx}] with rla = {case['a']}", "sig": "wrong:rla-getitem-list"}

    bounded_cases = RlaUfunc.bounded_cases


@register
class RlaGetSlice(Family):
    """rla[a:b:s]: the window handed to _start_to_end is exactly CPython's (clamped) window for every
    None / negative / out-of-range combination, an empty selection gives an empty array, and the stride is
    delegated to _step_subset on that window (callee contracts; _start_to_end and _step_subset are stubbed)."""
    name = "RunLengthArray._get_slice"
    qualname = "npstructures.runlengtharray:RunLengthArray._get_slice"
    serves = ["C15", "C14"]
    assumed = ["builtin slice.indices = CPython's PySlice_AdjustIndices (spec function pyslice, audited)",
               "callee contract RunLengthArray._start_to_end(start, end): the sub-array [start, end) (proved: RunLengthArray._start_to_end)",
               "callee contract RunLengthArray._step_subset(step): every |step|-th element, reversed for step < 0 (proved: RunLengthArray._step_subset)"]

    def kinds(self):
        return SL_KINDS

    def run(self, ctx, kind):
        from npstructures.runlengtharray import RunLengthArray
        a = sym_rla(ctx)
        ctx.ghost["rla"] = a
        n = a.n
        comps = slice_components(ctx, kind)
        calls = {}

        def start_to_end_stub(self_, start, end):
            calls["window"] = (I(start), I(end))
            w = z3.simplify(I(end) - I(start))
            # callee post: a canonical array of length end - start (requires 0 <= start < end <= n)
            cur().prove("pre(_start_to_end): 0 <= start < end <= n", z3.And(0 <= I(start), I(start) < I(end), I(end) <= n), kind="pre")
            sub = sym_rla(cur(), "sub")
            cur().assume(sub.n == w)
            calls["sub"] = sub
            return sub.ev, sub.va

        def step_subset_stub(self_, step):
            calls["step"] = I(step)
            return "STEPPED"
        old1, old2 = RunLengthArray.__dict__["_start_to_end"], RunLengthArray.__dict__["_step_subset"]
        RunLengthArray._start_to_end, RunLengthArray._step_subset = start_to_end_stub, step_subset_stub
        try:
            out = a.obj._get_slice(slice(*comps))
        finally:
            RunLengthArray._start_to_end, RunLengthArray._step_subset = old1, old2
        first, cnt, step = pyslice(SInt(n), *comps)
        first, cnt, step = I(first), I(cnt), I(step)
        if "window" not in calls:
            ctx.prove("post.empty result only for an empty selection", cnt == 0)
            ctx.prove("post.empty result has no runs", z3.BoolVal(len(out._values) == 0 and len(out._events) == 1))
            return
        lo, hi = calls["window"]
        ctx.prove("post.nonempty selection", cnt > 0)
        # the window covers exactly the selected positions' span: for step > 0: [first, stop'), for step < 0: [stop'+1, first+1)
        last_sel = first + (cnt - 1) * step
        ctx.prove("post.window start", z3.If(step > 0, lo == first, z3.And(lo <= last_sel, last_sel - lo < -step)))
        ctx.prove("post.window end", z3.If(step > 0, z3.And(hi > last_sel, hi - last_sel <= step), hi == first + 1))
        for k_, f_ in enumerate(contract_slice_window(first, cnt, step, lo, hi, n)):
            ctx.prove(f"contract.window[{k_}]", f_)
        if "step" in calls:
            ctx.prove("post.stride delegated with the same step", z3.And(calls["step"] == step, step != 1))
            ctx.prove("post.returns the strided window", z3.BoolVal(out == "STEPPED"))
        else:
            ctx.prove("post.no stride needed", step == 1)

    def concrete(self, case):
        from npstructures import RunLengthArray
        x = np.array(case["a"])
        r = RunLengthArray.from_array(x)
        sl = slice(*case["slice"])
        try:
            got = np.asarray(r[sl]).tolist()
        except Exception as e:
            return {"msg": f"rla[{sl}] with rla = {case['a']} raised {type(e).__name__}: {e}", "sig": "raised:rla-slice"}
        if got != x[sl].tolist():
            return {"msg": f"rla[{sl}] with rla = {case['a']}: {got}, numpy {x[sl].tolist()}", "sig": "wrong:rla-slice"}

    def concretise(self, kind, model, ghost):
        a = ghost.get("rla")
        n = min(max(model_int(model, a.n), 1), 8) if a is not None else 3
        return {"a": [v // 2 for v in range(n)], "slice": model_slice(model, kind)}

    def bounded_cases(self, tier, seed):
        for a in ([5], [5, 5, 6], [1, 2, 2, 3]):
            n = len(a)
            for lo in [None] + list(range(-n - 2, n + 3)):
                for hi in [None] + list(range(-n - 2, n + 3)):
                    for s in (None, 1, 2, 3, -1, -2, -3):
                        yield {"a": a, "slice": [lo, hi, s]}


@register
class RlaFromArray(Family):
    """encoding: canonical boundaries, adjacent runs differ (numpy !=), every position keeps a value that is
    not != to the original (bit-identical at run starts), dtype kept"""
    name = "RunLengthArray.from_array"
    qualname = "npstructures.runlengtharray:RunLengthArray.from_array"
    serves = ["C14"]
    assumed = ["numpy.flatnonzero contract (rank / position functions)", "numpy.insert(a, 0, 0) / numpy.append(a, 0)",
               "numpy != is an uninterpreted relation on abstract elements"]

    def extra_functions(self):
        return ["util.unsafe_extend_left", "util.unsafe_extend_right", "RunLengthArray.__init__"]

    def run(self, ctx, kind):
        from npstructures.runlengtharray import RunLengthArray
        n = z3.Int("n")
        ctx.assume(n >= 1)
        x = SymArr.symbolic("x", n, "elem", np.int64, assume_len=False)
        ne = lambda u, v: apply_binary("not_equal", u, v)
        ctx.add_index(n, n - 1, n + 1, z3.IntVal(1))
        out = RunLengthArray.from_array(x)
        ev, va = out._events, out._values
        m = dim_term(va.shape_[0])
        ctx.prove("post.len(events)==len(values)+1", dim_term(ev.shape_[0]) == m + 1)
        ctx.prove("post.at least one run", m >= 1)
        ctx.prove("post.events[0]==0", ev.get(0) == 0)
        ctx.prove("post.events[-1]==n", ev.get(m) == n)
        t = z3.Int("t")
        ctx.skolem(z3.And(0 <= t, t < m))
        ctx.add_index(t, t + 1, ev.get(t), ev.get(t + 1))
        ctx.prove("post.strictly increasing", ev.get(t) < ev.get(t + 1))
        ctx.prove("post.value of run t is the element at its start", va.get(t) == x.fn(ev.get(t)))
        ctx.prove("post.adjacent runs differ", z3.Implies(t + 1 < m, ne(x.fn(ev.get(t + 1) - 1), x.fn(ev.get(t + 1)))))
        # inside a run no neighbouring pair differs (so the run is constant w.r.t. numpy's ==)
        p = z3.Int("p")
        ctx.skolem(z3.And(ev.get(t) < p, p < ev.get(t + 1)))
        ctx.add_index(p, p + 1, p - 1)
        ctx.prove("post.no change inside a run", z3.Not(ne(x.fn(p - 1), x.fn(p))), live=[t])
        ctx.prove("post.input not modified", z3.BoolVal(x.buf.writes == 0))
        # the contract as the round-trip lemma uses it (same formulas)
        ground, schemas = contract_from_array(x.fn, n, ev.get, va.get, m, ne)
        ctx.prove("contract.ground facts", z3.And(*ground))
        ctx.prove("contract." + schemas[0][0], schemas[0][1](t), live=[t])
        ctx.prove("contract." + schemas[1][0], schemas[1][1](t, p), live=[t, p])
        ctx.prove("contract." + schemas[2][0], schemas[2][1](t), live=[t])

    def concrete(self, case):
        from npstructures import RunLengthArray
        x = np.array(case["a"])
        r = RunLengthArray.from_array(x)
        ev, va = np.asarray(r._events), np.asarray(r._values)
        ok = ev[0] == 0 and ev[-1] == len(x) and np.all(np.diff(ev) > 0) and len(ev) == len(va) + 1 and \
            np.all(va[1:] != va[:-1]) and np.asarray(r).tolist() == x.tolist()
        if not ok:
            return {"msg": f"from_array({case['a']}): events {ev.tolist()} values {va.tolist()}", "sig": "wrong:rla-from_array"}

    bounded_cases = RlaUfunc.bounded_cases


@register
class RlaInit(Family):
    """the constructor's asserted invariants: returns only for canonical (events, values)"""
    name = "RunLengthArray.__init__"
    qualname = "npstructures.runlengtharray:RunLengthArray.__init__"
    serves = ["C14"]

    def run(self, ctx, kind):
        from npstructures.runlengtharray import RunLengthArray
        k, m = z3.Int("k"), z3.Int("m")
        ctx.assume(z3.And(k >= 1, m >= 0))
        ev = SymArr.symbolic("E", k, "int", np.int64, assume_len=False)
        va = SymArr.symbolic("V", m, "elem", np.int64, assume_len=False)
        try:
            RunLengthArray(ev, va)
        except AssertionError:
            # refused: then the input is not canonical
            ctx.assume(z3.And(ev.fn(0) == 0, k == m + 1))
            ctx.assume_forall("increasing", lambda t: z3.Implies(z3.And(0 <= t, t + 1 < k), ev.fn(t) < ev.fn(t + 1)))
            ctx.prove("raises=>not canonical", z3.BoolVal(False))
            return
        t = z3.Int("t")
        ctx.prove("returns=>events[0]==0 and lengths agree", z3.And(ev.fn(0) == 0, k == m + 1))
        ctx.skolem(z3.And(0 <= t, t + 1 < k))
        ctx.add_index(t, t + 1)
        ctx.prove("returns=>strictly increasing", ev.fn(t) < ev.fn(t + 1))


@register
class RlaToArray(Family):
    """decoding: result[p] = values[run(p)] bit for bit, length = events[-1].  Scatter-then-scan over 64-bit patterns:
    array[starts[t]] = v[t-1] ^ v[t], array[0] = v[0]; prefix-xor.  Scan invariant  X(j) = v[run(j)]  (sidecar proof script)."""
    name = "RunLengthArray.to_array"
    qualname = "npstructures.runlengtharray:RunLengthArray.to_array"
    serves = ["C14"]
    timeout_ms = 30000
    assumed = ["numpy fancy assignment (witness form)", "ufunc.accumulate(out=): acc(0)=x(0), acc(j+1)=acc(j)^x(j+1)",
               "ndarray.view between same-size dtypes is the identity on bit patterns (float64 <-> uint64)",
               "lemma partition-point applied to the run boundaries (proved by induction in vf.proofs.lemmas)"]

    def kinds(self):
        return ["uint64", "float64-viewed"]

    def run(self, ctx, kind):
        a = sym_rla(ctx, kind="bv")
        a.va.dtype = np.dtype(np.float64 if kind.startswith("float") else np.uint64)
        m, E, V, n = a.m, a.E, a.V, a.n
        run_ = z3.Function(fresh_name("run"), z3.IntSort(), z3.IntSort())
        ctx.assume_forall("run", lambda p: z3.Implies(z3.And(0 <= p, p < n), z3.And(0 <= run_(p), run_(p) < m, E(run_(p)) <= p, p < E(run_(p) + 1))))
        ctx.add_index(run_(z3.IntVal(0)), run_(z3.IntVal(0)) + 1)
        out = a.obj.to_array()
        ctx.prove("post.len==events[-1]", dim_term(out.shape_[0]) == n)
        ctx.prove("post.dtype kept", z3.BoolVal(out.dtype == a.va.dtype))
        accs = ctx.ghost.get("accumulates", [])
        acc = accs[-1]["acc"]
        x = accs[-1]["x"]
        sc = ctx.ghost["scatters"][-1]
        Z = z3.IntVal(0)
        ctx.prove_then_assume("base.lemma: run(0) == 0", run_(Z) == 0, pool=[Z, run_(Z), run_(Z) + 1, z3.IntVal(1), m])
        ctx.prove_then_assume("base: X(0) == v[run(0)]", acc(Z) == V(run_(Z)), pool=[Z, z3.IntVal(1), m, m - 1])
        j = z3.Int("j")
        ctx.skolem(z3.And(0 <= j, j + 1 < n))
        ctx.assume(acc(j) == V(run_(j)))
        q, r = run_(j), run_(j + 1)
        w = sc["wit"](j + 1)
        same = q == r
        ctx.prove_then_assume("step.same-run.lemma: position j+1 is no run start: array[j+1] == 0", z3.Implies(same, x(j + 1) == 0),
                              pool=[j, j + 1, q, q + 1, w, w + 1, w + 2, z3.IntVal(0)])
        ctx.prove("step.same-run: X(j+1) == v[run(j+1)]", z3.Implies(same, acc(j + 1) == V(r)), pool=[j, j + 1])
        ctx.prove_then_assume("step.next-run.lemma1: run(j+1) == run(j)+1 and it starts at j+1", z3.Implies(z3.Not(same), z3.And(r == q + 1, E(r) == j + 1)),
                              pool=[j, j + 1, q, q + 1, r, r + 1])
        ctx.prove_then_assume("step.next-run.lemma2: the scatter wrote v[q]^v[r] at j+1", z3.Implies(z3.Not(same), x(j + 1) == (V(q) ^ V(r))),
                              pool=[j + 1, q, r, r + 1, w, w + 1, w + 2, r - 1, q + 1, z3.IntVal(0)])
        ctx.prove("step.next-run: X(j+1) == v[run(j+1)]", z3.Implies(z3.Not(same), acc(j + 1) == V(r)), pool=[j, j + 1])
        ctx.assume_forall("X(p) == v[run(p)] (by induction)", lambda p: z3.Implies(z3.And(0 <= p, p < n), acc(p) == V(run_(p))))
        p = z3.Int("p")
        t = z3.Int("t")
        ctx.skolem(z3.And(0 <= p, p < n, 0 <= t, t < m, E(t) <= p, p < E(t + 1)))
        ctx.prove_then_assume("post.lemma: the run containing p is unique", run_(p) == t, pool=[p, t, t + 1, run_(p), run_(p) + 1])
        ctx.prove("post.result[p] == values[run containing p] (bit pattern)", out.get(p) == V(t), pool=[p, t])
        ground, schemas = contract_to_array(E, V, m, out.get, dim_term(out.shape_[0]))
        ctx.prove("contract.ground facts", z3.And(*ground))
        ctx.prove("contract." + schemas[0][0], schemas[0][1](t, p), pool=[p, t])
        ctx.prove("post.operand not modified", z3.BoolVal(a.va.buf.writes == 0 and a.ev.buf.writes == 0))

    def concrete(self, case):
        from npstructures import RunLengthArray
        x = np.array(case["a"], dtype=case.get("dtype", "int64"))
        got = RunLengthArray.from_array(x).to_array()
        if got.dtype != x.dtype or got.tolist() != x.tolist():
            return {"msg": f"from_array({case['a']}).to_array() = {got.tolist()} ({got.dtype})", "sig": "wrong:rla-to_array"}

    def concretise(self, kind, model, ghost):
        return {"a": [3, 3, 5, 3, 7, 7], "dtype": "float64" if kind.startswith("float") else "uint64"}

    bounded_cases = RlaUfunc.bounded_cases


@register
class RlaStartToEnd(Family):
    """_start_to_end(start, end), scalar form, 0 <= start < end <= n: a canonical (events', values') pair of length end - start
    whose dense content is Dense[start + p]"""
    name = "RunLengthArray._start_to_end"
    qualname = "npstructures.runlengtharray:RunLengthArray._start_to_end"
    serves = ["C15", "C14"]
    timeout_ms = 30000
    assumed = ["numpy.searchsorted (left and right) on the sorted run boundaries"]

    def run(self, ctx, kind):
        a = sym_rla(ctx)
        m, E, V, n = a.m, a.E, a.V, a.n
        lo, hi = z3.Int("start"), z3.Int("end")
        ctx.assume(z3.And(0 <= lo, lo < hi, hi <= n))
        ctx.add_index(m, m - 1, z3.IntVal(0))
        ev, va = a.obj._start_to_end(SInt(lo), SInt(hi))
        k = dim_term(va.shape_[0])
        ctx.prove("post.len(events')==len(values')+1", dim_term(ev.shape_[0]) == k + 1)
        ctx.prove("post.at least one run", k >= 1)
        ctx.prove("post.events'[0]==0 and events'[-1]==end-start", z3.And(ev.get(0) == 0, ev.get(k) == hi - lo))
        t = z3.Int("t")
        ctx.skolem(z3.And(0 <= t, t < k))
        ctx.add_index(t, t + 1)
        ctx.prove("post.strictly increasing boundaries", ev.get(t) < ev.get(t + 1))
        # dense content: position p of the result lies in result run t  =>  source position start+p lies in a source run with the same value
        p, u = z3.Int("p"), z3.Int("u")
        ctx.skolem(z3.And(ev.get(t) <= p, p < ev.get(t + 1)))
        ctx.skolem(z3.And(0 <= u, u < m, E(u) <= lo + p, lo + p < E(u + 1)))
        ctx.add_index(u, u + 1)
        ctx.prove("post.Dense'[p]==Dense[start+p]", va.get(t) == V(u), live=[p])
        ground, schemas = contract_start_to_end_rel(E, V, m, ev.get, va.get, k, lo, hi)
        ctx.prove("contract.ground facts", z3.And(*ground))
        ctx.prove("contract." + schemas[0][0], schemas[0][1](t), live=[t])
        ctx.prove("contract." + schemas[1][0], schemas[1][1](t, p, u), live=[t, p, u])
        ctx.prove("post.operand not modified", z3.BoolVal(a.ev.buf.writes == 0 and a.va.buf.writes == 0))

    def concrete(self, case):
        from npstructures import RunLengthArray
        x = np.array(case["a"])
        r = RunLengthArray.from_array(x)
        n = len(x)
        for lo in range(n):
            for hi in range(lo + 1, n + 1):
                ev, va = r._start_to_end(lo, hi)
                sub = RunLengthArray(ev, va)
                if np.asarray(sub).tolist() != x[lo:hi].tolist():
                    return {"msg": f"_start_to_end({lo},{hi}) on {case['a']}: {np.asarray(sub).tolist()}", "sig": "wrong:rla-start_to_end"}

    def concretise(self, kind, model, ghost):
        return {"a": [1, 1, 2, 3, 3, 3, 1]}

    bounded_cases = RlaUfunc.bounded_cases


@register
class RlaAnyAllMax(Family):
    """any / all / max over the run values equal any / all / max over the dense array, because no run is empty"""
    name = "RunLengthArray.any/all/max"
    qualname = "npstructures.runlengtharray:RunLengthArray.any"
    serves = ["C16"]
    assumed = ["numpy.any / numpy.all / ndarray.max contracts (witness form)"]

    def kinds(self):
        return ["any", "all", "max"]

    def run(self, ctx, kind):
        a = sym_rla(ctx, kind="bool" if kind != "max" else "int")
        m, E, V, n = a.m, a.E, a.V, a.n
        run_ = z3.Function(fresh_name("run"), z3.IntSort(), z3.IntSort())
        ctx.assume_forall("run", lambda p: z3.Implies(z3.And(0 <= p, p < n), z3.And(0 <= run_(p), run_(p) < m, E(run_(p)) <= p, p < E(run_(p) + 1))))
        dense = lambda p: V(run_(p))
        res = getattr(a.obj, kind)()
        p = z3.Int("p")
        if kind == "max":
            r = res.t
            ctx.skolem(z3.And(0 <= p, p < n))
            ctx.add_index(p, run_(p), run_(p) + 1)
            ctx.prove("post.upper bound of every dense element", dense(p) <= r)
            # attained: the witness run w of numpy's max starts at position E(w), which lies in run w
            w = [t for t in ctx.pool if "argext" in str(t)]
            wt = w[-1]
            ctx.add_index(E(wt), wt, wt + 1, run_(E(wt)), run_(E(wt)) + 1)
            ctx.prove("post.attained at some dense position", z3.And(0 <= E(wt), E(wt) < n, dense(E(wt)) == r))
            return
        rt = res.t
        if kind == "any":
            # (=>) true: some dense position is true   (<=) false: every dense position is false
            wits = [t for t in ctx.pool if "w_npany" in str(t)]
            wt = wits[-1]
            ctx.add_index(E(wt), run_(E(wt)), run_(E(wt)) + 1, wt, wt + 1)
            ctx.prove("post.true => a true dense position exists (the start of the witness run)", z3.Implies(rt, z3.And(E(wt) < n, dense(E(wt)))))
            ctx.skolem(z3.And(0 <= p, p < n))
            ctx.add_index(p, run_(p), run_(p) + 1)
            ctx.prove("post.false => every dense position is false", z3.Implies(z3.Not(rt), z3.Not(dense(p))))
        else:
            wits = [t for t in ctx.pool if "w_npall" in str(t)]
            wt = wits[-1]
            ctx.add_index(E(wt), run_(E(wt)), run_(E(wt)) + 1, wt, wt + 1)
            ctx.prove("post.false => a false dense position exists", z3.Implies(z3.Not(rt), z3.And(E(wt) < n, z3.Not(dense(E(wt))))))
            ctx.skolem(z3.And(0 <= p, p < n))
            ctx.add_index(p, run_(p), run_(p) + 1)
            ctx.prove("post.true => every dense position is true", z3.Implies(rt, dense(p)))

    def concrete(self, case):
        from npstructures import RunLengthArray
        x = np.array(case["a"])
        r = RunLengthArray.from_array(x)
        if bool(r.any()) != bool(x.any()) or bool(r.all()) != bool(x.all()) or r.max() != x.max():
            return {"msg": f"any/all/max of rla({case['a']})", "sig": "wrong:rla-any-all-max"}

    bounded_cases = RlaUfunc.bounded_cases


@register
class RlaConcatenate(Family):
    """np.concatenate of RunLengthArrays: boundaries of operand i shifted by the total length of the operands before it,
    values in order; canonical.  (2 and 3 operands unrolled, all run structures symbolic.)"""
    name = "runlengtharray.concatenate"
    qualname = "npstructures.runlengtharray:concatenate"
    serves = ["C16", "C14"]
    assumed = ["numpy.cumsum / insert / concatenate of small concrete-length lists and 1-D arrays"]

    def kinds(self):
        return ["2", "3"]

    def run(self, ctx, kind):
        import npstructures.runlengtharray as mod
        k = int(kind)
        rs = [sym_rla(ctx, f"r{i}") for i in range(k)]
        out = mod.concatenate([r.obj for r in rs])
        ev, va = out._events, out._values
        offm, offn = [z3.IntVal(0)], [z3.IntVal(0)]
        for r in rs:
            offm.append(z3.simplify(offm[-1] + r.m))
            offn.append(offn[-1] + r.n)
        M = offm[-1]
        ctx.prove("post.number of runs is the sum", z3.And(dim_term(va.shape_[0]) == M, dim_term(ev.shape_[0]) == M + 1))
        ctx.prove("post.total length", ev.get(M) == offn[-1])
        t = z3.Int("t")
        ctx.skolem(z3.And(0 <= t, t < M))
        expE = expV = None
        for i in range(k - 1, -1, -1):
            e_i, v_i = offn[i] + rs[i].E(t - offm[i]), rs[i].V(t - offm[i])
            expE = e_i if expE is None else z3.If(t < offm[i + 1], e_i, expE)
            expV = v_i if expV is None else z3.If(t < offm[i + 1], v_i, expV)
        ctx.add_index(t, t + 1, *[t - o for o in offm[:-1]], *[t + 1 - o for o in offm[:-1]], *[r.m for r in rs])
        ctx.prove("post.run t starts where its operand's run starts, shifted by the lengths before", ev.get(t) == expE)
        ctx.prove("post.values in order", va.get(t) == expV)
        ctx.prove("post.canonical: strictly increasing", ev.get(t) < ev.get(t + 1))
        ctx.prove("post.operands not modified", z3.BoolVal(all(r.ev.buf.writes == 0 and r.va.buf.writes == 0 for r in rs)))

    def concrete(self, case):
        from npstructures import RunLengthArray
        x = np.array(case["a"])
        y = x[::-1].copy()
        got = np.asarray(np.concatenate([RunLengthArray.from_array(x), RunLengthArray.from_array(y), RunLengthArray.from_array(x)])).tolist()
        if got != np.concatenate([x, y, x]).tolist():
            return {"msg": f"concatenate of rla({case['a']}) variants: {got}", "sig": "wrong:rla-concatenate"}

    bounded_cases = RlaUfunc.bounded_cases


def contract_slice_window(first, cnt, step, lo, hi, n):
    """caller-visible contract of RunLengthArray._get_slice for a non-empty selection (cnt > 0): the window [lo, hi) handed to _start_to_end
    spans exactly the selected positions first, first+step, ..., last = first + (cnt-1)*step; it lies inside the array."""
    last = first + (cnt - 1) * step
    return [z3.And(0 <= lo, lo < hi, hi <= n),
            z3.If(step > 0, z3.And(lo == first, hi > last, hi - last <= step), z3.And(hi == first + 1, lo <= last, last - lo < -step))]


def contract_start_to_end_rel(Es, Vs, ms, Eb, Vb, mb, lo, hi):
    """caller-visible contract of _start_to_end(lo, hi) (scalar form, 0 <= lo < hi <= N) in relational decode form: the result (Eb, Vb, mb) is
    canonical with length hi - lo, and whenever position p lies in result run t and source position lo + p in source run u, the values agree."""
    ground = [mb >= 1, Eb(0) == 0, Eb(mb) == hi - lo]
    A = lambda t: z3.Implies(z3.And(0 <= t, t < mb), Eb(t) < Eb(t + 1))
    B = lambda t, p, u: z3.Implies(z3.And(0 <= t, t < mb, Eb(t) <= p, p < Eb(t + 1), 0 <= u, u < ms, Es(u) <= lo + p, lo + p < Es(u + 1)), Vb(t) == Vs(u))
    return ground, [("start_to_end.canonical", A, 1), ("start_to_end.decodes", B, 3)]


def contract_step_subset_rel(Eb, Vb, mb, N, Eo, Vo, mo, DIV, MUL, s, forward, sim):
    """caller-visible contract of _step_subset(step) on a canonical array (Eb, Vb, mb) of length N, |step| = s, in relational decode form:
    ceil(N / s) positions; whenever position q lies in output run t and source position q*s (forward) / N-1-q*s (backward) in source run u, the
    output value is the source value up to numpy ==.  q*s is MUL(q), ceil(N/s) is DIV(N+s-1)."""
    src = (lambda q: MUL(q)) if forward else (lambda q: N - 1 - MUL(q))
    ground = [mo >= 1, Eo(0) == 0, Eo(mo) == DIV(N + s - 1)]
    A = lambda t: z3.Implies(z3.And(0 <= t, t < mo), Eo(t) < Eo(t + 1))
    B = lambda t, q, u: z3.Implies(z3.And(q >= 0, 0 <= t, t < mo, Eo(t) <= q, q < Eo(t + 1), 0 <= u, u < mb, Eb(u) <= src(q), src(q) < Eb(u + 1)), sim(Vo(t), Vb(u)))
    return ground, [("step_subset.canonical", A, 1), ("step_subset.decodes", B, 3)]


def contract_from_array(xf, n, E, V, m, NE):
    """caller-visible contract of RunLengthArray.from_array(x) (x of length n >= 1) -> events E[0..m], values V[0..m-1]; NE is numpy's != on the
    element type.  Proved in RlaFromArray (contract.*), assumed by the round-trip lemma."""
    ground = [m >= 1, E(0) == 0, E(m) == n]
    A = lambda t: z3.Implies(z3.And(0 <= t, t < m), z3.And(E(t) < E(t + 1), V(t) == xf(E(t))))
    B = lambda t, p: z3.Implies(z3.And(0 <= t, t < m, E(t) < p, p < E(t + 1)), z3.Not(NE(xf(p - 1), xf(p))))
    C = lambda t: z3.Implies(z3.And(0 <= t, t + 1 < m), NE(xf(E(t + 1) - 1), xf(E(t + 1))))
    return ground, [("from_array.runs", A, 1), ("from_array.constant-inside-a-run", B, 2), ("from_array.adjacent-runs-differ", C, 1)]


def contract_to_array(E, V, m, out, out_len):
    """caller-visible contract of RunLengthArray.to_array() on a canonical array: length E[m]; position p of run t holds V[t] (bit for bit)."""
    ground = [out_len == E(m)]
    A = lambda t, p: z3.Implies(z3.And(0 <= t, t < m, E(t) <= p, p < E(t + 1)), out(p) == V(t))
    return ground, [("to_array.decodes", A, 2)]


def contract_remove_empty(E, V, k, e2, v2, k2, rho, src):
    """caller-visible contract of remove_empty_intervals(E[0..k], V[0..k-1]) -> (e2[0..k2], v2[0..k2-1]);
    rho: kept input run -> output run, src: output run -> input run.  Proved in RlaRemoveEmpty, assumed by callers' stubs."""
    ground = [k2 >= 0, e2(k2) == E(k), e2(0) == E(0)]
    A = lambda i: z3.Implies(z3.And(0 <= i, i < k, E(i) != E(i + 1)),
                             z3.And(0 <= rho(i), rho(i) < k2, v2(rho(i)) == V(i), e2(rho(i)) == E(i), e2(rho(i) + 1) == E(i + 1)))
    B = lambda u: z3.Implies(z3.And(0 <= u, u < k2), z3.And(0 <= src(u), src(u) < k, E(src(u)) != E(src(u) + 1), rho(src(u)) == u))
    return ground, [("remove_empty.kept-runs", A, 1), ("remove_empty.output-runs", B, 1)]


def contract_join_runs(E, V, k, e3, v3, k3, sigma, head):
    """caller-visible contract of join_runs(E[0..k], V[0..k-1]) (requires k >= 1 and E strictly increasing) -> (e3[0..k3], v3[0..k3-1]);
    sigma: input run -> output run containing it, head: input run -> first run of its ==-chain."""
    EQ = lambda x, y: apply_binary("equal", x, y)
    ground = [k3 >= 1, e3(0) == E(0), e3(k3) == E(k)]
    A = lambda i: z3.Implies(z3.And(0 <= i, i < k),
                             z3.And(0 <= sigma(i), sigma(i) < k3, 0 <= head(i), head(i) <= i, v3(sigma(i)) == V(head(i)),
                                    e3(sigma(i)) <= E(i), E(i + 1) <= e3(sigma(i) + 1)))
    A2 = lambda i, j: z3.Implies(z3.And(0 <= i, i < k, head(i) < j, j <= i), EQ(V(j), V(j - 1)))
    B = lambda u: z3.Implies(z3.And(0 <= u, u < k3), e3(u) < e3(u + 1))
    B2 = lambda u: z3.Implies(z3.And(0 <= u, u + 1 < k3), z3.Not(EQ(v3(u + 1), v3(u))))
    return ground, [("join_runs.covering", A, 1), ("join_runs.chain", A2, 2), ("join_runs.increasing", B, 1), ("join_runs.adjacent-differ", B2, 1)]


def _eq_is_transitive_symmetric(ctx, terms):
    """numpy's == within one dtype (integer equality / IEEE equality) is symmetric and transitive (not reflexive: NaN).
    Stated for the abstract relation U_equal at the given element terms (assumption, listed in `assumed`)."""
    EQ = lambda u, v: apply_binary("equal", u, v)
    for x in terms:
        for y in terms:
            ctx.assume(EQ(x, y) == EQ(y, x))
            for z_ in terms:
                ctx.assume(z3.Implies(z3.And(EQ(x, y), EQ(y, z_)), EQ(x, z_)))


@register
class RlaRemoveEmpty(Family):
    """remove_empty_intervals(events, values): every run i with events[i] == events[i+1] is dropped (its boundary i and its value),
    every other run is kept with its value, its start and its end; no empty run remains; last boundary kept."""
    name = "RunLengthArray.remove_empty_intervals"
    qualname = "npstructures.runlengtharray:RunLengthArray.remove_empty_intervals"
    serves = ["C15", "C16", "C14"]
    timeout_ms = 30000
    assumed = ["numpy.flatnonzero contract (rank / position functions)",
               "numpy.delete(a, flatnonzero(mask)) = a[~mask'] in order, index out of range refused (audited)"]

    def run(self, ctx, kind):
        from npstructures.runlengtharray import RunLengthArray
        k = z3.Int("k")
        ctx.assume(k >= 0)
        ev = SymArr.symbolic("E", k + 1, "int", np.int64, assume_len=False)
        va = SymArr.symbolic("V", k, "elem", np.int64, assume_len=False)
        E, V = ev.fn, va.fn
        ctx.add_index(k, k + 1, k - 1, z3.IntVal(0), z3.IntVal(1))
        e2, v2 = RunLengthArray.remove_empty_intervals(ev, va)
        nz = e2.nz
        rk, pos = nz.rk, nz.pos
        k2 = dim_term(v2.shape_[0])
        ctx.prove("post.len(events')==len(values')+1", dim_term(e2.shape_[0]) == k2 + 1, pool=[k, k + 1])
        ctx.prove("post.last boundary kept", e2.get(k2) == E(k), pool=[k, k + 1, k2, k2 + 1, rk(k), pos(k2)])
        # lemma (induction on b): a stretch without a change of E is constant; stated with a witness for the change
        w = z3.Function(fresh_name("chg"), z3.IntSort(), z3.IntSort(), z3.IntSort())
        a, b = z3.Int("a"), z3.Int("b")
        P = lambda a_, b_, wit: z3.Or(E(a_) == E(b_), z3.And(a_ <= wit, wit < b_, E(wit) != E(wit + 1)))
        ctx.prove("lemma.base: E(a)==E(a)", P(a, a, a), pool=[a])
        wit = z3.If(E(a) == E(b), b, w(a, b))
        ctx.prove("lemma.step: stretch [a,b] -> [a,b+1] (witness: the old one, else b)", z3.Implies(z3.And(a <= b, P(a, b, w(a, b))), P(a, b + 1, wit)),
                  pool=[a, b, b + 1, w(a, b), w(a, b) + 1])
        ctx.assume_forall("constant-or-change", lambda a_, b_: z3.Implies(z3.And(0 <= a_, a_ <= b_, b_ <= k), P(a_, b_, w(a_, b_))), arity=2)
        i = z3.Int("i")
        ctx.skolem(z3.And(0 <= i, i < k, E(i) != E(i + 1)))
        t = rk(i)
        nxt = pos(t + 1)
        ch = w(i + 1, nxt)
        pool = [i, i + 1, t, t + 1, nxt, nxt + 1, ch, ch + 1, k, k + 1, rk(i + 1), rk(nxt), rk(ch), rk(ch + 1), pos(t)]
        ctx.prove("post.a non-empty run keeps its value", z3.And(0 <= t, t < k2, v2.get(t) == V(i)), pool=pool)
        ctx.prove("post.a non-empty run keeps its start", e2.get(t) == E(i), pool=pool)
        ctx.prove_then_assume("post.lemma: every run between i and the next kept boundary is empty",
                              z3.And(i < nxt, nxt <= k, z3.Not(z3.And(i + 1 <= ch, ch < nxt, E(ch) != E(ch + 1)))), pool=pool)
        ctx.prove("post.a non-empty run keeps its end", e2.get(t + 1) == E(i + 1), pool=pool)
        u = z3.Int("u")
        ctx.skolem(z3.And(0 <= u, u < k2))
        ctx.prove("post.every output run is a non-empty input run", z3.And(0 <= pos(u), pos(u) < k, E(pos(u)) != E(pos(u) + 1), rk(pos(u)) == u),
                  pool=[u, u + 1, pos(u), pos(u) + 1, k, k + 1])
        # the first boundary VALUE is kept (the boundaries before the first kept one are all equal to it)
        Z = z3.IntVal(0)
        c0 = w(Z, pos(Z))
        ctx.prove("post.first boundary value kept", e2.get(0) == E(0), pool=[Z, z3.IntVal(1), pos(Z), pos(Z) + 1, c0, c0 + 1, rk(c0), rk(c0 + 1), rk(pos(Z)), k, k + 1, k2, rk(k)])
        # the contract as callers use it (same formulas as assumed by their stubs)
        ground, schemas = contract_remove_empty(E, V, k, e2.get, v2.get, k2, rk, pos)
        ctx.prove("contract.ground facts", z3.And(*ground), pool=[Z, z3.IntVal(1), pos(Z), pos(Z) + 1, c0, c0 + 1, rk(c0), rk(c0 + 1), rk(pos(Z)), k, k + 1, k2, k2 + 1, rk(k), pos(k2)])
        ctx.prove("contract." + schemas[0][0], schemas[0][1](i), pool=pool)
        ctx.prove("contract." + schemas[1][0], schemas[1][1](u), pool=[u, u + 1, pos(u), pos(u) + 1, k, k + 1])
        ctx.prove("post.inputs not modified", z3.BoolVal(ev.buf.writes == 0 and va.buf.writes == 0))

    def concrete(self, case):
        from npstructures import RunLengthArray
        ev, va = np.array(case["events"]), np.array(case["values"])
        e2, v2 = RunLengthArray.remove_empty_intervals(ev.copy(), va.copy())
        keep = [i for i in range(len(va)) if ev[i] != ev[i + 1]]
        if list(e2) != [ev[i] for i in keep] + [ev[-1]] or list(v2) != [va[i] for i in keep]:
            return {"msg": f"remove_empty_intervals({case['events']}, {case['values']}) = {list(e2)}, {list(v2)}", "sig": "wrong:rla-remove-empty"}

    def concretise(self, kind, model, ghost):
        return {"events": [0, 0, 2, 2, 5, 5], "values": [1, 2, 3, 4, 5]}

    def bounded_cases(self, tier, seed):
        import itertools
        for k in range(0, 5):
            for d in itertools.product((0, 1, 2), repeat=k):
                ev = [0]
                for x in d:
                    ev.append(ev[-1] + x)
                yield {"events": ev, "values": [10 + j for j in range(k)]}


@register
class RlaJoinRuns(Family):
    """join_runs(events, values): run j >= 1 is merged into its predecessor iff values[j] == values[j-1] (numpy ==): boundary j and
    value j are dropped; first and last boundary kept; every input run lies inside an output run whose value is the value of the first
    run of its ==-chain; adjacent output runs differ."""
    name = "RunLengthArray.join_runs"
    qualname = "npstructures.runlengtharray:RunLengthArray.join_runs"
    serves = ["C15", "C16", "C14"]
    timeout_ms = 30000
    assumed = ["numpy.flatnonzero contract (rank / position functions)",
               "numpy.delete(a, flatnonzero(mask) + 1) = a without those positions, in order (audited)",
               "numpy == within one dtype is symmetric and transitive (used at three element terms for 'adjacent output runs differ')"]

    def run(self, ctx, kind):
        from npstructures.runlengtharray import RunLengthArray
        k = z3.Int("k")
        ctx.assume(k >= 1)
        ev = SymArr.symbolic("E", k + 1, "int", np.int64, assume_len=False)
        va = SymArr.symbolic("V", k, "elem", np.int64, assume_len=False)
        E, V = ev.fn, va.fn
        ctx.assume_forall("increasing", lambda i_: z3.Implies(z3.And(0 <= i_, i_ < k), E(i_) < E(i_ + 1)))
        EQ = lambda x, y: apply_binary("equal", x, y)
        ctx.add_index(k, k + 1, k - 1, z3.IntVal(0), z3.IntVal(1))
        e3, v3 = RunLengthArray.join_runs(ev, va)
        nz = e3.nz
        rk, pos = nz.rk, nz.pos
        k3 = dim_term(v3.shape_[0])
        Z = z3.IntVal(0)
        base = [k, k + 1, k - 1, Z, z3.IntVal(1), rk(k), rk(k + 1), k3, k3 + 1, pos(k3), pos(Z), rk(Z), rk(z3.IntVal(1))]
        ctx.prove("post.len(events')==len(values')+1", dim_term(e3.shape_[0]) == k3 + 1, pool=base)
        ctx.prove("post.at least one run", k3 >= 1, pool=base)
        ctx.prove("post.first and last boundary kept", z3.And(e3.get(0) == E(0), e3.get(k3) == E(k)), pool=base)
        merged = lambda j_: z3.And(1 <= j_, j_ < k, EQ(V(j_), V(j_ - 1)))
        i = z3.Int("i")
        ctx.skolem(z3.And(0 <= i, i < k))
        t = rk(i + 1) - 1                # the output run input run i ends up in
        h = pos(t)                       # its head: the first run of the chain
        nxt = pos(t + 1)
        pool = base + [i, i + 1, t, t + 1, h, h + 1, nxt, nxt + 1, rk(i), rk(h), rk(h + 1), rk(nxt)]
        ctx.prove_then_assume("post.run i lies in output run t = rank(i+1)-1 headed by h: h <= i < next head", z3.And(0 <= t, t < k3, 0 <= h, h <= i, i < nxt, nxt <= k), pool=pool)
        ctx.prove("post.output run t carries the head's value and start", z3.And(v3.get(t) == V(h), e3.get(t) == E(h), z3.Not(merged(h))), pool=pool)
        ctx.prove("post.output run t ends where the next head starts", e3.get(t + 1) == E(nxt), pool=pool)
        # monotonicity of E (induction, lemma adjacent-sorted=>sorted) gives E(h) <= E(i) and E(i+1) <= E(nxt)
        ctx.assume_forall("lemma adjacent-sorted=>sorted", lambda a_, b_: z3.Implies(z3.And(0 <= a_, a_ <= b_, b_ <= k), E(a_) <= E(b_)), arity=2)
        ctx.prove("post.input run i is covered by output run t", z3.And(e3.get(t) <= E(i), E(i + 1) <= e3.get(t + 1)), pool=pool)
        j = z3.Int("j")
        ctx.skolem(z3.And(h < j, j <= i))
        ctx.prove("post.every run after the head up to i equals its predecessor (==-chain)", merged(j), pool=pool + [j, j + 1, j - 1, rk(j), rk(j + 1)], live=[i])
        # adjacent output runs differ: V(head of t+1) != its predecessor, which is ==-chained to V(h)
        u = z3.Int("u")
        ctx.skolem(z3.And(0 <= u, u + 1 < k3))
        hu, hn = pos(u), pos(u + 1)
        b = z3.Int("b")
        ctx.skolem(z3.And(hu <= b, b + 1 < hn))
        _eq_is_transitive_symmetric(ctx, [V(hu), V(b), V(b + 1), V(hn), V(hn - 1)])
        pl = [u, u + 1, hu, hu + 1, hn, hn - 1, hn + 1, b, b + 1, b + 2, rk(b + 1), rk(b + 2), rk(hu), rk(hu + 1), rk(hn), k, k + 1]
        ctx.prove_then_assume("adjacent.lemma: heads are ordered and inside", z3.And(0 <= hu, hu < hn, hn < k), pool=pl)
        ctx.prove_then_assume("adjacent.chain.lemma: b+1 is merged (not a head), so V(b+1) == V(b)", merged(b + 1), pool=pl, live=[u])
        # induction on b from the head: C(b) = V(hu) == V(b) for hu < b < hn
        ctx.prove("adjacent.chain.base: V(hu) == V(hu+1)", z3.Implies(b == hu, EQ(V(hu), V(b + 1))), pool=pl)
        ctx.prove("adjacent.chain.step: C(b) => C(b+1)", z3.Implies(z3.And(hu < b, EQ(V(hu), V(b))), EQ(V(hu), V(b + 1))), pool=pl)
        ctx.assume_forall("chain (by the induction above)", lambda b_: z3.Implies(z3.And(hu < b_, b_ < hn), EQ(V(hu), V(b_))))
        ctx.prove("post.adjacent output runs differ (numpy ==)", z3.Not(EQ(v3.get(u + 1), v3.get(u))), pool=pl)
        # the contract as callers use it (same formulas as assumed by their stubs): sigma(i) = rank(i+1)-1, head(i) = pos(sigma(i))
        sigma = lambda x: rk(x + 1) - 1
        head = lambda x: pos(rk(x + 1) - 1)
        ground, schemas = contract_join_runs(E, V, k, e3.get, v3.get, k3, sigma, head)
        ctx.prove("contract.ground facts", z3.And(*ground), pool=base)
        ctx.prove("contract." + schemas[0][0], schemas[0][1](i), pool=pool)
        ctx.prove("contract." + schemas[1][0], schemas[1][1](i, j), pool=pool + [j, j + 1, j - 1, rk(j), rk(j + 1)])
        u2 = z3.Int("u2")
        ctx.skolem(z3.And(0 <= u2, u2 < k3))
        ctx.prove("contract." + schemas[2][0], schemas[2][1](u2), pool=[u2, u2 + 1, pos(u2), pos(u2) + 1, pos(u2 + 1), pos(u2 + 1) + 1, k, k + 1, k3, k3 + 1, rk(k), rk(k + 1)])
        ctx.prove("contract." + schemas[3][0], schemas[3][1](u), pool=pl)
        ctx.prove("post.inputs not modified", z3.BoolVal(ev.buf.writes == 0 and va.buf.writes == 0))

    def concrete(self, case):
        from npstructures import RunLengthArray
        ev, va = np.array(case["events"]), np.array(case["values"])
        e3, v3 = RunLengthArray.join_runs(ev.copy(), va.copy())
        keep = [i for i in range(len(va)) if i == 0 or va[i] != va[i - 1]]
        if list(e3) != [ev[i] for i in keep] + [ev[-1]] or list(v3) != [va[i] for i in keep]:
            return {"msg": f"join_runs({case['events']}, {case['values']}) = {list(e3)}, {list(v3)}", "sig": "wrong:rla-join-runs"}

    def concretise(self, kind, model, ghost):
        return {"events": [0, 1, 3, 4, 6], "values": [5, 5, 7, 7]}

    def bounded_cases(self, tier, seed):
        import itertools
        for k in range(1, 6):
            for v in itertools.product((1, 2), repeat=k):
                yield {"events": list(range(0, 2 * k + 1, 2)), "values": list(v)}


def _stub_remove_empty(calls):
    def stub(events, values):
        c = cur()
        k = dim_term(values.shape_[0])
        c.prove("pre(remove_empty_intervals): len(events)==len(values)+1", dim_term(events.shape_[0]) == k + 1, kind="pre")
        k2 = z3.Int(fresh_name("k2"))
        e2 = SymArr.symbolic("e2", k2 + 1, "int", events.dtype, assume_len=False)
        v2 = SymArr.symbolic("v2", k2, values.kind, values.dtype, assume_len=False)
        rho = z3.Function(fresh_name("rho"), z3.IntSort(), z3.IntSort())
        src = z3.Function(fresh_name("src"), z3.IntSort(), z3.IntSort())
        E, V = events.snapshot(), values.snapshot()
        ground, schemas = contract_remove_empty(E, V, k, e2.fn, v2.fn, k2, rho, src)
        for g in ground:
            c.assume(g)
        for nm, fn, ar in schemas:
            c.assume_forall(nm, fn, arity=ar)
        c.add_index(k2, k2 - 1, k2 + 1)
        calls["remove_empty"] = dict(E=E, V=V, k=k, e2=e2, v2=v2, k2=k2, rho=rho, src=src)
        if "after_remove_empty" in calls:
            calls["after_remove_empty"](calls["remove_empty"])
        return e2, v2
    return stub


def _stub_join_runs(calls):
    def stub(events, values):
        c = cur()
        k = dim_term(values.shape_[0])
        E, V = events.snapshot(), values.snapshot()
        x = z3.Int(fresh_name("jr_i"))
        c.prove("pre(join_runs): len(events)==len(values)+1 and at least one run", z3.And(dim_term(events.shape_[0]) == k + 1, k >= 1), kind="pre",
                pool=calls.get("pool_for_join_pre_len", lambda: None)())
        c.prove("pre(join_runs): boundaries strictly increasing", z3.Implies(z3.And(0 <= x, x < k), E(x) < E(x + 1)), kind="pre",
                pool=[x, x + 1] + calls.get("pool_for_join_pre", lambda x_: [])(x))
        k3 = z3.Int(fresh_name("k3"))
        e3 = SymArr.symbolic("e3", k3 + 1, "int", events.dtype, assume_len=False)
        v3 = SymArr.symbolic("v3", k3, values.kind, values.dtype, assume_len=False)
        sigma = z3.Function(fresh_name("sigma"), z3.IntSort(), z3.IntSort())
        head = z3.Function(fresh_name("head"), z3.IntSort(), z3.IntSort())
        ground, schemas = contract_join_runs(E, V, k, e3.fn, v3.fn, k3, sigma, head)
        for g in ground:
            c.assume(g)
        for nm, fn, ar in schemas:
            c.assume_forall(nm, fn, arity=ar)
        c.add_index(k3, k3 - 1, k3 + 1)
        calls["join_runs"] = dict(E=E, V=V, k=k, e3=e3, v3=v3, k3=k3, sigma=sigma, head=head)
        return e3, v3
    return stub


@register
class RlaStepSubset(Family):
    """_step_subset(step) on a canonical array of length N (step != 0, |step| = s symbolic): the result has ceil(N/s) positions and
    position q holds the value of source position q*s (step > 0) or N-1-q*s (step < 0), up to numpy ==; the result is canonical.
    q*s is written MUL(q) and // s is DIV (factored floor division, see sym.arr.div_abstraction); remove_empty_intervals and
    join_runs enter through their proved contracts."""
    name = "RunLengthArray._step_subset"
    qualname = "npstructures.runlengtharray:RunLengthArray._step_subset"
    serves = ["C15", "C14"]
    timeout_ms = 60000
    assumed = ["floor division by s > 0 in factored form: MUL(a // s) <= a < MUL(a // s + 1), MUL(0) = 0, MUL(x+1) = MUL(x) + s (MUL(x) stands for x*s)",
               "callee contract remove_empty_intervals (proved: RunLengthArray.remove_empty_intervals/contract.*)",
               "callee contract join_runs (proved: RunLengthArray.join_runs/contract.*)",
               "numpy == within one dtype is symmetric and transitive (at the element terms of one ==-chain)"]

    def kinds(self):
        return ["forward", "backward"]

    def extra_functions(self):
        return ["RunLengthArray.__init__"]

    def late_lemmas(self, ctx, kind, exc):
        """the RunLengthArray constructor's assertions on join_runs' output cannot fail: first boundary (s-1)//s = 0, one boundary more than values,
        boundaries strictly increasing (join_runs' contract)"""
        calls = ctx.ghost.get("calls", {})
        if not isinstance(exc, AssertionError) or "join_runs" not in calls or "remove_empty" not in calls:
            return
        re, jr = calls["remove_empty"], calls["join_runs"]
        Z, One = z3.IntVal(0), z3.IntVal(1)
        first = re["E"](Z)
        pool = [Z, One, first, first + 1, first.arg(0), re["k2"], jr["k3"], jr["k3"] - 1, jr["k3"] + 1]
        ffs = ctx.ghost.get("forall_facts", [])
        if ffs:
            w = ffs[-1]["w"]
            pool += [w, w + 1, w + 2]
        ctx.prove_then_assume("late.lemma: the constructor's assertions cannot fail", z3.BoolVal(False), pool=pool, kind="lemma")

    def run(self, ctx, kind):
        from npstructures.runlengtharray import RunLengthArray
        from ..sym.arr import div_abstraction
        a = sym_rla(ctx)
        m, E, V, n = a.m, a.E, a.V, a.n
        step = z3.Int("step")
        ctx.assume(step > 0 if kind == "forward" else step < 0)
        s = z3.simplify(abs(SInt(step)).t)
        DIV, MUL = div_abstraction(ctx, s)
        # lemma (induction on d): MUL is strictly increasing
        x, d = z3.Int("x"), z3.Int("d")
        ctx.prove("lemma.MUL increasing.base: MUL(x) < MUL(x+1)", MUL(x) < MUL(x + 1), pool=[x, x + 1], kind="lemma")
        ctx.prove("lemma.MUL increasing.step", z3.Implies(z3.And(d >= 0, MUL(x) < MUL(x + d + 1)), MUL(x) < MUL(x + d + 2)),
                  pool=[x, x + d + 1, x + d + 2], kind="lemma")
        ctx.assume_forall("MUL increasing (by the induction above)", lambda p_, q_: z3.Implies(p_ < q_, MUL(p_) < MUL(q_)), arity=2)
        calls = {}
        old = RunLengthArray.__dict__["remove_empty_intervals"], RunLengthArray.__dict__["join_runs"]
        RunLengthArray.remove_empty_intervals = staticmethod(_stub_remove_empty(calls))
        RunLengthArray.join_runs = staticmethod(_stub_join_runs(calls))

        def pool_for_join_pre(x_):
            re = calls["remove_empty"]
            sx = re["src"](x_)
            return [sx, sx + 1, re["rho"](sx), re["rho"](sx) + 1, re["k2"], re["k"]]
        calls["pool_for_join_pre"] = pool_for_join_pre

        def pool_for_join_pre_len():
            # at least one run survives: the divided boundaries start at (s-1)//s = 0 and end at (N+s-1)//s >= 1
            re = calls["remove_empty"]
            first, last = re["E"](z3.IntVal(0)), re["E"](m)
            return [z3.IntVal(0), z3.IntVal(1), m, re["k2"], first, first + 1, last, last + 1, first.arg(0), last.arg(0)]
        calls["pool_for_join_pre_len"] = pool_for_join_pre_len

        def after_remove_empty(re):
            # lemma: the divided boundaries I(i) = ceil(B(i)/s) are non-decreasing (B increasing, floor division monotone)
            y = z3.Int("y")
            a0, a1 = re["E"](y), re["E"](y + 1)
            ctx.prove("lemma.divided boundaries are non-decreasing", z3.Implies(z3.And(0 <= y, y < m), a0 <= a1), kind="lemma",
                      pool=[y, y + 1, a0, a0 + 1, a1, a1 + 1, a0.arg(0), a1.arg(0), m - y, m - y - 1, m - y + 1, m])
            ctx.assume_forall("divided boundaries non-decreasing (lemma)", lambda y_: z3.Implies(z3.And(0 <= y_, y_ < m), re["E"](y_) <= re["E"](y_ + 1)))
        calls["after_remove_empty"] = after_remove_empty
        # the divided boundaries are non-decreasing (needed for the callee precondition): I(i) <= I(i+1) - instances supplied below
        ctx.ghost["calls"] = calls
        ctx.add_index(m, m - 1, m + 1, z3.IntVal(0), z3.IntVal(1))
        try:
            out = a.obj._step_subset(SInt(step))
        finally:
            RunLengthArray.remove_empty_intervals, RunLengthArray.join_runs = old
        re, jr = calls["remove_empty"], calls["join_runs"]
        Iv, W, e1, v1, k2, rho = re["E"], re["V"], re["e2"].fn, re["v2"].fn, re["k2"], re["rho"]
        e3, v3, k3, sigma, head = jr["e3"].fn, jr["v3"].fn, jr["k3"], jr["sigma"], jr["head"]
        EQ = lambda p_, q_: apply_binary("equal", p_, q_)
        ctx.prove("post.result is built from join_runs' output", z3.BoolVal(out._events is jr["e3"] and out._values is jr["v3"]))
        ctx.prove("post.len == ceil(N/s):  events'[-1] == (N + s - 1) // s", e3(k3) == DIV(n + s - 1), pool=[m, m + 1, k2, k3, z3.IntVal(0)])
        q, u = z3.Int("q"), z3.Int("u")
        srcpos = MUL(q) if kind == "forward" else n - 1 - MUL(q)
        ctx.skolem(z3.And(q >= 0, 0 <= u, u < m, E(u) <= srcpos, srcpos < E(u + 1)))
        i = u if kind == "forward" else m - 1 - u
        lo_, hi_ = Iv(i), Iv(i + 1)
        r1 = rho(i)
        t = sigma(r1)
        h = head(r1)
        pool = [q, q + 1, u, u + 1, i, i + 1, m, m - 1, m + 1, m - u, m - u - 1, lo_, lo_ + 1, hi_, hi_ + 1, lo_.arg(0), hi_.arg(0), r1, r1 + 1, t, t + 1, h,
                k2, k3, z3.IntVal(0), z3.IntVal(1)]
        small = [q, q + 1, u, u + 1, i, i + 1, m, m - u, m - u - 1, lo_, lo_ + 1, hi_, hi_ + 1, lo_.arg(0), hi_.arg(0)]
        ctx.prove_then_assume("post.lemma: the divided run i is [ceil(B(i)/s), ceil(B(i+1)/s)) and contains q", z3.And(lo_ <= q, q < hi_), pool=small)
        ctx.prove_then_assume("post.lemma: run i survives remove_empty_intervals with its value and bounds",
                              z3.And(0 <= r1, r1 < k2, e1(r1) == lo_, e1(r1 + 1) == hi_, v1(r1) == V(u)), pool=[u, u + 1, i, i + 1, m, m - u, m - u - 1], live=[q])
        ctx.prove_then_assume("post.position q lies in output run t", z3.And(0 <= t, t < k3, e3(t) <= q, q < e3(t + 1)), pool=pool)
        ctx.prove_then_assume("post.lemma: output run t carries the value of the chain head h <= r1", z3.And(v3(t) == v1(h), 0 <= h, h <= r1), pool=pool, live=[q])
        # ==-chain from h to r1 (induction on j): v1(h) ~ v1(j), ~ being identity or numpy ==
        j = z3.Int("j")
        sim = lambda p_, q_: z3.Or(p_ == q_, EQ(p_, q_))
        ctx.skolem(z3.And(h <= j, j < r1))
        _eq_is_transitive_symmetric(ctx, [v1(h), v1(j), v1(j + 1)])
        ctx.prove("chain.step: v1(h) ~ v1(j) => v1(h) ~ v1(j+1)", z3.Implies(sim(v1(h), v1(j)), sim(v1(h), v1(j + 1))), pool=pool + [j, j + 1, j - 1], live=[q, u])
        ctx.assume_forall("chain (by induction on j; base j = h is reflexivity of ~)", lambda j_: z3.Implies(z3.And(h <= j_, j_ <= r1), sim(v1(h), v1(j_))))
        ctx.prove_then_assume("post.output value at q ~ source value at q*s (resp. N-1-q*s)", sim(v3(t), V(u)), pool=pool, live=[q])
        # relational form for callers: ANY output run containing q is t (boundaries strictly increasing, pairwise by lemma adjacent-sorted=>sorted)
        ctx.assume_forall("output boundaries increasing (pairwise; lemma adjacent-sorted=>sorted)", lambda a_, b_: z3.Implies(z3.And(0 <= a_, a_ < b_, b_ <= k3), e3(a_) < e3(b_)), arity=2)
        t2 = z3.Int("t2")
        ctx.skolem(z3.And(0 <= t2, t2 < k3, e3(t2) <= q, q < e3(t2 + 1)))
        ctx.prove_then_assume("post.lemma: the output run containing q is unique", t2 == t, pool=[t, t + 1, t2, t2 + 1, q], live=[q, u])
        ground, schemas = contract_step_subset_rel(E, V, m, n, e3, v3, k3, DIV, MUL, s, kind == "forward", sim)
        ctx.prove("contract.ground facts", z3.And(*ground), pool=[m, m + 1, k2, k3, z3.IntVal(0)])
        ctx.prove("contract." + schemas[0][0], schemas[0][1](t2), pool=[t2, t2 + 1], live=[q, u])
        ctx.prove("contract." + schemas[1][0], schemas[1][1](t2, q, u), pool=[t, t2], live=[q, u, t2])
        ctx.prove("post.operand not modified", z3.BoolVal(a.ev.buf.writes == 0 and a.va.buf.writes == 0))

    def concrete(self, case):
        from npstructures import RunLengthArray
        x = np.array(case["a"])
        r = RunLengthArray.from_array(x)
        st = case["step"]
        got = r._step_subset(st)
        exp = x[::st]
        ev, va = np.asarray(got._events), np.asarray(got._values)
        if np.asarray(got).tolist() != exp.tolist() or not np.all(va[1:] != va[:-1]) or not np.all(np.diff(ev) > 0):
            return {"msg": f"_step_subset({st}) on {case['a']}: {np.asarray(got).tolist()} (events {ev.tolist()} values {va.tolist()}), numpy {exp.tolist()}",
                    "sig": "wrong:rla-step_subset"}

    def concretise(self, kind, model, ghost):
        return {"a": [1, 1, 2, 3, 3, 3, 1, 1], "step": 3 if kind == "forward" else -3}

    def bounded_cases(self, tier, seed):
        import itertools
        for nn in range(1, 7):
            for v in itertools.product((1, 2), repeat=nn):
                for st in (1, 2, 3, 4, 7, -1, -2, -3, -5):
                    yield {"a": list(v), "step": st}


@register
class RlaBinaryMerge(Family):
    """_apply_binary_func(first, other, U) for two canonical arrays of the same length N: every position p, lying in run a of `first`
    and run b of `other`, lies in exactly one output run, whose value is U(first.values[a], other.values[b]) (operand order!) up to
    numpy == (join_runs merges ==-equal neighbours); the result is canonical with length N; operands untouched.
    remove_empty_intervals and join_runs enter through their proved contracts."""
    name = "RunLengthArray._apply_binary_func"
    qualname = "npstructures.runlengtharray:RunLengthArray._apply_binary_func"
    serves = ["C16"]
    timeout_ms = 60000
    assumed = ["numpy.searchsorted(side='right') with an array of needles", "numpy.concatenate of 1-D arrays / a one-element list",
               "numpy.argsort(kind='mergesort'): a permutation that sorts (witness form with ghost inverse); audited",
               "integer-array gather a[idx]", "element-wise ufunc U as an uninterpreted function",
               "callee contract remove_empty_intervals (proved: RunLengthArray.remove_empty_intervals/contract.*)",
               "callee contract join_runs (proved: RunLengthArray.join_runs/contract.*)",
               "numpy == within one dtype is symmetric and transitive (at the element terms of one ==-chain)"]

    def extra_functions(self):
        return ["RunLengthArray.__init__", "RunLengthArray.__len__"]

    def setup(self, ctx):
        from npstructures.runlengtharray import RunLengthArray
        A = sym_rla(ctx, "fst")
        B = sym_rla(ctx, "oth")
        ctx.assume(A.n == B.n)
        calls = {}
        ctx.ghost["calls"] = calls
        mf, mo = A.m, B.m
        L = z3.simplify(mf + mo)

        def pool_for_join_pre(x_):
            re = calls["remove_empty"]
            sx = re["src"](x_)
            return [sx, sx + 1, re["rho"](sx), re["rho"](sx) + 1, re["k2"], re["k"]]
        calls["pool_for_join_pre"] = pool_for_join_pre

        def pool_for_join_pre_len():
            # at least one run survives: the smallest sorted boundary is <= events[0] = 0 and the largest >= events[L-1] = N >= 1
            ag = ctx.ghost["argsorts"][-1]
            Z = z3.IntVal(0)
            return [Z, z3.IntVal(1), L - 1, L, ag["inv"](Z), ag["inv"](L - 1), ag["perm"](Z), ag["perm"](L - 1), mf, mo, mf - 1, mo - 1, calls["remove_empty"]["k2"]]
        calls["pool_for_join_pre_len"] = pool_for_join_pre_len

        def after_remove_empty(re):
            # the sorted boundaries are non-decreasing: the argsort contract itself (adjacent form)
            ctx.assume_forall("sorted boundaries non-decreasing (argsort contract)",
                              lambda y_: z3.Implies(z3.And(0 <= y_, y_ + 1 < L), re["E"](y_) <= re["E"](y_ + 1)))
        calls["after_remove_empty"] = after_remove_empty
        ctx.ghost["merge"] = (A, B, L)
        return A, B, calls, L

    def late_lemmas(self, ctx, kind, exc):
        """exception paths: the failing check is contradicted from explicitly chosen instances (tight pools)"""
        A, B, L = ctx.ghost["merge"]
        mf, mo = A.m, B.m
        Z, One = z3.IntVal(0), z3.IntVal(1)
        ags = ctx.ghost.get("argsorts", [])
        if isinstance(exc, IndexError):
            w = ctx.ghost["forall_facts"][-1]["w"]
            if not ags:
                # values[searchsorted(events, needles, 'right') - 1]: every needle is < the last boundary, so the index is < #runs
                pool = [w, w + 1, w + 2, mf, mo, mf - 1, mo - 1, Z, One]
            else:
                # values[args[:-1]]: the last concatenated boundary (N) is the unique maximum, so it is sorted last: perm(t) != L-1 for t < L-1
                perm, inv = ags[-1]["perm"], ags[-1]["inv"]
                j2 = perm(w + 1)
                pool = [w, w + 1, perm(w), j2, inv(L - 1), L - 1, L, j2 - mf + 1, j2 - mf, mf, mo, Z, One, inv(j2)]
            ctx.prove_then_assume("late.lemma: the index bounds check cannot fail", z3.BoolVal(False), pool=pool, kind="lemma")
        elif isinstance(exc, AssertionError) and ags:
            perm, inv = ags[-1]["perm"], ags[-1]["inv"]
            re = ctx.ghost["calls"].get("remove_empty")
            jr = ctx.ghost["calls"].get("join_runs")
            pool = [Z, One, inv(Z), perm(Z), perm(Z) - mf + 1, perm(Z) - mf, mf, mo, L - 1, L]
            if re is not None:
                ctx.prove_then_assume("late.lemma: the smallest sorted boundary is 0", re["E"](Z) == 0, pool=pool, kind="lemma")
            if jr is not None:
                ffs = ctx.ghost.get("forall_facts", [])
                w = ffs[-1]["w"] if ffs else Z
                ctx.prove_then_assume("late.lemma: the constructor's assertions cannot fail", z3.BoolVal(False), kind="lemma",
                                      pool=[Z, One, w, w + 1, w + 2, jr["k3"], jr["k3"] + 1, jr["k3"] - 1])

    def run(self, ctx, kind):
        from npstructures.runlengtharray import RunLengthArray
        A, B, calls, L = self.setup(ctx)
        mf, mo, F, O, fv, ov, N = A.m, B.m, A.E, B.E, A.V, B.V, A.n
        ctx.add_index(mf, mf - 1, mo, mo - 1, L, L - 1, z3.IntVal(0), z3.IntVal(1))
        old = RunLengthArray.__dict__["remove_empty_intervals"], RunLengthArray.__dict__["join_runs"]
        RunLengthArray.remove_empty_intervals = staticmethod(_stub_remove_empty(calls))
        RunLengthArray.join_runs = staticmethod(_stub_join_runs(calls))
        try:
            out = RunLengthArray._apply_binary_func(A.obj, B.obj, np.subtract)
        finally:
            RunLengthArray.remove_empty_intervals, RunLengthArray.join_runs = old
        U = lambda x_, y_: apply_binary("subtract", x_, y_)
        re, jr = calls["remove_empty"], calls["join_runs"]
        Es, Vs, e1, v1, k2, rho = re["E"], re["V"], re["e2"].fn, re["v2"].fn, re["k2"], re["rho"]
        e3, v3, k3, sigma, head = jr["e3"].fn, jr["v3"].fn, jr["k3"], jr["sigma"], jr["head"]
        ag = ctx.ghost["argsorts"][-1]
        perm, inv = ag["perm"], ag["inv"]
        EQ = lambda p_, q_: apply_binary("equal", p_, q_)
        Z = z3.IntVal(0)
        ends = [Z, z3.IntVal(1), L - 1, L, inv(Z), inv(L - 1), perm(Z), perm(L - 1), mf, mo, mf - 1, mo - 1, k2, k3]
        ctx.prove("post.result is built from join_runs' output", z3.BoolVal(out._events is jr["e3"] and out._values is jr["v3"]))
        ctx.prove_then_assume("post.lemma: sorted boundaries run from 0 to N", z3.And(Es(Z) == 0, Es(L - 1) == N), pool=ends)
        ctx.prove("post.length kept: events'[0] == 0 and events'[-1] == N", z3.And(e3(0) == 0, e3(k3) == N), pool=ends)
        p, a, b = z3.Int("p"), z3.Int("a"), z3.Int("b")
        ctx.skolem(z3.And(0 <= a, a < mf, F(a) <= p, p < F(a + 1), 0 <= b, b < mo, O(b) <= p, p < O(b + 1)))
        # partition point of p among the sorted boundaries (induction on k with witness w)
        w = z3.Function(fresh_name("w"), z3.IntSort(), z3.IntSort())
        k = z3.Int("k")
        P = lambda k_, wit: z3.Implies(z3.And(1 <= k_, k_ <= L - 1, Es(Z) <= p, p < Es(k_)), z3.And(0 <= wit, wit < k_, Es(wit) <= p, p < Es(wit + 1)))
        ctx.prove("partition.base: k = 1", P(z3.IntVal(1), Z), pool=[Z, z3.IntVal(1)], live=[a, b])
        wit = z3.If(p < Es(k), w(k), k)
        ctx.prove("partition.step: P(k) => P(k+1) with witness w(k) if p < Es(k) else k", z3.Implies(z3.And(k >= 1, P(k, w(k))), P(k + 1, wit)),
                  pool=[k, k + 1, w(k), w(k) + 1, Z], live=[a, b])
        ctx.assume_forall("partition point (by the induction above)", lambda k_: P(k_, w(k_)))
        t = w(L - 1)
        j = perm(t)
        ia = inv(a)
        jb = z3.If(b == 0, Z, mf + b - 1)          # index of O(b) among the concatenated boundaries
        ib = inv(jb)
        r1 = rho(t)
        t3 = sigma(r1)
        h = head(r1)
        ctx.prove_then_assume("post.lemma: p lies between two consecutive sorted boundaries t, t+1", z3.And(0 <= t, t < L - 1, Es(t) <= p, p < Es(t + 1)),
                              pool=[L - 1, Z, a, a + 1, mf], live=[p, a, b])
        ctx.prove_then_assume("post.lemma: the start of p's run in `first` is a boundary not after Es(t)", z3.And(ia <= t, F(a) <= Es(t)),
                              pool=[a, ia, t, t + 1, mf], live=[p, a, b])
        ctx.prove_then_assume("post.lemma: the start of p's run in `other` is a boundary not after Es(t)", z3.And(ib <= t, O(b) <= Es(t)),
                              pool=[jb, ib, t, t + 1, b, b - 1, Z, mf], live=[p, a, b])
        jo = j - mf
        vpool = [t, j, a, a + 1, b, b + 1, Z, mf, mo, L - 1]
        ctx.prove_then_assume("post.lemma: sorted boundary t is entry j = perm(t) < L-1 of the concatenated boundaries", z3.And(0 <= j, j < L - 1, inv(j) == t),
                              pool=[t, t + 1, L - 1, inv(L - 1), perm(t + 1), j], live=[p, a, b])
        ctx.prove_then_assume("post.lemma.case j == 0: both arrays start their first run there", z3.Implies(j == 0, z3.And(a == 0, b == 0)), pool=vpool, live=[p])
        ctx.prove_then_assume("post.lemma.case 0 < j < len(first.runs): the boundary is first.events[j], so j == a and other's run there is b",
                              z3.Implies(z3.And(0 < j, j < mf), z3.And(j == a, Vs(t) == U(fv(a), ov(b)))), pool=vpool + [j - 1, j + 1], live=[p])
        ctx.prove_then_assume("post.lemma.case j >= len(first.runs): the boundary is other.events[j-mf+1], so that run is b and first's run there is a",
                              z3.Implies(j >= mf, z3.And(jo + 1 == b, Vs(t) == U(fv(a), ov(b)))), pool=vpool + [jo, jo + 1, jo + 2], live=[p])
        ctx.prove_then_assume("post.lemma: the value at sorted boundary t is U(first.values[a], other.values[b])", Vs(t) == U(fv(a), ov(b)), pool=[t, j, Z], live=[p, a, b])
        small = [t, t + 1, r1, r1 + 1, t3, t3 + 1, h, k2, k3, L - 1]
        ctx.prove_then_assume("post.lemma: run t survives remove_empty_intervals", z3.And(0 <= r1, r1 < k2, e1(r1) == Es(t), e1(r1 + 1) == Es(t + 1), v1(r1) == Vs(t)),
                              pool=small, live=[p, a, b])
        ctx.prove("post.position p lies in output run t3", z3.And(0 <= t3, t3 < k3, e3(t3) <= p, p < e3(t3 + 1)), pool=small, live=[a, b])
        ctx.prove_then_assume("post.lemma: output run t3 carries the value of the chain head h <= r1", z3.And(v3(t3) == v1(h), 0 <= h, h <= r1), pool=small, live=[p, a, b])
        jj = z3.Int("jj")
        sim = lambda p_, q_: z3.Or(p_ == q_, EQ(p_, q_))
        ctx.skolem(z3.And(h <= jj, jj < r1))
        _eq_is_transitive_symmetric(ctx, [v1(h), v1(jj), v1(jj + 1)])
        ctx.prove("chain.step: v1(h) ~ v1(j) => v1(h) ~ v1(j+1)", z3.Implies(sim(v1(h), v1(jj)), sim(v1(h), v1(jj + 1))), pool=small + [jj, jj + 1, jj - 1], live=[p, a, b])
        ctx.assume_forall("chain (by induction on j; base j = h is reflexivity of ~)", lambda j_: z3.Implies(z3.And(h <= j_, j_ <= r1), sim(v1(h), v1(j_))))
        ctx.prove("post.output value at p ~ U(first[p], other[p]) in operand order", sim(v3(t3), U(fv(a), ov(b))), pool=small, live=[p])
        ctx.prove("post.operands not modified", z3.BoolVal(A.ev.buf.writes == 0 and A.va.buf.writes == 0 and B.ev.buf.writes == 0 and B.va.buf.writes == 0))

    def concrete(self, case):
        from npstructures import RunLengthArray
        x, y = np.array(case["a"]), np.array(case["b"])
        r = RunLengthArray._apply_binary_func(RunLengthArray.from_array(x), RunLengthArray.from_array(y), np.subtract)
        ev, va = np.asarray(r._events), np.asarray(r._values)
        if np.asarray(r).tolist() != (x - y).tolist() or not np.all(va[1:] != va[:-1]) or not np.all(np.diff(ev) > 0):
            return {"msg": f"rla({case['a']}) - rla({case['b']}) = {np.asarray(r).tolist()} (events {ev.tolist()}, values {va.tolist()})", "sig": "wrong:rla-binary"}

    def concretise(self, kind, model, ghost):
        return {"a": [1, 1, 2, 2, 2, 5], "b": [3, 4, 4, 4, 6, 6]}

    def bounded_cases(self, tier, seed):
        import itertools
        for nn in range(1, 5):
            for x in itertools.product((0, 1, 3), repeat=nn):
                for y in itertools.product((0, 2), repeat=nn):
                    yield {"a": list(x), "b": list(y)}


@register
class RlaGetItemDispatch(Family):
    """RunLengthArray.__getitem__: which callee serves which kind of index, with which argument (callees have their own families):
    integer -> _get_position(i); list / integer array -> _get_position(array); dense boolean mask -> _get_position(flatnonzero(mask));
    slice -> _get_slice(slice); run-length boolean mask -> _getitem_bool(mask); slice with vector start/stop -> _ragged_slice(starts, stops);
    Ellipsis / () / (Ellipsis,) -> the array itself; (x,) -> as x; _getitem_bool hands the True runs' [start, end) windows to _start_to_end."""
    name = "RunLengthArray.__getitem__"
    qualname = "npstructures.runlengtharray:RunLengthArray.__getitem__"
    serves = ["C15"]
    assumed = ["callee contracts: _get_position, _get_slice, _start_to_end scalar and vector form, RunLengthRaggedArray.ravel (own families)",
               "numpy.flatnonzero contract (rank / position functions)"]

    def kinds(self):
        return ["int", "npint", "list", "intarray", "boolmask", "slice", "rlemask", "windows", "ellipsis", "()", "(ellipsis,)", "(int,)", "(slice, ellipsis)",
                "getitem_bool"]

    def extra_functions(self):
        return ["NPSIndexable.__getitem__", "RunLengthArray._getitem_bool"]

    def run(self, ctx, kind):
        from npstructures.runlengtharray import RunLengthArray, RunLengthRaggedArray
        import npstructures.runlengtharray as mod
        a = sym_rla(ctx)
        obj = a.obj
        log = []
        names = ["_get_position", "_get_slice", "_getitem_bool", "_ragged_slice", "_start_to_end"]
        if kind == "getitem_bool":
            names = ["_start_to_end"]
        old = {nm: RunLengthArray.__dict__[nm] for nm in names}
        for nm in names:
            setattr(RunLengthArray, nm, (lambda nm_: lambda self_, *args: log.append((nm_,) + args) or ("RESULT", nm_))(nm))

        # the ValueError raised (and caught) on the way formats the index; the text is irrelevant, and __str__ decodes through the stubbed callees
        old_str = RunLengthArray.__dict__["__str__"]
        RunLengthArray.__str__ = lambda self_: "<rla>"

        class RaggedStub:
            def __init__(self, *args):
                log.append(("RunLengthRaggedArray",) + args)

            def ravel(self):
                log.append(("ravel",))
                return "RAVELLED"
        old_rr = mod.RunLengthRaggedArray
        mod.RunLengthRaggedArray = RaggedStub
        i = SInt(z3.Int("i"))
        sl = slice(SInt(z3.Int("lo")), SInt(z3.Int("hi")), SInt(z3.Int("st")))
        try:
            if kind == "int":
                out = obj[i]
                ok = out == ("RESULT", "_get_position") and len(log) == 1 and log[0][0] == "_get_position" and log[0][1] is i
            elif kind == "npint":
                v = np.int64(3)
                out = obj[v]
                ok = out == ("RESULT", "_get_position") and len(log) == 1 and log[0][1] is v
            elif kind == "list":
                out = obj[[2, 0, -1]]
                ok = out == ("RESULT", "_get_position") and len(log) == 1 and isinstance(log[0][1], np.ndarray) and log[0][1].tolist() == [2, 0, -1]
            elif kind == "intarray":
                k = z3.Int("k")
                ctx.assume(k >= 0)
                idx = SymArr.symbolic("idx", k, "int", np.int64, assume_len=False)
                out = obj[idx]
                ok = out == ("RESULT", "_get_position") and len(log) == 1 and log[0][1] is idx
            elif kind == "boolmask":
                mk = SymArr.symbolic("mask", a.n, "bool", bool, assume_len=False)
                out = obj[mk]
                ok = out == ("RESULT", "_get_position") and len(log) == 1
                pos = log[0][1]
                nz = pos.nz
                t = z3.Int("t")
                ctx.prove("post.as many positions as True cells", dim_term(pos.shape_[0]) == nz.cnt)
                ctx.skolem(z3.And(0 <= t, t < nz.cnt))
                ctx.prove("post.the positions handed on are the True cells of the mask, in order",
                          z3.And(pos.get(t) == nz.pos(t), mk.fn(nz.pos(t)), 0 <= nz.pos(t), nz.pos(t) < a.n, z3.Implies(t + 1 < nz.cnt, nz.pos(t) < nz.pos(t + 1))),
                          pool=[t, t + 1, nz.pos(t), nz.pos(t + 1)])
                q = z3.Int("q")
                ctx.skolem(z3.And(0 <= q, q < a.n, mk.fn(q)))
                ctx.prove("post.every True cell is handed on", z3.And(0 <= nz.rk(q), nz.rk(q) < nz.cnt, pos.get(nz.rk(q)) == q), pool=[q, nz.rk(q)])
            elif kind == "slice":
                out = obj[sl]
                ok = out == ("RESULT", "_get_slice") and len(log) == 1 and log[0][1] is sl
            elif kind == "rlemask":
                mk = sym_rla(ctx, "mask", kind="bool")
                mk.va.dtype = np.dtype(bool)
                out = obj[mk.obj]
                ok = out == ("RESULT", "_getitem_bool") and len(log) == 1 and log[0][1] is mk.obj
            elif kind == "windows":
                k = z3.Int("k")
                ctx.assume(k >= 0)
                st = SymArr.symbolic("starts", k, "int", np.int64, assume_len=False)
                en = SymArr.symbolic("stops", k, "int", np.int64, assume_len=False)
                out = obj[st:en]
                ok = out == ("RESULT", "_ragged_slice") and len(log) == 1 and log[0][1] is st and log[0][2] is en
            elif kind == "ellipsis":
                out = obj[...]
                ok = out is obj and not log
            elif kind == "()":
                out = obj[()]
                ok = out is obj and not log
            elif kind == "(ellipsis,)":
                out = obj[(Ellipsis,)]
                ok = out is obj and not log
            elif kind == "(int,)":
                out = obj[(i,)]
                ok = out == ("RESULT", "_get_position") and len(log) == 1 and log[0][1] is i
            elif kind == "(slice, ellipsis)":
                out = obj[(sl, Ellipsis)]
                ok = out == ("RESULT", "_get_slice") and len(log) == 1 and log[0][1] is sl
            else:
                mk = sym_rla(ctx, "mask", kind="bool")
                mk.va.dtype = np.dtype(bool)
                out = obj._getitem_bool(mk.obj)
                ok = out == "RAVELLED" and [e[0] for e in log] == ["_start_to_end", "RunLengthRaggedArray", "ravel"] and log[1][1:] == ("RESULT", "_start_to_end")
                starts, ends = log[0][1], log[0][2]
                nz = starts.nz
                t = z3.Int("t")
                ctx.prove("post.one window per True run", z3.And(dim_term(starts.shape_[0]) == nz.cnt, dim_term(ends.shape_[0]) == nz.cnt))
                ctx.skolem(z3.And(0 <= t, t < nz.cnt))
                u = nz.pos(t)
                ctx.prove("post.window t is [start, end) of the t-th True run of the mask",
                          z3.And(0 <= u, u < mk.m, mk.V(u), starts.get(t) == mk.E(u), ends.get(t) == mk.E(u + 1)), pool=[t, t + 1, u, u + 1])
                q = z3.Int("q")
                ctx.skolem(z3.And(0 <= q, q < mk.m, mk.V(q)))
                ctx.prove("post.every True run gives a window", z3.And(0 <= nz.rk(q), nz.rk(q) < nz.cnt, starts.get(nz.rk(q)) == mk.E(q), ends.get(nz.rk(q)) == mk.E(q + 1)),
                          pool=[q, q + 1, nz.rk(q)])
        finally:
            for nm in names:
                setattr(RunLengthArray, nm, old[nm])
            RunLengthArray.__str__ = old_str
            mod.RunLengthRaggedArray = old_rr
        ctx.prove(f"post.dispatch for {kind}", z3.BoolVal(bool(ok)))
        ctx.prove("post.operand not modified", z3.BoolVal(a.ev.buf.writes == 0 and a.va.buf.writes == 0))

    def concrete(self, case):
        from npstructures import RunLengthArray
        x = np.array(case["a"])
        r = RunLengthArray.from_array(x)
        n = len(x)
        mask = np.array([(i * 7) % 3 != 0 for i in range(n)])
        probes = [("[...]", r[...], x[...]), ("[()]", r[()], x), ("[mask]", r[mask], x[mask]), ("[rle mask]", r[RunLengthArray.from_array(mask)], x[mask]),
                  ("[(slice(1,None),)]", r[(slice(1, None),)], x[1:]), ("[[0,-1]]", r[[0, -1]], x[[0, -1]])]
        for what, got, exp in probes:
            if np.asarray(got).tolist() != np.asarray(exp).tolist():
                return {"msg": f"rla{what} with rla = {case['a']}: {np.asarray(got).tolist()}, numpy {np.asarray(exp).tolist()}", "sig": "wrong:rla-getitem-dispatch"}

    def concretise(self, kind, model, ghost):
        return {"a": [1, 1, 2, 3, 3]}

    bounded_cases = RlaUfunc.bounded_cases


@register
class RlaStartToEndVector(Family):
    """_start_to_end(starts, ends), vector form (run-length masks and rla[starts:ends] windows): for k windows with 0 <= starts[i] < ends[i] <= N
    row i of the returned ragged (events, values) pair is a canonical run-length encoding of length ends[i] - starts[i] whose dense content is
    Dense[starts[i] + p].  ragged_slice and the ragged operations on its result enter through their contracts (SpecRagged, audited)."""
    name = "RunLengthArray._start_to_end[vector]"
    qualname = "npstructures.runlengtharray:RunLengthArray._start_to_end"
    serves = ["C15", "C17"]
    timeout_ms = 30000
    assumed = ["numpy.searchsorted (left and right) with a vector of needles on the sorted run boundaries",
               "callee contract ragged_slice(array, starts, ends): row i = array[starts[i]:ends[i]] (window arithmetic proved in raggedslice.ragged_slice; gather in build_indices)",
               "RaggedArray operations through their contracts (SpecRagged: x - column, x[..., 0] = v, x[..., -1] = v; audited)"]

    def run(self, ctx, kind):
        import npstructures.runlengtharray as mod
        from .specragged import spec_ragged_slice
        a = sym_rla(ctx)
        m, E, V, N = a.m, a.E, a.V, a.n
        k = z3.Int("k")
        ctx.assume(k >= 0)
        st = SymArr.symbolic("starts", k, "int", np.int64, assume_len=False)
        en = SymArr.symbolic("ends", k, "int", np.int64, assume_len=False)
        ST, EN = st.fn, en.fn
        ctx.assume_forall("windows are non-empty and inside the array", lambda i_: z3.Implies(z3.And(0 <= i_, i_ < k), z3.And(0 <= ST(i_), ST(i_) < EN(i_), EN(i_) <= N)))
        ctx.add_index(m, m - 1, m + 1, z3.IntVal(0), z3.IntVal(1))
        log = {}
        log["pool_for_window_pre"] = lambda i_: [i_, m, m - 1, m + 1, z3.IntVal(0), z3.IntVal(1)]
        old = mod.ragged_slice
        mod.ragged_slice = spec_ragged_slice(log)
        try:
            ev, va = a.obj._start_to_end(st, en)
        finally:
            mod.ragged_slice = old
        wv, we = log["ragged_slice"][0], log["ragged_slice"][1]
        si, ei = wv["starts"], wv["ends"]              # start_idx, end_idx as handed to ragged_slice for the values
        ctx.prove("post.values are cut out of the value array, boundaries out of the boundary array", z3.BoolVal(wv["array"] is a.va and we["array"] is a.ev))
        i = z3.Int("i")
        ctx.skolem(z3.And(0 <= i, i < k))
        base = [i, si(i), si(i) + 1, ei(i), ei(i) - 1, ei(i) + 1, m, m - 1, z3.IntVal(0)]
        ctx.prove_then_assume("post.lemma: the run window [si, ei) of window i: run si contains starts[i], run ei-1 contains ends[i]-1",
                              z3.And(0 <= si(i), si(i) < ei(i), ei(i) <= m, E(si(i)) <= ST(i), ST(i) < E(si(i) + 1), E(ei(i) - 1) < EN(i), EN(i) <= E(ei(i)),
                                     we["starts"](i) == si(i), we["ends"](i) == ei(i) + 1), pool=base)
        nr = ei(i) - si(i)
        ctx.prove("post.row i has ei - si >= 1 runs and one boundary more", z3.And(va._shape.L(i) == nr, ev._shape.L(i) == nr + 1, nr >= 1,
                                                                                  ev._shape.n == k, va._shape.n == k), pool=base)
        ctx.prove("post.row i: first boundary 0, last boundary ends[i] - starts[i]", z3.And(ev.cell(i, z3.IntVal(0)) == 0, ev.cell(i, nr) == EN(i) - ST(i)), pool=base)
        t = z3.Int("t")
        ctx.skolem(z3.And(0 <= t, t < nr))
        pool = base + [t, t + 1, si(i) + t, si(i) + t + 1]
        ctx.prove("post.row i: run t carries the value of source run si + t", va.cell(i, t) == V(si(i) + t), pool=pool)
        ctx.prove("post.row i: strictly increasing boundaries", ev.cell(i, t) < ev.cell(i, t + 1), pool=pool)
        p, u = z3.Int("p"), z3.Int("u")
        ctx.skolem(z3.And(ev.cell(i, t) <= p, p < ev.cell(i, t + 1)))
        ctx.skolem(z3.And(0 <= u, u < m, E(u) <= ST(i) + p, ST(i) + p < E(u + 1)))
        ctx.prove("post.Dense'[i][p] == Dense[starts[i] + p]: position p of row i lies in the run cut from the source run containing starts[i] + p",
                  z3.And(u == si(i) + t, va.cell(i, t) == V(u)), pool=pool + [u, u + 1, p], live=[p])
        ctx.prove("post.operand not modified", z3.BoolVal(a.ev.buf.writes == 0 and a.va.buf.writes == 0))

    def concrete(self, case):
        from npstructures import RunLengthArray
        x = np.array(case["a"])
        r = RunLengthArray.from_array(x)
        n = len(x)
        wins = [(lo, hi) for lo in range(n) for hi in range(lo + 1, n + 1)]
        if not wins:
            return None
        starts, ends = np.array([w[0] for w in wins]), np.array([w[1] for w in wins])
        got = r[starts:ends]
        rows = [np.asarray(row).tolist() for row in got]
        exp = [x[lo:hi].tolist() for lo, hi in wins]
        if rows != exp:
            bad = [j for j in range(len(wins)) if rows[j] != exp[j]][0]
            return {"msg": f"rla[starts:ends] with rla = {case['a']}, window {wins[bad]}: {rows[bad]}, numpy {exp[bad]}", "sig": "wrong:rla-windows"}

    def concretise(self, kind, model, ghost):
        return {"a": [1, 1, 2, 3, 3, 3, 1]}

    bounded_cases = RlaUfunc.bounded_cases


@register
class RlaSum(Family):
    """sum() of a signed-integer RunLengthArray equals the sum of the decoded array: with DS the prefix sums of the dense content
    (DS(p+1) = DS(p) + values[run(p)]), np.sum(diff(events) * values) == DS(N).  Two inductions: along a run (a run of length c adds c * value) and
    over the runs.  Integers are mathematical (no overflow); the products length * value are nonlinear terms handled by the solver's arithmetic."""
    name = "RunLengthArray.sum"
    qualname = "npstructures.runlengtharray:RunLengthArray.sum"
    serves = ["C16"]
    timeout_ms = 30000
    assumed = ["numpy.diff, element-wise multiply, numpy.sum = last prefix sum", "integer data as mathematical integers",
               "lemma partition-point (the run containing a position)"]

    def run(self, ctx, kind):
        from ..sym.theory import prefix_sum
        a = sym_rla(ctx, kind="int")
        m, E, V, n = a.m, a.E, a.V, a.n
        run_ = z3.Function(fresh_name("run"), z3.IntSort(), z3.IntSort())
        ctx.assume_forall("run", lambda p: z3.Implies(z3.And(0 <= p, p < n), z3.And(0 <= run_(p), run_(p) < m, E(run_(p)) <= p, p < E(run_(p) + 1))))
        DS = z3.Function(fresh_name("DS"), z3.IntSort(), z3.IntSort())
        ctx.assume(DS(0) == 0)
        ctx.assume_forall("DS.step (spec: prefix sums of the decoded array)", lambda p: z3.Implies(z3.And(0 <= p, p < n), DS(p + 1) == DS(p) + V(run_(p))))
        res = a.obj.sum()
        pss = ctx.ghost["prefix_sums"][-1]
        PP = pss["ps"]                            # prefix sums of lengths * values
        ctx.prove("post.sum is the last prefix sum of length * value over the runs", z3.And(res.t == PP(m), pss["n"] == m), pool=[m])
        t, c = z3.Int("t"), z3.Int("c")
        ctx.skolem(z3.And(0 <= t, t < m, 0 <= c, c < E(t + 1) - E(t)))
        p = E(t) + c
        ctx.prove_then_assume("lemma: position E(t)+c lies in run t", run_(p) == t, pool=[p, t, t + 1, run_(p), run_(p) + 1])
        inv = lambda c_: DS(E(t) + c_) == DS(E(t)) + c_ * V(t)
        ctx.prove("lemmaA.base: c = 0", inv(z3.IntVal(0)), pool=[t], live=[c])
        ctx.prove("lemmaA.step: along run t from c to c+1", z3.Implies(inv(c), inv(c + 1)), pool=[p, p + 1, t, c])
        ctx.assume_forall("lemmaA (by induction on c)", lambda t_, c_: z3.Implies(z3.And(0 <= t_, t_ < m, 0 <= c_, c_ <= E(t_ + 1) - E(t_)), DS(E(t_) + c_) == DS(E(t_)) + c_ * V(t_)), arity=2)
        t2 = z3.Int("t2")
        ctx.skolem(z3.And(0 <= t2, t2 < m))
        ctx.prove("lemmaB.base: PP(0) == DS(E(0))", PP(0) == DS(E(0)), pool=[z3.IntVal(0)], live=[t2])
        ctx.prove("lemmaB.step: over the runs", z3.Implies(PP(t2) == DS(E(t2)), PP(t2 + 1) == DS(E(t2 + 1))), pool=[t2, t2 + 1, E(t2 + 1) - E(t2)])
        ctx.assume_forall("lemmaB (by induction on t)", lambda t_: z3.Implies(z3.And(0 <= t_, t_ <= m), PP(t_) == DS(E(t_))))
        ctx.prove("post.sum() == sum of the decoded array", res.t == DS(n), pool=[m], live=[t2])
        ctx.prove("post.operand not modified", z3.BoolVal(a.ev.buf.writes == 0 and a.va.buf.writes == 0))

    def concrete(self, case):
        from npstructures import RunLengthArray
        x = np.array(case["a"])
        r = RunLengthArray.from_array(x)
        if r.sum() != x.sum() or np.sum(r) != x.sum():
            return {"msg": f"sum of rla({case['a']}) = {r.sum()}, numpy {x.sum()}", "sig": "wrong:rla-sum"}

    def concretise(self, kind, model, ghost):
        return {"a": [3, 3, -5, 7, 7, 7]}

    bounded_cases = RlaUfunc.bounded_cases


@register
class RlaMean(Family):
    """RunLengthArray.mean() against the contract of its callee: the callee's `sum()` (proved for integers: RunLengthArray.sum) of an array with the same
    run boundaries and the receiver's values (value-preserving conversion to float allowed), divided by the length of the decoded array.  Float division is an uninterpreted function of its operands; the float sum itself stays with the bounded stand-in."""
    name = "RunLengthArray.mean"
    qualname = "npstructures.runlengtharray:RunLengthArray.mean"
    serves = ["C16"]
    assumed = ["callee contract RunLengthArray.sum (integer values proved in RunLengthArray.sum; float sums: bounded stand-in)",
               "numpy true division as an uninterpreted function of its two operands", "int -> float conversion as a value-preserving embedding"]

    def kinds(self):
        return ["int64", "float64"]

    def extra_functions(self):
        return ["RunLengthArray.astype", "RunLengthArray.__init__", "RunLengthArray.size"]

    def run(self, ctx, kind):
        from npstructures.runlengtharray import RunLengthArray
        from ..sym.arr import SElem, coerce_term, apply_binary
        dt = np.dtype(kind)
        a = sym_rla(ctx, kind="int" if dt.kind == "i" else "elem")
        a.va.dtype = dt
        m, E, V = a.m, a.E, a.V
        sumc = z3.Const("callee_sum", ElemSort)
        calls = []
        old = RunLengthArray.__dict__["sum"]

        def sum_stub(self_, *args, **kw):
            calls.append((self_, args, kw))
            return SElem(sumc, np.float64)
        RunLengthArray.sum = sum_stub
        try:
            res = a.obj.mean()
        finally:
            RunLengthArray.sum = old
        ok = len(calls) == 1
        ctx.prove("post.exactly one sum", z3.BoolVal(ok))
        if not ok:
            return
        recv = calls[0][0]
        ctx.prove("post.the summed array has as many runs", z3.And(dim_term(recv._values.shape_[0]) == m, dim_term(recv._events.shape_[0]) == m + 1))
        t = z3.Int("t")
        ctx.skolem(z3.And(0 <= t, t <= m))
        ctx.prove("post.the summed array has the receiver's run boundaries", recv._events.get(t) == E(t), pool=[t])
        t2 = z3.Int("t2")
        ctx.skolem(z3.And(0 <= t2, t2 < m))
        # value-preserving: converted to float or left as they are (an exact integer sum divided afterwards is the same mean)
        ctx.prove("post.the summed array holds the receiver's values", coerce_term(recv._values.get(t2), "elem") == coerce_term(V(t2), "elem"), pool=[t2])
        ctx.prove("post.mean == sum / length of the decoded array", z3.And(z3.BoolVal(isinstance(res, SElem)),
                  (res.t if isinstance(res, SElem) else sumc) == apply_binary("true_divide", sumc, E(m))), pool=[m])
        ctx.prove("post.operand not modified", z3.BoolVal(a.ev.buf.writes == 0 and a.va.buf.writes == 0))

    def concrete(self, case):
        import math
        from npstructures import RunLengthArray
        x = np.array(case["a"], dtype=case["dt"])
        r = RunLengthArray.from_array(x)
        exp = sum(float(v) for v in x.tolist()) / len(x)
        for what, f in (("mean()", lambda: r.mean()), ("np.mean", lambda: np.mean(r))):
            try:
                got = f()
            except Exception as e:
                return {"msg": f"{what} of rla({case['a']}, {case['dt']}) raised {type(e).__name__}: {e}", "sig": "raised:rla-mean"}
            if not math.isclose(float(got), exp, rel_tol=1e-12, abs_tol=1e-12):
                return {"msg": f"{what} of rla({case['a']}, {case['dt']}) = {got}, expected {exp}", "sig": "wrong:rla-mean"}

    def concretise(self, kind, model, ghost):
        return {"a": [3, 3, -5, 7, 7, 7, 2] if kind == "int64" else [0.5, 0.5, 2.25, -1.0, -1.0], "dt": kind}

    def bounded_cases(self, tier, seed):
        for case in RlaUfunc.bounded_cases(self, tier, seed):
            if "a" in case and len(case["a"]):
                yield {"a": case["a"], "dt": "int64"}
                yield {"a": [v / 2 for v in case["a"]], "dt": "float64"}


@register
class RlaHistogram(Family):
    """np.histogram(rla[, bins, range]) hands numpy the run values weighted by the run lengths: one call, values == the run values, weights[t] == length
    of run t, bins / range passed through.  That a histogram of the decoded array equals the histogram of the run values weighted by their multiplicities is
    the (assumed) meaning of numpy's `weights`; the decoded-array comparison itself stays with the bounded stand-in."""
    name = "runlengtharray.histogram"
    qualname = "npstructures.runlengtharray:histogram"
    serves = ["C16"]
    assumed = ["numpy.histogram(values, weights=w) counts value t with multiplicity w[t] (meaning of `weights`; bin edges computed by numpy from the same value set)",
               "numpy.diff"]

    def kinds(self):
        return ["default", "bins", "bins+range"]

    def run(self, ctx, kind):
        from ..sym import symnp
        a = sym_rla(ctx, kind="elem")
        m, E, V = a.m, a.E, a.V
        calls = []

        def hist_rec(self_, *args, **kw):
            calls.append((args, kw))
            return "HISTOGRAM"
        had = "histogram" in symnp.SymNumpy.__dict__
        old = symnp.SymNumpy.__dict__.get("histogram")
        symnp.SymNumpy.histogram = hist_rec
        import npstructures.runlengtharray as rlmod
        try:
            extra = {"default": (), "bins": (7,), "bins+range": (5, (0, 10))}[kind]
            res = rlmod.histogram(a.obj, *extra)
        finally:
            if had:
                symnp.SymNumpy.histogram = old
            else:
                del symnp.SymNumpy.histogram
        ok = len(calls) == 1 and res == "HISTOGRAM"
        ctx.prove("post.exactly one numpy.histogram, its result returned", z3.BoolVal(ok))
        if not ok:
            return
        args, kw = calls[0]
        names = ["a", "bins", "range", "density", "weights"]
        got = dict(zip(names, args))
        got.update(kw)
        vals, w = got.get("a"), got.get("weights")
        want_bins, want_range = {"default": (10, None), "bins": (7, None), "bins+range": (5, (0, 10))}[kind]
        ctx.prove("post.bins / range passed through, no density", z3.BoolVal(got.get("bins", 10) == want_bins and got.get("range") == want_range and got.get("density") is None))
        ok2 = isinstance(vals, SymArr) and isinstance(w, SymArr)
        ctx.prove("post.values and weights are arrays with one entry per run", z3.And(z3.BoolVal(ok2), *([dim_term(vals.shape_[0]) == m, dim_term(w.shape_[0]) == m] if ok2 else [])))
        if not ok2:
            return
        t = z3.Int("t")
        ctx.skolem(z3.And(0 <= t, t < m))
        ctx.prove("post.histogram of the run values", vals.get(t) == V(t), pool=[t])
        ctx.prove("post.weighted by the run lengths", w.get(t) == E(t + 1) - E(t), pool=[t, t + 1])
        ctx.prove("post.operand not modified", z3.BoolVal(a.ev.buf.writes == 0 and a.va.buf.writes == 0))

    def concrete(self, case):
        from npstructures import RunLengthArray
        x = np.array(case["a"])
        r = RunLengthArray.from_array(x)
        for what, f in (("np.histogram(rla)", lambda y: np.histogram(y)), ("np.histogram(rla, 7)", lambda y: np.histogram(y, 7)),
                        ("np.histogram(rla, 5, (0, 10))", lambda y: np.histogram(y, 5, (0, 10))),
                        ("np.histogram(rla, 3, (1, 6))", lambda y: np.histogram(y, 3, (1, 6)))):
            try:
                got = f(r)
            except Exception as e:
                return {"msg": f"{what} of rla({case['a']}) raised {type(e).__name__}: {e}", "sig": "raised:rla-histogram"}
            exp = f(x)
            if not (np.array_equal(got[0], exp[0]) and np.allclose(got[1], exp[1])):
                return {"msg": f"{what} of rla({case['a']}) = {got[0].tolist()}, numpy on the decoded array {exp[0].tolist()}", "sig": "wrong:rla-histogram"}

    def concretise(self, kind, model, ghost):
        return {"a": [3, 3, 0, 7, 7, 7, 2]}

    bounded_cases = RlaUfunc.bounded_cases


@register
class RlaRoundTrip(Family):
    """C14's first sentence as a lemma over the two proved contracts: decoding an encoded array gives the original, element by element.
    Hypotheses: exactly the contract formulas of from_array and to_array (shared with their proofs).  bits: elements are bit patterns and != is
    inequality of patterns - the decoded array is identical.  abstract: != is numpy's uninterpreted relation - position p of run t holds the
    element at the run's start and no neighbouring pair between the start and p is != (so NaN, which is != itself, never lies inside a run and
    stays NaN; -0.0 / 0.0 may be exchanged, they are == for numpy)."""
    name = "lemma: to_array(from_array(x)) == x"
    qualname = "npstructures.runlengtharray:RunLengthArray.from_array"
    serves = ["C14"]
    assumed = ["callee contract from_array (proved: RunLengthArray.from_array/contract.*)", "callee contract to_array (proved: RunLengthArray.to_array/contract.*)",
               "lemma partition-point (every position lies in a run; vf.proofs.lemmas)"]

    def kinds(self):
        return ["bits", "abstract"]

    def run(self, ctx, kind):
        from ..sym.arr import ElemSort
        n, m = z3.Int("n"), z3.Int("m")
        ctx.assume(n >= 1)
        sort = z3.BitVecSort(64) if kind == "bits" else ElemSort
        xf = z3.Function("x", z3.IntSort(), sort)
        E = z3.Function("E", z3.IntSort(), z3.IntSort())
        V = z3.Function("V", z3.IntSort(), sort)
        out = z3.Function("out", z3.IntSort(), sort)
        out_len = z3.Int("out_len")
        NE = (lambda a_, b_: a_ != b_) if kind == "bits" else (lambda a_, b_: apply_binary("not_equal", a_, b_))
        for ground, schemas in (contract_from_array(xf, n, E, V, m, NE), contract_to_array(E, V, m, out, out_len)):
            for f in ground:
                ctx.assume(f)
            for nm, fn, ar in schemas:
                ctx.assume_forall(nm, fn, arity=ar)
        run_ = z3.Function("run", z3.IntSort(), z3.IntSort())
        ctx.assume_forall("run (partition point of the boundaries)", lambda p_: z3.Implies(z3.And(0 <= p_, p_ < n), z3.And(0 <= run_(p_), run_(p_) < m, E(run_(p_)) <= p_, p_ < E(run_(p_) + 1))))
        ctx.prove("post.same length", out_len == n)
        p = z3.Int("p")
        ctx.skolem(z3.And(0 <= p, p < n))
        t = run_(p)
        ctx.prove_then_assume("post.lemma: position p decodes to the element at the start of its run", out(p) == xf(E(t)), pool=[p, t, t + 1])
        q = z3.Int("q")
        ctx.skolem(z3.And(E(t) < q, q <= p))
        ctx.prove_then_assume("post.no != step between the start of the run and p", z3.Not(NE(xf(q - 1), xf(q))), pool=[p, q, t, t + 1], live=[p])
        if kind == "bits":
            # induction on q from the start of the run: x(q) == x(E(t))
            ctx.prove("chain.step: x(q-1) == x(E(t)) => x(q) == x(E(t))", z3.Implies(xf(q - 1) == xf(E(t)), xf(q) == xf(E(t))), pool=[q, q - 1])
            ctx.assume_forall("chain (by induction on q; base q = E(t))", lambda q_: z3.Implies(z3.And(E(t) <= q_, q_ <= p), xf(q_) == xf(E(t))))
            ctx.prove("post.decode(encode(x))[p] == x[p], bit for bit", out(p) == xf(p), pool=[p, t], live=[p])


@register
class RlaSliceLemma(Family):
    """C15 for slices as a lemma over the three proved contracts (window of _get_slice, sub-array of _start_to_end, stride of _step_subset; the
    hypotheses are the shared contract formulas): for a non-empty selection rla[a:b:step] has cnt = len(range(n)[a:b:step]) positions and position q
    holds (up to numpy ==) the value at source position first + q*step.  step > 0 and step < 0 separately; |step| = s symbolic with q*s written
    MUL(q), linked to the genuine product by the induction MUL(x) == x*s; for step == 1 the stride is skipped."""
    name = "lemma: rla[a:b:s] decodes to dense[a:b:s]"
    qualname = "npstructures.runlengtharray:RunLengthArray._get_slice"
    serves = ["C15"]
    timeout_ms = 30000
    assumed = ["callee contracts _get_slice window / _start_to_end / _step_subset (proved: .../contract.* in their families)",
               "lemma partition-point (every position of a canonical array lies in a run)", "numpy == symmetric and transitive is NOT needed: the first two links are identities"]

    def kinds(self):
        return ["step>1", "step==1", "step<0"]

    def run(self, ctx, kind):
        from ..sym.arr import ElemSort
        fn = lambda nm, *sorts: z3.Function(nm, *sorts)
        II = (z3.IntSort(), z3.IntSort())
        Es, Vs, ms = fn("Es", *II), fn("Vs", z3.IntSort(), ElemSort), z3.Int("ms")          # source (canonical, length n)
        Eb, Vb, mb = fn("Eb", *II), fn("Vb", z3.IntSort(), ElemSort), z3.Int("mb")          # window sub-array
        Eo, Vo, mo = fn("Eo", *II), fn("Vo", z3.IntSort(), ElemSort), z3.Int("mo")          # strided result
        n, first, cnt, step, lo, hi = (z3.Int(x) for x in ("n", "first", "cnt", "step", "lo", "hi"))
        sim = lambda a_, b_: z3.Or(a_ == b_, apply_binary("equal", a_, b_))
        ctx.assume(z3.And(ms >= 1, Es(0) == 0, Es(ms) == n, cnt > 0))
        ctx.assume({"step>1": step > 1, "step==1": step == 1, "step<0": step < 0}[kind])
        for f in contract_slice_window(first, cnt, step, lo, hi, n):
            ctx.assume(f)
        g1, s1 = contract_start_to_end_rel(Es, Vs, ms, Eb, Vb, mb, lo, hi)
        for f in g1:
            ctx.assume(f)
        for nm, f, ar in s1:
            ctx.assume_forall(nm, f, arity=ar)
        N = hi - lo
        # every position of the sub-array lies in one of its runs (lemma partition-point on its boundaries)
        runb = fn("run_b", *II)
        ctx.assume_forall("run_b (partition point)", lambda p_: z3.Implies(z3.And(0 <= p_, p_ < N), z3.And(0 <= runb(p_), runb(p_) < mb, Eb(runb(p_)) <= p_, p_ < Eb(runb(p_) + 1))))
        q, t, u = z3.Int("q"), z3.Int("t"), z3.Int("u")
        if kind == "step==1":
            # no stride: the result is the sub-array
            ctx.prove("post.length == cnt", Eb(mb) == cnt)
            ctx.skolem(z3.And(0 <= q, q < cnt, 0 <= t, t < mb, Eb(t) <= q, q < Eb(t + 1), 0 <= u, u < ms, Es(u) <= first + q * step, first + q * step < Es(u + 1)))
            ctx.prove("post.position q holds the value at source position first + q*step", Vb(t) == Vs(u), pool=[t, q, u], live=[q])
            return
        s = z3.If(step >= 0, step, -step)
        DIV, MUL = fn("DIV", *II), fn("MUL", *II)
        ctx.assume(z3.And(MUL(0) == 0))
        ctx.assume_forall("MUL.step", lambda x: MUL(x + 1) == MUL(x) + s)
        ctx.assume_forall("floor-division", lambda a_: z3.And(MUL(DIV(a_)) <= a_, a_ < MUL(DIV(a_) + 1)))
        x = z3.Int("x")
        ctx.prove("lemma.MUL(x) == x*s.base", MUL(0) == 0 * s, kind="lemma")
        ctx.prove("lemma.MUL(x) == x*s.step", z3.Implies(z3.And(x >= 0, MUL(x) == x * s), MUL(x + 1) == (x + 1) * s), pool=[x, x + 1], kind="lemma")
        ctx.assume_forall("MUL(x) == x*s (by induction)", lambda x_: z3.Implies(x_ >= 0, MUL(x_) == x_ * s))
        d = z3.Int("d")
        ctx.prove("lemma.MUL increasing.base", MUL(x) < MUL(x + 1), pool=[x, x + 1], kind="lemma")
        ctx.prove("lemma.MUL increasing.step", z3.Implies(z3.And(d >= 0, MUL(x) < MUL(x + d + 1)), MUL(x) < MUL(x + d + 2)), pool=[x, x + d + 1, x + d + 2], kind="lemma")
        ctx.assume_forall("MUL increasing (by induction)", lambda p_, q_: z3.Implies(p_ < q_, MUL(p_) < MUL(q_)), arity=2)
        g2, s2 = contract_step_subset_rel(Eb, Vb, mb, N, Eo, Vo, mo, DIV, MUL, s, kind == "step>1", sim)
        for f in g2:
            ctx.assume(f)
        for nm, f, ar in s2:
            ctx.assume_forall(nm, f, arity=ar)
        a_len = N + s - 1
        ctx.prove("post.length == cnt:  ceil((hi - lo) / s) == cnt", Eo(mo) == cnt, pool=[cnt, cnt - 1, cnt + 1, DIV(a_len), DIV(a_len) + 1, a_len, z3.IntVal(0)])
        ctx.skolem(z3.And(0 <= q, q < cnt, 0 <= t, t < mo, Eo(t) <= q, q < Eo(t + 1), 0 <= u, u < ms, Es(u) <= first + q * step, first + q * step < Es(u + 1)))
        sub = MUL(q) if kind == "step>1" else N - 1 - MUL(q)          # the position of the sub-array that the stride reads for q
        ctx.prove_then_assume("post.lemma: the stride reads sub-array position q*s (resp. len-1-q*s), which is source position first + q*step",
                              z3.And(0 <= sub, sub < N, lo + sub == first + q * step), pool=[q, q + 1, cnt, cnt - 1, z3.IntVal(0)], live=[q, t, u])
        w = runb(sub)
        ctx.prove("post.position q holds the value at source position first + q*step (up to numpy ==)", sim(Vo(t), Vs(u)), pool=[q, t, u, w, sub], live=[q])
