"""C10 (and the non-interference part of C06): two-state contracts of the read-only operations.

For a read-only operation `op` applied to an array y:
  (a) Rows(y) is unchanged (for a lazily selected y: the materialised data are the view's cells);
  (b) dep(y): the buffer y's content is read from is the same object as before  -- or was not shared;
  (c) no buffer that existed before the call is written.
(c) and (a) are proved for every reader below; (b) is proved for freshly built receivers and is REFUTED for
lazily selected receivers (RaggedBase.ravel rebinds the private data): that is the recorded known finding
`lazy-selection-detached-by-read`; its replay runs the two histories on the real code.
The gather-index construction (view.get_flat_indices) is replaced by its contract (proved in vf.proofs.indices)."""
import numpy as np
import z3

from .base import Family, register
from .ragged import sym_ragged, sym_shape, sym_view2, Geo
from ..sym.core import SInt, cur, fresh_name
from ..sym.arr import SymArr, SElem, I, dim_term, ElemSort

READS = ["ravel", "getitem-slice", "getitem-int", "getitem-tuple", "ufunc", "row-sum", "nonzero", "astype", "equals", "iter-start",
         "array_function-entry", "col_counts", "size-len-shape"]


def do_read(ra, op):
    if op == "ravel":
        return ra.ravel()
    if op == "getitem-slice":
        return ra[1:]
    if op == "getitem-int":
        return ra[SInt(z3.Int("i"))]
    if op == "getitem-tuple":
        return ra[:, 1:]
    if op == "ufunc":
        return ra.__array_ufunc__(np.add, "__call__", ra, SElem(z3.Const("s", ElemSort)))
    if op == "row-sum":
        return ra.__array_ufunc__(np.add, "reduce", ra, axis=-1)
    if op == "nonzero":
        return ra.nonzero()
    if op == "astype":
        return ra.astype(np.float64)
    if op == "equals":
        return ra.equals(ra)
    if op == "iter-start":
        return ra.__iter__()
    if op == "array_function-entry":
        return ra.__array_function__(lambda: None, (), (), {})      # not a handled function: NotImplemented after the entry ravel
    if op == "col_counts":
        return ra.col_counts()
    if op == "size-len-shape":
        from ..sym.symnp import sym_len
        return (ra.size, sym_len(ra), ra.shape, ra.lengths, ra.dtype)
    raise KeyError(op)


@register
class ReadFramesFresh(Family):
    name = "read-only operations on a freshly built array"
    qualname = "npstructures.raggedarray.base:RaggedBase.ravel"
    serves = ["C10"]

    def kinds(self):
        return READS

    def extra_functions(self):
        return ["RaggedBase.ravel", "IndexableArray.__getitem__", "RaggedArray.__array_ufunc__", "RaggedArray._reduce",
                "RaggedArray.nonzero", "RaggedArray.astype", "RaggedArray.equals", "RaggedArray.__iter__", "RaggedArray.col_counts"]

    def run(self, ctx, kind):
        g = sym_ragged(ctx, kind="elem" if kind not in ("nonzero",) else "int")
        ra = g.ra
        if kind == "row-sum":
            from .reduce import telescoping
            telescoping(ctx, g, ra._shape.lengths)
        n_alloc = ctx.allocs
        pre_bufs = {id(g.D.buf): g.D.buf, id(g.obj._codes.buf): g.obj._codes.buf}
        try:
            do_read(ra, kind)
        except IndexError:
            pass                        # a refused index is still a read
        written = [b for b in ctx.heap_writes if b.born_alloc is not None and b.born_alloc <= n_alloc]
        ctx.prove("(c) no pre-existing buffer written", z3.BoolVal(not written))
        ctx.prove("(a) same data object, same geometry object", z3.BoolVal(ra._RaggedBase__data is g.D and ra._shape is g.obj))
        ctx.prove("(b) buffer dependence unchanged", z3.BoolVal(ra._RaggedBase__data.buf is g.D.buf))


@register
class ReadFramesLazy(Family):
    name = "read-only operations on a lazily selected array"
    qualname = "npstructures.raggedarray.base:RaggedBase._flatten_myself"
    serves = ["C10", "C06"]
    assumed = ["callee contract view.get_flat_indices(): idx[S'(r)+c] = start(r) + c*step, shape = RaggedShape(view lengths)"]

    def kinds(self):
        return ["ravel", "getitem-int", "ufunc", "iter-start", "array_function-entry"]

    def run(self, ctx, kind):
        from npstructures import RaggedArray
        from npstructures.raggedshape import RaggedView2
        v = sym_view2(ctx)
        k = z3.Int("k")
        ctx.assume(k >= 0)
        D = SymArr.symbolic("D", k, "elem", np.int64, assume_len=False)
        # wf(view): every addressed cell lies inside the buffer
        ctx.assume_forall("wf(view)", lambda r, c: z3.Implies(z3.And(0 <= r, r < v.n, 0 <= c, c < v.L(r)),
                                                              z3.And(0 <= v.S(r) + c * v.step, v.S(r) + c * v.step < k)), arity=2)
        ra = RaggedArray(D, v.obj)
        out_shape = sym_shape(ctx, "flat")
        ctx.assume(out_shape.n == v.n)
        ctx.assume_forall("flat.L", lambda r: z3.Implies(z3.And(0 <= r, r < v.n), out_shape.L(r) == v.L(r)))
        idx = SymArr.symbolic("gather", out_shape.S(out_shape.n), "int", assume_len=False)
        ctx.assume_forall("address map", lambda r, c: z3.Implies(z3.And(0 <= r, r < v.n, 0 <= c, c < v.L(r)),
                                                                 idx.fn(out_shape.S(r) + c) == v.S(r) + c * v.step), arity=2)
        # every flat position belongs to some cell (partition lemma) - needed for the numpy bounds check of the gather
        rowof = z3.Function(fresh_name("rowof"), z3.IntSort(), z3.IntSort())
        ctx.assume_forall("rowof", lambda j: z3.Implies(z3.And(0 <= j, j < out_shape.S(out_shape.n)), z3.And(
            0 <= rowof(j), rowof(j) < v.n, out_shape.S(rowof(j)) <= j, j < out_shape.S(rowof(j)) + out_shape.L(rowof(j)))))
        ctx.derivers.append(lambda j: [rowof(j), j - out_shape.S(rowof(j))])
        old = RaggedView2.__dict__["get_flat_indices"]
        RaggedView2.get_flat_indices = lambda self_, do_split=False: (idx, out_shape.obj)
        n_alloc = ctx.allocs
        try:
            try:
                do_read(ra, kind)
            except IndexError as e:
                if kind != "getitem-int":
                    # the gather must not go out of bounds: instantiate the partition lemma at the witness
                    raise
        finally:
            RaggedView2.get_flat_indices = old
        written = [b for b in ctx.heap_writes if b.born_alloc is not None and b.born_alloc <= n_alloc]
        ctx.prove("(c) no pre-existing buffer written", z3.BoolVal(not written))
        r = v.row()
        c = z3.Int("c")
        ctx.skolem(z3.And(0 <= c, c < v.L(r)))
        ctx.add_index(c, out_shape.S(r) + c)
        data = ra._RaggedBase__data
        ctx.prove("(a) Rows preserved: materialised cell (r,c) is the view's cell", z3.And(
            z3.BoolVal(ra._shape is out_shape.obj), data.get(out_shape.S(r) + c) == D.fn(v.S(r) + c * v.step)))
        import os
        if os.environ.get("VERIF_PROPERTY", "C10") == "C06":
            # C06: assigning into the derived array must never alter its source: the materialised data are a fresh buffer
            ctx.prove("(d) materialised data do not alias the source buffer", z3.BoolVal(data.buf is not D.buf))
        if os.environ.get("VERIF_PROPERTY", "C10") == "C10":
            # the history property only: a write to the SOURCE after this read is no longer seen (known finding of C10)
            ctx.prove("(b) buffer dependence unchanged", z3.BoolVal(data.buf is D.buf), info={"op": kind})

    def concretise(self, kind, model, ghost):
        if "(b)" not in ghost.get("_obligation", ""):
            return None
        return {"op": kind}

    def concrete(self, case):
        """the two histories  b = a[1:]; [read b]; a[:, 0:1] = 992; b  on the real code"""
        from npstructures import RaggedArray

        def history(with_read):
            a = RaggedArray([[1, 2], [10, 11], [12]])
            b = a[1:]
            if with_read:
                op = case["op"]
                if op == "ravel":
                    b.ravel()
                elif op == "getitem-int":
                    b[0]
                elif op == "ufunc":
                    b + 1
                elif op == "iter-start":
                    iter(b)
                else:
                    np.sum(b)
            a[:, 0:1] = 992
            return b.tolist()
        h0, h1 = history(False), history(True)
        if h0 != h1:
            return {"msg": f"b = a[1:]; a[:, 0:1] = 992: b is {h0}, but {h1} if b was read ({case['op']}) before the write",
                    "sig": "lazy-selection-detached-by-read"}
