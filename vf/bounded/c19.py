"""C19 bounded stand-in: every case of the C01-C09 bounded stand-ins (a strided subsample in the quick tier)
is evaluated under both index-width configurations; the verdicts (values, row lengths, dtypes, refusals - all of
which the C01-C09 oracles compare exactly) must coincide."""
import importlib
import itertools
import numpy as np
from .common import import_repo

PROPERTY = "C19"
RULE = ("every k-th case of the bounded stand-ins of C01..C09 (k chosen per module so that each contributes ~8k cases in "
        "the quick tier, ~100k in the thorough tier), run with ViewBase._dtype = int64 and = int32 in the same process; the "
        "oracle verdicts must be identical. non-trivial = the underlying case is non-trivial for its own property")
BOUNDS = {"quick": {"per_module": 8000}, "thorough": {"per_module": 100000}}
MODULES = ["c01", "c02", "c03", "c04", "c05", "c06", "c07", "c08", "c09"]
_mods = {}


def _mod(name):
    if name not in _mods:
        try:
            _mods[name] = importlib.import_module("vf.bounded." + name)
        except ModuleNotFoundError:
            _mods[name] = None
    return _mods[name]


def cases(tier, seed):
    per = BOUNDS[tier]["per_module"]
    for name in MODULES:
        m = _mod(name)
        if m is None:
            continue
        # count lazily: take every k-th case with k estimated from a first pass over the generator
        total = sum(1 for _ in m.cases("quick", seed))
        k = max(1, total // per)
        for i, case in enumerate(m.cases("quick", seed)):
            if i % k == (seed % k):
                yield {"module": name, "case": case}


def nontrivial(case):
    m = _mod(case["module"])
    return bool(m and m.nontrivial(case["case"]))


def check(case):
    import_repo()
    from npstructures.raggedshape import ViewBase
    m = _mod(case["module"])
    if m is None:
        return None
    old = ViewBase._dtype
    try:
        ViewBase.set_dtype(np.int64)
        v64 = m.check(case["case"])
        ViewBase.set_dtype(np.int32)
        try:
            v32 = m.check(case["case"])
        except Exception as e:
            v32 = {"msg": f"raised {type(e).__name__}: {e}", "sig": "raised:" + type(e).__name__}
    finally:
        ViewBase.set_dtype(old)
    s64 = None if v64 is None else v64["sig"]
    s32 = None if v32 is None else v32["sig"]
    if s64 == s32:
        return None
    return {"msg": f"{case['module']} case {case['case']}: verdict under int64: {v64 and v64['msg']} ; under int32: {v32 and v32['msg']}",
            "sig": f"width-dependent:{case['module']}:{s32 or 'ok'}-vs-{s64 or 'ok'}"}
