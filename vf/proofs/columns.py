"""C09: column aggregates.

* RaggedArray.col_counts: counts[j] = #{rows r : L(r) > j} for j < max L.  Proved for all row-length vectors with
  three small inductions (ghost counting functions):
      cnt(k, i) = #{r < i : L(r) == k}        (the bincount contract)
      H(j, i)   = sum_{k <= j} cnt(k, i)        (ghost; recurrence in j)
      gt(j, i)  = #{r < i : L(r) > j}           (ghost; recurrence in i: the spec function)
  (A) H(j, i+1) = H(j, i) + [L(i) <= j]   by induction on j;   (B) H(j, i) + gt(j, i) = i   by induction on i;
  (C) cumsum(counts0)[j] = n - H(j, n)      by induction on j (scan invariant of cumsum#1).
* RaggedArray.sum(axis=0): dispatch by dtype (which accumulator, which result dtype, which indices and weights).
* IndexableArray.get_column_values: a client of ra[lengths > j, j].
"""
import numpy as np
import z3

from .base import Family, register, model_int
from .ragged import sym_ragged
from .reduce import telescoping
from ..sym.core import SInt, cur, fresh_name
from ..sym.arr import SymArr, I, dim_term


@register
class ColCounts(Family):
    name = "RaggedArray.col_counts"
    qualname = "npstructures.raggedarray:RaggedArray.col_counts"
    serves = ["C09", "C19"]
    assumed = ["numpy.bincount contract (counting function cnt(k, i) with step axioms)", "numpy.cumsum(out=) = prefix sums"]

    def run(self, ctx, kind):
        g = sym_ragged(ctx)
        ctx.ghost["g"] = g
        n, L = g.n, g.L
        ctx.assume(n > 0)                     # the property speaks of shapes with at least one row reaching a column
        out = g.ra.col_counts()
        bc = None
        for e in ctx.ghost.get("prefix_sums", []):
            pass
        # locate the ghost functions of the primitives that were used
        ps = ctx.ghost["prefix_sums"][-1]["ps"]
        # the bincount result carried its counting function
        cnt = ctx.ghost["bincount"][-1]["cnt"]
        K = ctx.ghost["bincount"][-1]["len"]
        H = z3.Function(fresh_name("H"), z3.IntSort(), z3.IntSort(), z3.IntSort())
        gt = z3.Function(fresh_name("gt"), z3.IntSort(), z3.IntSort(), z3.IntSort())
        ind = lambda c: z3.If(c, z3.IntVal(1), z3.IntVal(0))
        ctx.assume_forall("H.base", lambda i: H(-1, i) == 0)
        ctx.assume_forall("H.step", lambda j, i: z3.Implies(j >= 0, H(j, i) == H(j - 1, i) + cnt(j, i)), arity=2)
        ctx.assume_forall("gt.base", lambda j: gt(j, 0) == 0)
        ctx.assume_forall("gt.step", lambda j, i: z3.Implies(z3.And(0 <= i, i < n), gt(j, i + 1) == gt(j, i) + ind(L(i) > j)), arity=2)
        j, i = z3.Int("j"), z3.Int("i")
        rng = z3.And(0 <= i, i < n)
        # (A) by induction on j (for a fixed row i)
        ctx.prove("lemmaA.base: H(-1,i+1) == H(-1,i) + [L(i) <= -1]", z3.Implies(rng, H(-1, i + 1) == H(-1, i) + ind(L(i) <= -1)),
                  pool=[i, i + 1, z3.IntVal(-1)])
        ctx.prove("lemmaA.step: from j-1 to j", z3.Implies(z3.And(rng, j >= 0, H(j - 1, i + 1) == H(j - 1, i) + ind(L(i) <= j - 1)),
                                                          H(j, i + 1) == H(j, i) + ind(L(i) <= j)), pool=[i, i + 1, j, j - 1])
        ctx.assume_forall("lemmaA", lambda jj, ii: z3.Implies(z3.And(0 <= ii, ii < n, jj >= -1), H(jj, ii + 1) == H(jj, ii) + ind(L(ii) <= jj)), arity=2)
        # (B) by induction on i
        ctx.prove("lemmaB.base: H(j,0) + gt(j,0) == 0 needs H(j,0) == 0 (induction on j)", z3.Implies(
            z3.And(j >= 0, H(j - 1, 0) == 0), H(j, 0) == 0), pool=[j, j - 1, z3.IntVal(0)])
        ctx.assume_forall("H(j,0)==0", lambda jj: z3.Implies(jj >= -1, H(jj, 0) == 0))
        ctx.prove("lemmaB.step: from i to i+1", z3.Implies(z3.And(rng, j >= -1, H(j, i) + gt(j, i) == i), H(j, i + 1) + gt(j, i + 1) == i + 1),
                  pool=[i, i + 1, j])
        ctx.assume_forall("lemmaB", lambda jj, ii: z3.Implies(z3.And(0 <= ii, ii <= n, jj >= -1), H(jj, ii) + gt(jj, ii) == ii), arity=2)
        # (C) scan invariant: ps(j+1) == n - H(j, n) for 0 <= j < K
        ctx.prove("lemmaC.base: ps(0) == n - H(-1,n) - n", ps(0) == 0, pool=[z3.IntVal(0)])
        ctx.prove("lemmaC.step", z3.Implies(z3.And(0 <= j, j < K, ps(j) == z3.If(j == 0, 0, n - H(j - 1, n))), ps(j + 1) == n - H(j, n)),
                  pool=[j, j - 1, j + 1, n, z3.IntVal(0)])
        ctx.assume_forall("lemmaC", lambda jj: z3.Implies(z3.And(0 <= jj, jj < K), ps(jj + 1) == n - H(jj, n)))
        # post
        c = z3.Int("c")
        ctx.skolem(z3.And(0 <= c, c < dim_term(out.shape_[0])))
        ctx.prove("post.counts[c] == #{rows with more than c cells}", out.get(c) == gt(c, n), pool=[c, n, c + 1])
        # length: one entry per column of the longest row
        w = z3.Int("w")
        ctx.prove("post.len == max row length", z3.And(
            z3.Implies(z3.And(0 <= w, w < n), L(w) <= dim_term(out.shape_[0])),
            dim_term(out.shape_[0]) == K - 1), pool=[w])

    def concretise(self, kind, model, ghost):
        g = ghost["g"]
        n = min(max(model_int(model, g.n), 1), 5)
        return {"lengths": [min(max(model_int(model, g.L(z3.IntVal(r))), 0), 4) for r in range(n)]}

    def concrete(self, case):
        from npstructures import RaggedArray
        ls = case["lengths"]
        if not ls or max(ls) == 0:
            return None
        ra = RaggedArray(np.arange(sum(ls)), ls)
        got = np.asarray(ra.col_counts()).tolist()
        exp = [sum(1 for l in ls if l > j) for j in range(max(ls))]
        if got != exp:
            return {"msg": f"col_counts on row lengths {ls}: {got}, expected {exp}", "sig": "wrong:col_counts"}

    def bounded_cases(self, tier, seed):
        from ..bounded.common import length_vectors
        for ls in length_vectors(4, 3, 1):
            yield {"lengths": ls}


@register
class ColumnSumDispatch(Family):
    name = "RaggedArray.sum[axis=0]"
    qualname = "npstructures.raggedarray:RaggedArray.sum"
    serves = ["C09", "C19"]
    assumed = ["numpy.add.at / weighted bincount accumulate the weights per index (integer values proved in RaggedArray.sum[axis=0] values; float values: bounded stand-in)",
               "numpy.issubdtype table for the element dtype (evaluated by numpy itself)"]

    def kinds(self):
        return ["int8", "int64", "uint8", "uint64", "float64", "axis=-1"]

    def extra_functions(self):
        return ["reduction wrapper", "ViewBase.unravel_multi_index"]

    def run(self, ctx, kind):
        g = sym_ragged(ctx, kind="elem", dtype=np.dtype(kind) if kind != "axis=-1" else np.int64)
        telescoping(ctx, g, g.ra._shape.lengths)
        ctx.assume(g.S(g.n) > 0)
        ctx.add_index(g.n, g.n - 1)
        if kind == "axis=-1":
            import npstructures.raggedarray as ramod
            rec = []
            old = ramod.RaggedArray.__dict__["_reduce"]
            ramod.RaggedArray._reduce = lambda self_, ufunc, ra, axis=0, **kw: rec.append((ufunc.__name__, axis, kw)) or "ROWSUMS"
            try:
                out = g.ra.sum(axis=-1)
            finally:
                ramod.RaggedArray._reduce = old
            ctx.prove("post.row sums are add.reduce along the last axis", z3.BoolVal(out == "ROWSUMS" and rec and rec[0][0] == "add" and rec[0][1] in (-1, 1)))
            return
        from ..sym import symnp
        rec = {}
        real_bincount = symnp.SymNumpy.bincount

        def bincount_rec(self_, x, weights=None, minlength=0):
            rec["bincount"] = (x, weights, minlength)
            return "BINCOUNT"
        symnp.SymNumpy.bincount = bincount_rec
        try:
            out = g.ra.sum(axis=0)
        finally:
            symnp.SymNumpy.bincount = real_bincount
        dt = np.dtype(kind)
        if dt.kind == "f":
            x, w, ml = rec["bincount"]
            ctx.prove("post.float: weighted bincount over the column index", z3.BoolVal(out == "BINCOUNT" and w is g.D))
            idx = x
        else:
            ev = ctx.ghost["ufunc_at"][-1]
            want = np.int64 if dt.kind == "i" else np.uint64
            ctx.prove("post.integer: exact accumulation with add.at into an int64 / uint64 result",
                      z3.BoolVal(ev["ufunc"] == "add" and ev["target"] is out and out.dtype == np.dtype(want) and "bincount" not in rec))
            j0 = z3.Int("j0")
            ctx.skolem(z3.And(0 <= j0, j0 < g.S(g.n)))
            ctx.prove("post.weights are the cells (cast to the result dtype)", z3.BoolVal(ev["values"].dtype == np.dtype(want)))
            idx = ev["idx"]
            z = z3.Int("z")
            ctx.skolem(z3.And(0 <= z, z < dim_term(out.shape_[0])))
            ctx.prove("post.accumulator starts at zero", ev["target_snapshot"](z) == 0)
        # the index array is the column of every flat position
        t = z3.Int("t")
        ctx.skolem(z3.And(0 <= t, t < g.S(g.n)))
        r = z3.Int("r")
        ctx.skolem(z3.And(0 <= r, r < g.n, g.S(r) <= t, t < g.S(r) + g.L(r)))
        ctx.add_index(t, r, r + 1, r - 1)
        ss = [e for e in [getattr(idx, "ss", None)] if e]
        ctx.prove("post.index of flat position t is its column t - S(row)", idx.get(t) == t - g.S(r))


@register
class GetColumnValues(Family):
    name = "IndexableArray.get_column_values"
    qualname = "npstructures.raggedarray.indexablearray:IndexableArray.get_column_values"
    serves = ["C09", "C19"]
    assumed = ["callee contract ra[mask, j] (C02)"]

    def run(self, ctx, kind):
        from npstructures.raggedarray.indexablearray import IndexableArray
        g = sym_ragged(ctx)
        rec = []
        old = IndexableArray.__dict__["__getitem__"]
        IndexableArray.__getitem__ = lambda self_, index: rec.append(index) or "COLUMN"
        jc = z3.Int("jc")
        try:
            out = g.ra.get_column_values(SInt(jc))
        finally:
            IndexableArray.__getitem__ = old
        mask, col = rec[0]
        r = g.row()
        ctx.prove("post.selects exactly the rows that reach the column", mask.get(r) == (g.L(r) > jc))
        ctx.prove("post.asks for that column of those rows", z3.And(I(col) == jc, z3.BoolVal(out == "COLUMN" and len(rec) == 1)))


@register
class ColumnSumValues(Family):
    """sum(axis=0) of an integer array (exact accumulation with add.at):  result[k] = CS(k, n), the sum over the rows longer than k of their
    k-th cell, where CS(k, 0) = 0 and CS(k, r+1) = CS(k, r) + (row r has a column k ? cell(r, k) : 0) is the property's own recursive
    definition of a column sum; len(result) = the longest row.  Two inductions: along one row (A), over the rows (B)."""
    name = "RaggedArray.sum[axis=0] values"
    qualname = "npstructures.raggedarray:RaggedArray.sum"
    serves = ["C09", "C19"]
    timeout_ms = 30000
    assumed = ["numpy.add.at: unbuffered sequential accumulation acc(k, j+1) = acc(k, j) + values[j] if idx[j] == k (audited)",
               "numpy.searchsorted on the sorted row starts (unravel_multi_index)", "numpy.max of the row lengths",
               "integer data as mathematical integers (no overflow of the 64-bit accumulator)"]

    def extra_functions(self):
        return ["reduction wrapper", "ViewBase.unravel_multi_index"]

    def run(self, ctx, kind):
        g = sym_ragged(ctx, kind="int", dtype=np.int64)
        ctx.ghost["g"] = g
        n, S, L, D = g.n, g.S, g.L, g.D.fn
        telescoping(ctx, g, g.ra._shape.lengths)
        ctx.assume(S(n) > 0)
        ctx.add_index(n, n - 1)
        out = g.ra.sum(axis=0)
        ev = ctx.ghost["ufunc_at"][-1]
        acc, idx = ev["acc"], ev["idx"]
        ctx.prove("post.accumulation runs over every flat position", ev["m"] == S(n))
        CS = z3.Function(fresh_name("CS"), z3.IntSort(), z3.IntSort(), z3.IntSort())
        ctx.assume_forall("CS.base (spec)", lambda k_: CS(k_, 0) == 0)
        ctx.assume_forall("CS.step (spec)", lambda k_, r_: z3.Implies(z3.And(0 <= r_, r_ < n),
                          CS(k_, r_ + 1) == CS(k_, r_) + z3.If(z3.And(0 <= k_, k_ < L(r_)), D(S(r_) + k_), 0)), arity=2)
        k, r, c = z3.Int("k"), z3.Int("r"), z3.Int("c")
        ctx.skolem(z3.And(0 <= k, 0 <= r, r < n, 0 <= c, c < L(r)))
        j = S(r) + c
        # the index array is the column of every flat position (also proved in the dispatch family)
        ctx.prove_then_assume("lemma: index of flat position S(r)+c is its column c", idx.get(j) == c, pool=[j, r, r + 1, r - 1, c, n], live=[k])
        ctx.prove_then_assume("lemma: the weight of flat position S(r)+c is the cell itself", ev["values"].get(j) == D(j), pool=[j], live=[k, r, c])
        inv = lambda c_: acc(k, S(r) + c_) == acc(k, S(r)) + z3.If(k < c_, D(S(r) + k), 0)
        ctx.prove("lemmaA.base: c = 0", inv(z3.IntVal(0)), pool=[r, k], live=[c])
        ctx.prove("lemmaA.step: along row r from c to c+1", z3.Implies(inv(c), inv(c + 1)), pool=[j, j + 1, k, r, r + 1, c, c + 1, n])
        ctx.assume_forall("lemmaA (by induction on c)", lambda k_, r_, c_: z3.Implies(z3.And(0 <= k_, 0 <= r_, r_ < n, 0 <= c_, c_ <= L(r_)),
                          acc(k_, S(r_) + c_) == acc(k_, S(r_)) + z3.If(k_ < c_, D(S(r_) + k_), 0)), arity=3)
        k2, r2 = z3.Int("k2"), z3.Int("r2")
        ctx.skolem(z3.And(0 <= k2, 0 <= r2, r2 < n))
        ctx.prove("lemmaB.base: acc(k, S(0)) == CS(k, 0)", acc(k2, S(0)) == CS(k2, 0), pool=[k2, z3.IntVal(0)], live=[r2])
        ctx.prove("lemmaB.step: over the rows from r to r+1", z3.Implies(acc(k2, S(r2)) == CS(k2, r2), acc(k2, S(r2 + 1)) == CS(k2, r2 + 1)),
                  pool=[k2, r2, r2 + 1, L(r2), S(r2), S(r2 + 1)])
        ctx.assume_forall("lemmaB (by induction on r)", lambda k_, r_: z3.Implies(z3.And(0 <= k_, 0 <= r_, r_ <= n), acc(k_, S(r_)) == CS(k_, r_)), arity=2)
        k3 = z3.Int("k3")
        w = dim_term(out.shape_[0])
        ctx.skolem(z3.And(0 <= k3, k3 < w))
        ctx.prove("post.result[k] == CS(k, n): the sum of the k-th cells of the rows that have one", out.get(k3) == CS(k3, n), pool=[k3, n, S(n)])
        r4 = z3.Int("r4")
        ctx.skolem(z3.And(0 <= r4, r4 < n))
        ctx.prove("post.len(result) covers every row", L(r4) <= w, pool=[r4, r4 + 1])
        ctx.prove("post.operand not modified", z3.BoolVal(g.D.buf.writes == 0))

    def concretise(self, kind, model, ghost):
        g = ghost["g"]
        n = min(max(model_int(model, g.n), 1), 5)
        ls = [min(max(model_int(model, g.L(z3.IntVal(r))), 0), 4) for r in range(n)]
        if sum(ls) == 0:
            ls[0] = 1
        return {"lengths": ls}

    def concrete(self, case):
        from npstructures import RaggedArray
        ls = case["lengths"]
        rows, v = [], 3
        for l in ls:
            rows.append([((v + i) * 7) % 11 - 3 for i in range(l)])
            v += l
        ra = RaggedArray(np.array([x for r in rows for x in r], dtype=np.int64), ls)
        got = ra.sum(axis=0)
        exp = [sum(row[k] for row in rows if len(row) > k) for k in range(max(ls))]
        if list(got) != exp:
            return {"msg": f"sum(axis=0) of rows {rows}: {list(got)}, expected {exp}", "sig": "wrong:col-sum"}

    def bounded_cases(self, tier, seed):
        from ..bounded.common import length_vectors
        for ls in length_vectors(4, 3):
            if sum(ls) > 0:
                yield {"lengths": ls}

    def nontrivial(self, case):
        return 0 in case["lengths"]
