"""C03: assignment writes exactly the addressed cells.

(1) RaggedBase._set_data_range: the frame.  For an injective flat-index array idx (the C02 address map of a
    selection with non-repeating rows is injective): cell idx[t] gets data[t] for every t, every other cell is
    unchanged, nothing but the receiver's buffer is written.  Same for a boolean mask.
(2) IndexableArray.__setitem__: dispatch by value kind, on top of the address computation shared with reads
    (_get_row_subset / _get_view are the C02 functions and are replaced by their contracts here)."""
import numpy as np
import z3

from .base import Family, register, model_int
from .ragged import sym_ragged, sym_shape
from ..sym.core import SInt, cur
from ..sym.arr import SymArr, SElem, I, dim_term, ElemSort, nonzero_facts


@register
class SetDataRange(Family):
    name = "RaggedBase._set_data_range"
    qualname = "npstructures.raggedarray.base:RaggedBase._set_data_range"
    serves = ["C03", "C10"]
    assumed = ["numpy fancy assignment a[idx] = v (last write wins; witness form)", "numpy boolean-mask assignment"]

    def kinds(self):
        return ["index-array:array", "index-array:scalar", "mask:scalar", "mask:array", "slice:scalar"]

    def run(self, ctx, kind):
        g = sym_ragged(ctx)
        ra, size = g.ra, g.S(g.n)
        D0 = g.D.snapshot()
        how, vk = kind.split(":")
        s = z3.Const("s", ElemSort)
        if how == "index-array":
            m = z3.Int("m")
            ctx.assume(m >= 0)
            idx = SymArr.symbolic("idx", m, "int", assume_len=False)
            ctx.assume_forall("addresses in range", lambda t: z3.Implies(z3.And(0 <= t, t < m), z3.And(0 <= idx.fn(t), idx.fn(t) < size)))
            ctx.assume_forall("addresses injective", lambda t, u: z3.Implies(z3.And(0 <= t, t < u, u < m), idx.fn(t) != idx.fn(u)), arity=2)
            val = SymArr.symbolic("val", m, "elem", np.int64, assume_len=False) if vk == "array" else SElem(s)
            ra._set_data_range(idx, val)
            sc = ctx.ghost["scatters"][-1]
            t = z3.Int("t")
            ctx.skolem(z3.And(0 <= t, t < m))
            ctx.add_index(t, sc["wit"](idx.fn(t)))
            ctx.prove("post.addressed cell t holds value t", g.D.get(idx.fn(t)) == (val.fn(t) if vk == "array" else s))
            p = z3.Int("p")
            ctx.skolem(z3.And(0 <= p, p < size))
            ctx.add_index(sc["wit"](p))
            ctx.assume_forall("p is not addressed", lambda q: z3.Implies(z3.And(0 <= q, q < m), idx.fn(q) != p))
            ctx.prove("frame.every other cell unchanged", g.D.get(p) == D0(p))
        elif how == "mask":
            mk = SymArr.symbolic("mask", size, "bool", bool, assume_len=False)
            nz = nonzero_facts(mk, "m")
            val = SymArr.symbolic("val", nz.cnt, "elem", np.int64, assume_len=False) if vk == "array" else SElem(s)
            ra._set_data_range(mk, val)
            p = z3.Int("p")
            ctx.skolem(z3.And(0 <= p, p < size))
            ctx.add_index(p)
            ctx.prove("post.masked cell holds its value (k-th true cell gets value k)",
                      z3.Implies(mk.fn(p), g.D.get(p) == (val.fn(nz.rk(p)) if vk == "array" else s)))
            ctx.prove("frame.unmasked cell unchanged", z3.Implies(z3.Not(mk.fn(p)), g.D.get(p) == D0(p)))
        else:
            a, b = z3.Int("a"), z3.Int("b")
            ctx.assume(z3.And(0 <= a, a <= b, b <= size))
            ra._set_data_range(slice(SInt(a), SInt(b)), SElem(s))
            p = z3.Int("p")
            ctx.skolem(z3.And(0 <= p, p < size))
            ctx.prove("post+frame.row cells written, others unchanged", g.D.get(p) == z3.If(z3.And(a <= p, p < b), s, D0(p)))
        ctx.prove("frame.geometry untouched", z3.BoolVal(ra._shape is g.obj and g.obj._codes.buf.writes == 0))
        others = [b for b in ctx.heap_writes if b is not g.D.buf]
        ctx.prove("frame.no other buffer written", z3.BoolVal(not others))

    def concrete(self, case):
        from npstructures import RaggedArray
        ls = case["lengths"]
        tot = sum(ls)
        if tot == 0:
            return None
        ra = RaggedArray(np.arange(tot, dtype=np.int64), ls)
        idx = np.array(case["idx"], dtype=np.int64)
        ra._set_data_range(idx, np.arange(100, 100 + len(idx)))
        exp = list(range(tot))
        for k, i in enumerate(case["idx"]):
            exp[i] = 100 + k
        if ra.ravel().tolist() != exp:
            return {"msg": f"_set_data_range({case['idx']}) on {ls}: {ra.ravel().tolist()}", "sig": "wrong:_set_data_range"}

    def bounded_cases(self, tier, seed):
        import itertools
        for ls in ([3], [1, 2], [0, 2, 1]):
            tot = sum(ls)
            for k in range(0, tot + 1):
                for idx in itertools.permutations(range(tot), k):
                    yield {"lengths": ls, "idx": list(idx)}


class _Rec:
    def __init__(self):
        self.calls = []


@register
class SetItemDispatch(Family):
    """IndexableArray.__setitem__: which data is scattered to the computed addresses, per value kind"""
    name = "IndexableArray.__setitem__"
    qualname = "npstructures.raggedarray.indexablearray:IndexableArray.__setitem__"
    serves = ["C03"]
    assumed = ["callee contracts: _get_row_subset / _get_view give the C02 address map (verified in the C02 families)",
               "callee contract: RaggedShape.broadcast_values(column) (proved: RaggedShape.broadcast_values / _raw_broadcast)"]

    def kinds(self):
        return ["flat:scalar", "flat:array", "ragged:scalar", "ragged:ragged-match", "ragged:ragged-mismatch", "ragged:flatarray",
                "ragged:column", "ragged:list", "view:scalar"]

    def run(self, ctx, kind):
        from npstructures import RaggedArray
        from npstructures.raggedarray.indexablearray import IndexableArray
        from npstructures.raggedshape import RaggedShape, RaggedView
        sel_kind, vk = kind.split(":")
        g = sym_ragged(ctx)
        ra = g.ra
        m = z3.Int("m")
        ctx.assume(m >= 0)
        index = SymArr.symbolic("index", m, "int", assume_len=False)
        sub = sym_shape(ctx, "sel")                     # geometry of the selection (lengths count(r'))
        rec = {"set": [], "view": 0, "bcast": []}
        view_obj = RaggedView.__new__(RaggedView)

        def get_row_subset(self_, idx, do_split=False):
            if sel_kind == "flat":
                return index, None
            if sel_kind == "view":
                return view_obj
            return index, sub.obj

        def get_view(self_, view, do_split=False):
            rec["view"] += 1
            assert view is view_obj
            return index, sub.obj

        def set_data_range(self_, idx, data):
            rec["set"].append((idx, data))

        def broadcast_values(self_, values, dtype=None):
            rec["bcast"].append((values, dtype))
            return "BROADCAST"
        olds = (IndexableArray.__dict__["_get_row_subset"], IndexableArray.__dict__["_get_view"],
                RaggedArray.__mro__[2].__dict__.get("_set_data_range"), RaggedShape.__dict__["broadcast_values"])
        from npstructures.raggedarray.base import RaggedBase
        old_set = RaggedBase.__dict__["_set_data_range"]
        IndexableArray._get_row_subset, IndexableArray._get_view = get_row_subset, get_view
        RaggedBase._set_data_range, RaggedShape.broadcast_values = set_data_range, broadcast_values
        s = SElem(z3.Const("s", ElemSort))
        try:
            if vk == "scalar":
                value = s
            elif vk in ("array", "flatarray"):
                value = SymArr.symbolic("val", m, "elem", np.int64, assume_len=False)
            elif vk == "list":
                value = [s, s]
            elif vk == "column":
                value = SymArr.symbolic("col", (sub.n, 1), "elem", np.int64, assume_len=False)
            else:
                vshape = sym_shape(ctx, "val")
                vd = SymArr.symbolic("vald", vshape.S(vshape.n), "elem", np.int64, assume_len=False)
                value = RaggedArray(vd, vshape.obj)
                if vk == "ragged-match":
                    ctx.assume(vshape.n == sub.n)
                    ctx.assume_forall("same lengths", lambda r: z3.Implies(z3.And(0 <= r, r < sub.n), vshape.L(r) == sub.L(r)))
                    ctx.assume_forall("same starts (lemma)", lambda r: z3.Implies(z3.And(0 <= r, r <= sub.n), vshape.S(r) == sub.S(r)))
                    ctx.add_index(sub.n - 1, 2 * (sub.n - 1), 2 * (sub.n - 1) + 1)
            try:
                ra["ANY-INDEX"] = value
                raised = None
            except (AssertionError, ValueError) as e:
                raised = e
        finally:
            IndexableArray._get_row_subset, IndexableArray._get_view = olds[0], olds[1]
            RaggedBase._set_data_range, RaggedShape.broadcast_values = old_set, olds[3]
        if vk == "ragged-mismatch":
            if raised is None:
                # accepted: then the value's row lengths equal the selection's
                r = z3.Int("r")
                ctx.skolem(z3.And(0 <= r, r < sub.n))
                ctx.add_index(r, 2 * r, 2 * r + 1)
                ctx.prove("accepted=>same number of rows", vshape.n == sub.n)
                ctx.prove("accepted=>same row lengths", vshape.L(r) == sub.L(r))
            else:
                ctx.prove("post.mismatching ragged value refused", z3.BoolVal(True))
            return
        ctx.prove("post.no exception", z3.BoolVal(raised is None))
        ctx.prove("post.exactly one scatter", z3.BoolVal(len(rec["set"]) == 1))
        if len(rec["set"]) != 1:
            return
        idx, data = rec["set"][0]
        ctx.prove("post.scatter goes to the computed addresses", z3.BoolVal(idx is index))
        if sel_kind == "view":
            ctx.prove("post.a view selection is turned into addresses once", z3.BoolVal(rec["view"] == 1))
        if vk == "scalar":
            ctx.prove("post.scalar written as is", z3.BoolVal(data is s))
        elif vk in ("array", "flatarray"):
            t = z3.Int("t")
            ctx.skolem(z3.And(0 <= t, t < m))
            ctx.prove("post.flat values in order", data.ravel().get(t) == value.fn(t))
        elif vk == "column":
            ctx.prove("post.column broadcast over the selection's rows", z3.BoolVal(data == "BROADCAST" and rec["bcast"][0][0] is value))
        elif vk == "list":
            ctx.prove("post.list converted to a flat array", z3.And(data.ravel().get(0) == s.t, data.ravel().get(1) == s.t))
        elif vk == "ragged-match":
            t = z3.Int("t")
            ctx.skolem(z3.And(0 <= t, t < vshape.S(vshape.n)))
            ctx.prove("post.ragged value written cell by cell (its flat data in order)", data.get(t) == vd.fn(t))
