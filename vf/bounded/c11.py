"""C11 bounded stand-in: HashTable (and HashSet.contains) against a Python dict, over every key set / modulus /
value kind inside the bound and every short history of lookup / assign / fill / contains / derived-table operations.

A case is   {"part", "dtype", "keys", "vals" (int = scalar-valued table | list = per-key), "mod" (None | int),
             "ops": [[opname, args...], ...]}
All operation arguments are concrete in the case (so a case replays on its own).  After the history the table is
compared with the dict: vector lookup of all keys, single lookup of every key, contains() on keys + absent samples.

Operations (query "form": "typed" = numpy array of the key dtype, "list" = Python list of ints;
            single keys: "py" = Python int, "np" = numpy scalar of the key dtype):
  readers : ["get1", [k..], form]     one single-key lookup per listed key
            ["getv", [q..], form]     vector lookup, repeats allowed, result in query order
            ["getabs", [q..], form]   vector lookup containing an absent key: must be refused (any exception)
            ["contains", [q..], form] membership vector
            ["hset", [q..]]           HashSet(keys, mod).contains on the vector and on every scalar
            ["zeros"], ["ones"]       np.zeros_like / np.ones_like -> table {k: 0} / {k: 1}
            ["add", v2]               t + HashTable(keys, v2, mod) -> pointwise sum, operands unchanged
            ["eq"]                    t == equal-dictionary table (same keys, same mod) is True, one value changed: False
            ["items"], ["todict"]     the dict itself
  mutators: ["set1", k, v, form]  t[k] = v        ["setv", [k..], v]  t[keys] = scalar (repeats allowed)
            ["setp", [k..], [v..]]  t[keys] = per-key values (distinct keys)        ["fill", v]
            ["iaddn", c]  t += c            ["iaddt", v2]  t += HashTable(keys, v2, mod)

Values are plain ints.  Assigned values (1100, 2100, 3100.., -4100) are deliberately outside the range of the 8-bit
key dtypes and negative for fill: what a lookup answers must not depend on the key dtype.

Deliberately NOT checked (the statement does not promise it): single-key lookup / assignment of an absent key,
negative keys with unsigned dtypes, keys or samples outside the dtype range, float values / value-dtype coercion,
per-key assignment with repeated keys, == and + between tables whose keys were given in another order or with
another modulus, lookup with an empty Python list (float64 by numpy's rules), the container type of a single-key
answer (a 0-d value and a 1-element array are both accepted).
"""
import itertools
import numbers
import numpy as np
from .common import import_repo

PROPERTY = "C11"
RULE = ("exhaustive union of three products. Part A (structure x one operation): every key list of the per-dtype pool "
        "(all subsets up to the stated size, alternately ascending/descending) x every modulus of the list x "
        "{per-key values: every operation variant; scalar-valued: every mutator variant} + scalar-valued x every reader "
        "for modulus None; operation variants include both query forms, absent samples of each class (colliding with a "
        "key's bucket, hashing to an empty bucket, large) at several positions. Part B (histories): stated structures x "
        "{scalar, per-key} x every operation sequence up to the stated length over the stated alphabet with no two "
        "consecutive read-only operations (readers are checked for purity by the final comparison). Part C: moduli larger "
        "than the key dtype's range / larger than any key. Thorough adds longer histories, larger pools and moduli and a "
        "seeded random part. Non-trivial = two keys share a bucket, or a negative / >=2**31 key, or modulus 1, or a history "
        "with a mutator followed by another operation")

I64 = [-9, -2, 0, 5, 2 ** 62, -2 ** 62]
POOLS_Q = {
    "int64": (I64, 3, [-9, -2, 5, 2 ** 62, -2 ** 62]),          # (pool, all subsets up to this size, pool for size 4)
    "uint64": ([0, 3, 7, 2 ** 62], 3, [0, 3, 7, 2 ** 62]),
    "int8": ([-128, -3, 0, 127], 2, [-128, -3, 0, 127]),
    "uint8": ([0, 5, 250, 255], 2, [0, 5, 250, 255]),
    "int16": ([-32768, 9, 32767], 2, None),
    "uint16": ([0, 9, 65535], 2, None),
    "int32": ([-2 ** 31, -7, 2 ** 31 - 1], 2, None),
    "uint32": ([0, 7, 2 ** 32 - 1], 2, None),
}
POOLS_T = {
    "int64": ([-9, -2, -1, 0, 1, 5, 9, 2 ** 62, -2 ** 62, 2 ** 62 - 9], 3, [-9, -2, 0, 5, 9, 2 ** 62, -2 ** 62]),
    "uint64": ([0, 1, 3, 7, 9, 2 ** 62, 2 ** 62 - 7], 3, [0, 3, 7, 9, 2 ** 62, 2 ** 62 - 7]),
    "int8": ([-128, -9, -3, 0, 5, 127], 3, [-128, -3, 0, 5, 127]),
    "uint8": ([0, 5, 9, 250, 255], 3, [0, 5, 9, 250, 255]),
    "int16": ([-32768, -9, 0, 9, 32767], 3, [-32768, -9, 0, 9, 32767]),
    "uint16": ([0, 9, 18, 65535], 3, [0, 9, 18, 65535]),
    "int32": ([-2 ** 31, -7, 0, 7, 2 ** 31 - 1], 3, [-2 ** 31, -7, 0, 7, 2 ** 31 - 1]),
    "uint32": ([0, 7, 14, 2 ** 32 - 1], 3, [0, 7, 14, 2 ** 32 - 1]),
}
MODS_Q = [None, 1, 2, 3, 4, 5, 6, 7, 8, 9]
MODS_T = MODS_Q + [10, 11, 12, 13, 16, 17, 31, 64]
BIGMODS_Q = [13, 200, 1000]
BIGMODS_T = [127, 128, 129, 200, 255, 256, 257, 1000, 65536]

# Part B structures: (dtype, keys, mod)
STRUCT_B_Q = [
    ("int64", [5], None),
    ("int64", [-2, 5], 7),                            # both in bucket 5
    ("int64", [5, -9, 0], None),                      # m=5: collision in bucket 0, empty buckets
    ("int64", [0, -2, 2 ** 62, -2 ** 62], 1),          # all collide
    ("int64", [-9, 5, 2 ** 62], 4),                   # no collision, one empty bucket
    ("uint64", [2 ** 62, 0, 5], 3),
    ("int8", [-128, 127, 0], None),                   # m=5: -128 and 127 collide
    ("uint8", [255, 3], 9),                           # collide
    ("int32", [-2 ** 31, 2 ** 31 - 1, 7, -7], 2),
    ("uint16", [65535, 1, 9], None),
]
STRUCT_B_T = STRUCT_B_Q + [
    ("int64", [2 ** 62, -2 ** 62], None),
    ("int64", [0, 5, -9, -2], 3),
    ("int64", [9, 0, -9], 9),
    ("uint64", [7, 2 ** 62 - 7, 2 ** 62, 0], 7),
    ("int16", [-32768, 32767], 1),
    ("uint32", [2 ** 32 - 1, 0, 7], 8),
]

BOUNDS = {
    "quick": {"pools": {k: {"pool": v[0], "all_subsets_up_to": v[1], "size4_from": v[2]} for k, v in POOLS_Q.items()},
              "moduli": MODS_Q, "big_moduli": BIGMODS_Q, "history_structures": STRUCT_B_Q, "history_len": 3,
              "history_alphabet": "6 mutators (set1, setv, setp-all, setp-one, fill, setv-repeat) + 10 readers",
              "values": "ints; initial scalar 7 / per-key 11,22,..; assigned values distinct per history position"},
    "thorough": {"pools": {k: {"pool": v[0], "all_subsets_up_to": v[1], "size4_from": v[2]} for k, v in POOLS_T.items()},
                 "moduli": MODS_T, "big_moduli": BIGMODS_T, "history_structures": STRUCT_B_T, "history_len": 4,
                 "history_alphabet": "length <= 4: 6 mutators + 10 readers; length <= 3: 9 mutators (+ set1 with a numpy "
                                     "scalar key, += number, += table) + 10 readers",
                 "random": "30000 random structures x random histories of length 5..8"},
}

RANGE = {dt: (int(np.iinfo(dt).min), int(np.iinfo(dt).max)) for dt in POOLS_Q}
LIM = 2 ** 62          # the quantifier's key magnitude


def eff_mod(keys, mod):
    return 2 * len(keys) - 1 if mod is None else mod


def absent_candidates(keys, dtype, mod):
    """-> {"collide": v, "empty": v, "big": v} (classes that exist), all representable in dtype, |v| <= 2**62, not keys"""
    lo, hi = RANGE[dtype]
    lo, hi = max(lo, -LIM), min(hi, LIM)
    m = eff_mod(keys, mod)
    ks = set(keys)
    occ = {k % m for k in keys}
    out = {}
    for k in keys:
        for d in (m, -m, 2 * m, -2 * m, 3 * m, -3 * m):
            c = k + d
            if lo <= c <= hi and c not in ks and "collide" not in out:
                out["collide"] = c
    scan = [0]
    for i in range(1, 14):
        scan += [i, -i]
    scan += [hi, hi - 1, hi - 2, lo, lo + 1, lo + 2]
    for c in scan:
        if lo <= c <= hi and c not in ks and (c % m) not in occ:
            out["empty"] = c
            break
    for c in (hi - 1, hi - 3, lo + 1, hi - 5):
        if lo <= c <= hi and c not in ks and c not in out.values():
            out["big"] = c
            break
    return out


def key_lists(pools):
    for dt, (pool, upto, pool4) in pools.items():
        idx = 0
        for size in range(1, upto + 1):
            for sub in itertools.combinations(pool, size):
                ks = sorted(sub)
                if idx % 2:
                    ks = ks[::-1]
                idx += 1
                yield dt, ks
        if pool4 is not None and upto < 4 <= len(pool4):
            for sub in itertools.combinations(pool4, 4):
                ks = sorted(sub)
                if idx % 2:
                    ks = ks[::-1]
                idx += 1
                yield dt, ks


def init_vals(n, kind):
    return 7 if kind == "scalar" else [11 * (i + 1) for i in range(n)]


def reader_variants(dt, keys, mod, full):
    """full: every variant (Part A); else one representative per reader (Part B)"""
    n = len(keys)
    ab = absent_candidates(keys, dt, mod)
    k0, kl = keys[0], keys[-1]
    qrep = keys[::-1] + [k0, k0] + [kl]
    anyab = ab.get("collide", ab.get("empty", ab.get("big")))
    mix = []
    for i, k in enumerate(keys):
        mix.append(k)
        if i < len(ab):
            mix.append(list(ab.values())[i])
    mix += list(ab.values())[len(keys):]
    out = []
    out.append(["get1", list(keys), "py"])
    out.append(["getv", qrep, "typed"])
    if full:
        out.append(["get1", list(keys), "np"])
        if dt != "int64":
            out.append(["getv", qrep, "list"])
        out.append(["getv", [], "typed"])
        out.append(["getv", [kl], "typed"])
        for cls, a in ab.items():
            out.append(["getabs", [a], "typed"])
            out.append(["getabs", [k0, a, kl], "typed"])
            out.append(["getabs", [kl, a], "typed"])
            out.append(["getabs", [a, a, k0], "typed"])
        if dt != "int64":
            out.append(["getabs", [k0, anyab], "list"])
        out.append(["contains", mix, "typed"])
        if dt != "int64":
            out.append(["contains", mix, "list"])
        out.append(["contains", list(ab.values()), "typed"])
        out.append(["hset", mix])
        out.append(["add", 5])
        out.append(["add", [1000 * (i + 1) for i in range(n)]])
    else:
        out.append(["getabs", [k0, anyab, kl], "typed"])
        out.append(["contains", mix, "typed"])
        out.append(["add", [1000 * (i + 1) for i in range(n)]])
    out += [["zeros"], ["ones"], ["eq"], ["items"], ["todict"]]
    return out


def mutator_variants(dt, keys, mod, pos, level):
    """level 0: Part B quick alphabet, 1: Part B thorough alphabet, 2: every variant (Part A).
    Values depend on the history position so that 'most recently assigned' is observable."""
    n = len(keys)
    k0, kl = keys[0], keys[-1]
    b = 100 * (pos + 1)
    out = [["set1", kl, 1000 + b, "py"],
           ["setv", [kl, k0] if n > 1 else [k0], 2000 + b],
           ["setp", keys[::-1], [3000 + b + j for j in range(n)]],
           ["setp", [kl], [-(3500 + b)]],
           ["fill", -(4000 + b)],
           ["setv", [k0, k0], 2500 + b]]
    if level >= 1:
        out += [["set1", k0, 1500 + b, "np"], ["iaddn", 3], ["iaddt", [10 * (j + 1) for j in range(n)]]]
    if level >= 2:
        for k in keys[:-1]:
            out.append(["set1", k, 1200 + b + (k % 7), "py"])
        out += [["setv", list(keys), 2700 + b], ["iaddt", 4], ["fill", 0]]
        if n > 2:
            out.append(["setp", [keys[1], k0], [3700 + b, 3800 + b]])
    return out


def histories(dt, keys, mod, maxlen, level):
    """every op sequence of length <= maxlen with no two consecutive readers"""
    readers = reader_variants(dt, keys, mod, full=False)

    def rec(prefix, last_reader):
        yield prefix
        if len(prefix) == maxlen:
            return
        pos = len(prefix)
        for m in mutator_variants(dt, keys, mod, pos, level):
            yield from rec(prefix + [m], False)
        if not last_reader:
            for r in readers:
                yield from rec(prefix + [r], True)
    yield from rec([], False)


def cases(tier, seed):
    quick = tier == "quick"
    pools = POOLS_Q if quick else POOLS_T
    mods = MODS_Q if quick else MODS_T
    # ---- Part A: structure x one operation
    for dt, keys in key_lists(pools):
        n = len(keys)
        for mod in mods:
            base = {"part": "A", "dtype": dt, "keys": keys, "mod": mod}
            for op in reader_variants(dt, keys, mod, True) + mutator_variants(dt, keys, mod, 0, 2):
                yield dict(base, vals=init_vals(n, "per"), ops=[op])
            for op in mutator_variants(dt, keys, mod, 0, 2):
                yield dict(base, vals=init_vals(n, "scalar"), ops=[op])
            if mod is None:
                for op in reader_variants(dt, keys, mod, True):
                    yield dict(base, vals=init_vals(n, "scalar"), ops=[op])
    # ---- Part C: big moduli (larger than the dtype range for the small dtypes)
    seen = set()
    for dt, keys in key_lists(pools):
        if (dt, len(keys)) in seen:
            continue
        seen.add((dt, len(keys)))          # the first key list of each size per dtype
        n = len(keys)
        for mod in (BIGMODS_Q if quick else BIGMODS_T):
            base = {"part": "C", "dtype": dt, "keys": keys, "mod": mod}
            for kind in ("per", "scalar"):
                for op in reader_variants(dt, keys, mod, False) + mutator_variants(dt, keys, mod, 0, 0):
                    yield dict(base, vals=init_vals(n, kind), ops=[op])
    # ---- Part D: addition with different value dtypes (values chosen so that the narrower dtype alone would overflow)
    for keys in ([5], [1, 8, 15], [-9, 0, 5, 12]):
        for mod in (None, 1, 7):
            n = len(keys)
            for (d1, a), (d2, b) in ((("int8", 100), ("int64", 100)), (("int64", 100), ("int8", 100)), (("int64", 3), ("float64", 0.5)),
                                      (("uint8", 200), ("int64", -300)), (("int16", 30000), ("int32", 30000)), (("float32", 1.5), ("int64", 2)),
                                      (("int64", 7), ("int64", 9))):
                for how in ("+", "+="):
                    yield {"part": "D", "keys": keys, "mod": mod, "dt1": d1, "v1": [a + (i if d1[0] != "f" else 0) for i in range(n)],
                           "dt2": d2, "v2": [b for _ in range(n)], "how": how}
    # ---- Part B: histories
    for dt, keys, mod in (STRUCT_B_Q if quick else STRUCT_B_T):
        for kind in ("per", "scalar"):
            for h in histories(dt, keys, mod, 3 if quick else 4, 0):
                yield {"part": "B", "dtype": dt, "keys": keys, "mod": mod, "vals": init_vals(len(keys), kind), "ops": h}
            if not quick:       # the larger alphabet up to length 3 (only histories that use one of the extra mutators)
                for h in histories(dt, keys, mod, 3, 1):
                    if any(o[0] in ("iaddn", "iaddt") or (o[0] == "set1" and o[3] == "np") for o in h):
                        yield {"part": "B", "dtype": dt, "keys": keys, "mod": mod, "vals": init_vals(len(keys), kind),
                               "ops": h}
    # ---- random part
    if not quick:
        rng = np.random.default_rng(seed)
        dts = list(POOLS_T)
        for _ in range(30000):
            dt = dts[int(rng.integers(0, len(dts)))]
            lo, hi = RANGE[dt]
            lo, hi = max(lo, -LIM), min(hi, LIM)
            n = int(rng.integers(1, 7))
            ks = set()
            while len(ks) < n:
                r = rng.random()
                if r < 0.5:
                    c = int(rng.integers(max(lo, -20), min(hi, 20) + 1))
                elif r < 0.75:
                    c = hi - int(rng.integers(0, 20))
                elif lo < 0 and r < 0.9:
                    c = lo + int(rng.integers(0, 20))
                else:
                    c = int(rng.integers(lo, hi, endpoint=True))
                ks.add(c)
            keys = [int(k) for k in rng.permutation(sorted(ks))]
            mod = None if rng.random() < 0.25 else int(rng.integers(1, 14))
            kind = "per" if rng.random() < 0.6 else "scalar"
            L = int(rng.integers(5, 9))
            readers = reader_variants(dt, keys, mod, True)
            ops = []
            for pos in range(L):
                if rng.random() < 0.55:
                    mv = mutator_variants(dt, keys, mod, pos, 2)
                    ops.append(mv[int(rng.integers(0, len(mv)))])
                else:
                    ops.append(readers[int(rng.integers(0, len(readers)))])
            yield {"part": "R", "dtype": dt, "keys": keys, "mod": mod, "vals": init_vals(n, kind), "ops": ops}


MUTATORS = {"set1", "setv", "setp", "fill", "iaddn", "iaddt"}


def nontrivial(case):
    keys = case["keys"]
    if case.get("part") == "D":
        return case["dt1"] != case["dt2"]
    m = eff_mod(keys, case["mod"])
    if len({k % m for k in keys}) < len(keys):
        return True
    if any(k < 0 or k >= 2 ** 31 for k in keys) or m == 1:
        return True
    ops = case["ops"]
    return any(o[0] in MUTATORS for o in ops[:-1])


# ---------------------------------------------------------------------------------------------
# check

def _dtag(dt):
    return ("u" if dt.startswith("u") else "i") + str(np.dtype(dt).itemsize * 8)


def _exc(e, what, dt):
    """sig of an exception where a value was required; the dtype class is part of it only where the failure is
    dtype-specific by nature (constructor arithmetic; Python-list queries against a non-int64 table)"""
    s = "raised:" + type(e).__name__ + ":" + what
    if what == "init" or ":list" in what:
        s += ":" + _dtag(dt)
    return s


def _f(form, dt):
    """query-form label for sigs: a Python list becomes an int64 array, which differs from the key dtype"""
    return "list-vs-uint64" if form == "list" and dt == "uint64" else form


def _as_list(res):
    a = np.asarray(res)
    return a.shape, a.ravel().tolist()


def _q(q, dt, form):
    return np.array(q, dtype=dt) if form == "typed" else [int(x) for x in q]


def _k(k, dt, form):
    return int(k) if form == "py" else np.dtype(dt).type(k)


def _mk(keys, dt, vals, mod):
    from npstructures import HashTable
    v = vals if isinstance(vals, numbers.Number) else np.array(vals, dtype=np.int64)
    return HashTable(np.array(keys, dtype=dt), v, mod=mod)


def _compare(t, D, keys, dt, absent, label, st, ctx):
    """vector lookup, single lookups, contains: the table is exactly the dict D"""
    exp = [D[k] for k in keys]
    try:
        shape, got = _as_list(t[np.array(keys, dtype=dt)])
        if shape != (len(keys),) or got != exp:
            yield {"msg": f"{ctx}: {label} table[{keys}] expected {exp}, got {got} shape {shape}",
                   "sig": f"wrong:{label}:getv:{st}"}
    except Exception as e:
        yield {"msg": f"{ctx}: {label} table[{keys}] expected {exp}, raised {type(e).__name__}: {str(e)[:120]}",
               "sig": _exc(e, f"{label}:getv:{st}", dt)}
    for k in keys:
        try:
            shape, got = _as_list(t[int(k)])
            if got != [D[k]]:
                yield {"msg": f"{ctx}: {label} table[{k}] expected {D[k]}, got {got}", "sig": f"wrong:{label}:get1:{st}"}
        except Exception as e:
            yield {"msg": f"{ctx}: {label} table[{k}] expected {D[k]}, raised {type(e).__name__}: {str(e)[:120]}",
                   "sig": _exc(e, f"{label}:get1:{st}", dt)}
    q = list(keys) + list(absent)
    expm = [x in D for x in q]
    try:
        shape, got = _as_list(t.contains(np.array(q, dtype=dt)))
        if shape != (len(q),) or [bool(x) for x in got] != expm:
            yield {"msg": f"{ctx}: {label} contains({q}) expected {expm}, got {got}", "sig": f"wrong:{label}:contains"}
    except Exception as e:
        yield {"msg": f"{ctx}: {label} contains({q}) expected {expm}, raised {type(e).__name__}: {str(e)[:120]}",
               "sig": _exc(e, f"{label}:contains", dt)}


def _mixed_addition(case):
    """Part D: addition of two tables over the same keys whose VALUE dtypes differ (the dictionary adds the numbers)"""
    from npstructures import HashTable
    keys, mod = list(case["keys"]), case["mod"]
    v1 = np.array(case["v1"], dtype=case["dt1"])
    v2 = np.array(case["v2"], dtype=case["dt2"])
    exp = [a + b for a, b in zip(v1.tolist(), v2.tolist())]
    ctx = f"HashTable({keys}, {v1!r}, mod={mod}) {case['how']} HashTable({keys}, {v2!r}, mod={mod})"
    try:
        t1 = HashTable(np.array(keys, dtype=np.int64), v1, mod=mod)
        t2 = HashTable(np.array(keys, dtype=np.int64), v2, mod=mod)
        if case["how"] == "+=":
            t1 += t2
            res = t1
        else:
            res = t1 + t2
        got = np.asarray(res[np.array(keys, dtype=np.int64)]).tolist()
    except Exception as e:
        yield {"msg": f"{ctx}: raised {type(e).__name__}: {str(e)[:160]}", "sig": f"raised:{type(e).__name__}:mixed-dtype-addition:{case['how']}"}
        return
    if len(got) != len(exp) or any(abs(g - e) > 1e-9 * max(1, abs(e)) for g, e in zip(got, exp)):
        yield {"msg": f"{ctx}: values {got}, the dictionary gives {exp}", "sig": f"wrong:mixed-dtype-addition:{case['how']}"}


def _violations(case):
    import_repo()
    from npstructures import HashSet
    if case.get("part") == "D":
        yield from _mixed_addition(case)
        return
    dt, keys, vals, mod = case["dtype"], list(case["keys"]), case["vals"], case["mod"]
    n = len(keys)
    ctx = f"HashTable(np.array({keys},'{dt}'), {vals}, mod={mod})"
    try:
        t = _mk(keys, dt, vals, mod)
    except Exception as e:
        yield {"msg": f"{ctx}: constructor raised {type(e).__name__}: {str(e)[:120]}", "sig": _exc(e, "init", dt)}
        return
    D = {k: (vals if isinstance(vals, int) else vals[i]) for i, k in enumerate(keys)}
    st = "scalar" if isinstance(vals, int) else "array"       # model of the table's value state, for the sig only
    absent = list(absent_candidates(keys, dt, mod).values())
    done = []
    for op in case["ops"]:
        name = op[0]
        done.append(op)
        c = f"{ctx} after {done[:-1]}: {op}"
        try:
            if name == "get1":
                for k in op[1]:
                    try:
                        shape, got = _as_list(t[_k(k, dt, op[2])])
                    except Exception as e:
                        yield {"msg": f"{c}: table[{k}] expected {D[k]}, raised {type(e).__name__}: {str(e)[:120]}",
                               "sig": _exc(e, f"get1:{op[2]}:{st}", dt)}
                        continue
                    if got != [D[k]]:
                        yield {"msg": f"{c}: table[{k}] expected {D[k]}, got {got}", "sig": f"wrong:get1:{op[2]}:{st}"}
            elif name == "getv":
                exp = [D[k] for k in op[1]]
                try:
                    shape, got = _as_list(t[_q(op[1], dt, op[2])])
                except Exception as e:
                    yield {"msg": f"{c}: expected {exp}, raised {type(e).__name__}: {str(e)[:120]}",
                           "sig": _exc(e, f"getv:{op[2]}:{st}", dt)}
                    continue
                if shape != (len(exp),) or got != exp:
                    yield {"msg": f"{c}: expected {exp}, got {got} shape {shape}", "sig": f"wrong:getv:{_f(op[2], dt)}:{st}"}
            elif name == "getabs":
                try:
                    res = t[_q(op[1], dt, op[2])]
                except Exception:
                    continue                                  # refused, as required
                yield {"msg": f"{c}: the query contains an absent key but the lookup returned {_as_list(res)[1]}",
                       "sig": f"not-refused:getabs:{_f(op[2], dt)}:{st}"}
            elif name == "contains":
                exp = [x in D for x in op[1]]
                try:
                    shape, got = _as_list(t.contains(_q(op[1], dt, op[2])))
                except Exception as e:
                    yield {"msg": f"{c}: expected {exp}, raised {type(e).__name__}: {str(e)[:120]}",
                           "sig": _exc(e, f"contains:{op[2]}", dt)}
                    continue
                if shape != (len(exp),) or [bool(x) for x in got] != exp:
                    yield {"msg": f"{c}: expected {exp}, got {got}", "sig": f"wrong:contains:{_f(op[2], dt)}"}
            elif name == "hset":
                exp = [x in D for x in op[1]]
                try:
                    hs = HashSet(np.array(keys, dtype=dt), mod=mod)
                except Exception as e:
                    yield {"msg": f"{c}: HashSet constructor raised {type(e).__name__}: {str(e)[:120]}",
                           "sig": _exc(e, "hset:init", dt)}
                    continue
                try:
                    shape, got = _as_list(hs.contains(np.array(op[1], dtype=dt)))
                    if shape != (len(exp),) or [bool(x) for x in got] != exp:
                        yield {"msg": f"{c}: HashSet.contains vector expected {exp}, got {got}", "sig": "wrong:hset:vector"}
                except Exception as e:
                    yield {"msg": f"{c}: HashSet.contains vector expected {exp}, raised {type(e).__name__}: {str(e)[:120]}",
                           "sig": _exc(e, "hset:vector", dt)}
                for x, ex in zip(op[1], exp):
                    for form in ("py", "np"):
                        try:
                            got = bool(hs.contains(_k(x, dt, form)))
                            if got != ex:
                                yield {"msg": f"{c}: HashSet.contains({x}) expected {ex}, got {got}",
                                       "sig": f"wrong:hset:scalar:{form}"}
                        except Exception as e:
                            yield {"msg": f"{c}: HashSet.contains({x}) expected {ex}, raised {type(e).__name__}: {str(e)[:120]}",
                                   "sig": _exc(e, f"hset:scalar:{form}", dt)}
            elif name in ("zeros", "ones"):
                val = 0 if name == "zeros" else 1
                try:
                    z = np.zeros_like(t) if name == "zeros" else np.ones_like(t)
                except Exception as e:
                    yield {"msg": f"{c}: raised {type(e).__name__}: {str(e)[:120]}", "sig": _exc(e, f"{name}:{st}", dt)}
                    continue
                if z is t:
                    yield {"msg": f"{c}: returned the table itself", "sig": f"wrong:{name}:same-object"}
                    continue
                yield from _compare(z, {k: val for k in keys}, keys, dt, absent, name, "scalar", c)
            elif name == "add":
                v2 = op[1]
                D2 = {k: (v2 if isinstance(v2, int) else v2[i]) for i, k in enumerate(keys)}
                k2 = "scalar" if isinstance(v2, int) else "array"
                try:
                    t2 = _mk(keys, dt, v2, mod)
                except Exception as e:
                    yield {"msg": f"{c}: HashTable(keys, {v2}) raised {type(e).__name__}: {str(e)[:120]}",
                           "sig": _exc(e, "init", dt)}
                    continue
                try:
                    r = t + t2
                except Exception as e:
                    yield {"msg": f"{c}: table + HashTable(keys, {v2}) raised {type(e).__name__}: {str(e)[:120]}",
                           "sig": _exc(e, f"add:{st}+{k2}", dt)}
                    continue
                rst = "scalar" if st == "scalar" and k2 == "scalar" else "array"
                yield from _compare(r, {k: D[k] + D2[k] for k in keys}, keys, dt, absent, f"add:{st}+{k2}", rst, c)
                yield from _compare(t2, D2, keys, dt, absent, "add-operand", k2, c)
            elif name == "eq":
                dv = [D[k] for k in keys]
                dv[-1] += 1
                try:
                    same = _mk(keys, dt, [D[k] for k in keys], mod)
                    diff = _mk(keys, dt, dv, mod)
                except Exception as e:
                    yield {"msg": f"{c}: building the comparison table raised {type(e).__name__}: {str(e)[:120]}",
                           "sig": _exc(e, "init", dt)}
                    continue
                for a, b, ex, lab in ((t, same, True, "equal-dict"), (same, t, True, "equal-dict"), (t, t, True, "self"),
                                      (t, diff, False, "one-value-differs"), (diff, t, False, "one-value-differs")):
                    try:
                        got = bool(a == b)
                    except Exception as e:
                        yield {"msg": f"{c}: == ({lab}) expected {ex}, raised {type(e).__name__}: {str(e)[:120]}",
                               "sig": _exc(e, f"eq:{lab}:{st}", dt)}
                        continue
                    if got != ex:
                        yield {"msg": f"{c}: == ({lab}) expected {ex}, got {got}", "sig": f"wrong:eq:{lab}:{st}"}
            elif name in ("items", "todict"):
                try:
                    pairs = list(t.items()) if name == "items" else list(t.to_dict().items())
                    got = [(int(k), np.asarray(v).item()) for k, v in pairs]
                except Exception as e:
                    yield {"msg": f"{c}: expected {D}, raised {type(e).__name__}: {str(e)[:120]}",
                           "sig": _exc(e, f"{name}:{st}", dt)}
                    continue
                if len(got) != n or dict(got) != D:
                    yield {"msg": f"{c}: expected {D}, got {got}", "sig": f"wrong:{name}:{st}"}
            # ------------------------------------------------------------------ mutators
            elif name == "set1":
                t[_k(op[1], dt, op[3])] = op[2]
                D[op[1]] = op[2]
                st = "array"
            elif name == "setv":
                t[np.array(op[1], dtype=dt)] = op[2]
                for k in op[1]:
                    D[k] = op[2]
                st = "array"
            elif name == "setp":
                t[np.array(op[1], dtype=dt)] = np.array(op[2], dtype=np.int64)
                for k, v in zip(op[1], op[2]):
                    D[k] = v
                st = "array"
            elif name == "fill":
                t.fill(op[1])
                for k in keys:
                    D[k] = op[1]
            elif name == "iaddn":
                t += op[1]
                for k in keys:
                    D[k] += op[1]
            elif name == "iaddt":
                v2 = op[1]
                t2 = _mk(keys, dt, v2, mod)
                t += t2
                for i, k in enumerate(keys):
                    D[k] += v2 if isinstance(v2, int) else v2[i]
                if not isinstance(v2, int):
                    st = "array"
            else:
                raise ValueError("unknown op " + name)
        except Exception as e:
            if name not in MUTATORS:
                raise
            cls = name + (":" + op[-1] if name == "set1" else "") + ":" + st
            yield {"msg": f"{c}: raised {type(e).__name__}: {str(e)[:160]}", "sig": _exc(e, cls, dt)}
            return                                     # the table's state is undefined from here on
    yield from _compare(t, D, keys, dt, absent, "final", st, f"{ctx} after {case['ops']}")


def check(case):
    for v in _violations(case):
        return v
    return None


def check_all(case):
    """every violation of the case (study aid; the driver uses check)"""
    return list(_violations(case))
