"""C15 bounded stand-in: indexing a RunLengthArray equals indexing the dense array (oracle: numpy on the dense array).

Index kinds: integer in [-n, n) -> scalar; list / int64 array of such integers -> dense array; dense boolean mask and
run-length encoded boolean mask -> the selected elements (dense array or RunLengthArray, the statement does not say
which); slice -> RunLengthArray; pair of start/stop vectors -> RunLengthRaggedArray, one row per window.
Slices whose bounds lie beyond the ends (Python has to clamp them) carry the sig suffix "slice:out-of-range-bound",
all others "slice:in-range".
Not checked (unspecified by the statement): integers outside [-n, n), step 0, masks of the wrong length, empty
windows (start == stop), the dtype of the result.
"""
import itertools

import numpy as np

from .common import import_repo
from . import rle_util as U

PROPERTY = "C15"
RULE = ("exhaustive: (slice) every slice with start/stop in {None,-(n+2)..n+2} x step in {None,+-1,+-2,+-3} on every 2-value "
        "int64 array of length <= S and on selected patterns (all-equal, all-different, two runs, alternating, long run, "
        "mixed) of the longer lengths, plus a reduced slice grid on every other dtype; (int) every index in [-n,n) on every "
        "3-value array of length <= N of each dtype alphabet; (list, array) every integer list of length <= 2 over [-n,n) "
        "(negatives, repeats) and selected length-3/4 lists; (mask, rlemask) every dense boolean mask of the array length "
        "(n <= 5), as ndarray and as RunLengthArray.from_array(mask); (ragged) every vector of 1..2 windows with "
        "0<=start<stop<=n as rla[starts:stops]. thorough adds default_rng(seed) arrays of length <= 40 with random "
        "indices of every kind. non-trivial = the array has >= 2 runs and the index is not the identity; slices: "
        "non-unit step or a bound that needs clamping")
BOUNDS = {
    "quick": {"dtypes": U.QUICK_DTYPES, "slice_full_max_len": 4, "slice_selected_lens": [5, 6], "int_max_len": 5,
              "int_max_len_other_dtypes": 4, "list_max_len": 4, "mask_max_len": 5, "ragged_full_max_len": 5,
              "ragged_selected_lens": [6], "random": 0},
    "thorough": {"dtypes": U.ALL_DTYPES, "slice_full_max_len": 6, "slice_selected_lens": [7, 8, 9], "int_max_len": 8,
                 "int_max_len_other_dtypes": 5, "list_max_len": 6, "mask_max_len": 7, "ragged_full_max_len": 6,
                 "ragged_selected_lens": [7, 8, 9], "random": 80000},
}
INT_AB = [7, 8]
INT_ABC = [7, 8, 9]


def _mapped(pattern, base=10):
    return [base + i for i in pattern]


def _windows(n):
    return [(s, e) for s in range(n) for e in range(s + 1, n + 1)]


def _dtype_arrays(d, tier, lens=(1, 2, 3, 5), last_only=False):
    out = []
    for name, alpha in (U.alphabets(d, tier)[-1:] if last_only else U.alphabets(d, tier)):
        for n in lens:
            for p in U.selected_patterns(n):
                w = [alpha[i % len(alpha)] for i in p]
                if w not in out:
                    out.append(w)
    return out


def _slice_cases(b, tier):
    for n in range(1, b["slice_full_max_len"] + 1):
        for w in U.words(INT_AB, n):
            for s in U.all_slices(n):
                yield {"k": "slice", "dtype": "int64", "a": w, "s": s}
    for n in b["slice_selected_lens"]:
        for p in U.selected_patterns(n):
            for s in U.all_slices(n):
                yield {"k": "slice", "dtype": "int64", "a": _mapped(p), "s": s}
    for d in b["dtypes"]:
        if d == "int64":
            continue
        quick = tier == "quick"
        for w in _dtype_arrays(d, tier, lens=(1, 3, 4) if quick else (1, 2, 3, 5, 7), last_only=quick and d != "float64"):
            n = len(w)
            bounds = sorted({-n - 2, -n - 1, -n, -1, 0, 1, n - 1, n, n + 1})
            for s in U.all_slices(n, bounds=[None] + bounds, steps=[None, -1, 2, -3]):
                yield {"k": "slice", "dtype": d, "a": w, "s": s}


def cases(tier, seed):
    b = BOUNDS[tier]
    # slices whose bounds lie inside the array (those that need clamping come last in the exhaustive part)
    for c in _slice_cases(b, tier):
        if not U.slice_out_of_range(len(c["a"]), c["s"]):
            yield c
    # integer positions
    for n in range(1, 5):
        for w in U.words(INT_AB, n):
            for i in range(-n, n):
                for idt in ("int64", "int8") + (("uint8",) if i >= 0 else ()):
                    yield {"k": "int", "dtype": "int64", "a": w, "i": i, "idx_dtype": idt}
    for d in b["dtypes"]:
        nmax = b["int_max_len"] if d in ("int64", "float64") else b["int_max_len_other_dtypes"]
        for name, alpha in U.alphabets(d, tier):
            for n in range(1, nmax + 1):
                for w in U.words(alpha, n):
                    for i in range(-n, n):
                        yield {"k": "int", "dtype": d, "a": w, "i": i}
    # integer lists / arrays
    for n in range(1, b["list_max_len"] + 1):
        extra = [[n - 1, 0, -n], [0, 0, 0], [-1, -1, n - 1, 0], list(range(n)), list(range(-1, -n - 1, -1))]
        for w in list(U.words(INT_AB, n)) + [_mapped(list(range(n)))]:
            idxs = [[]] + [list(c) for k in (1, 2) for c in itertools.product(range(-n, n), repeat=k)] + extra
            for idx in idxs:
                for form in ("list", "array"):
                    yield {"k": form, "dtype": "int64", "a": w, "idx": idx}
    for d in b["dtypes"]:
        for w in _dtype_arrays(d, tier, lens=(1, 3, 5)):
            n = len(w)
            for idx in ([0], [-1, 0], [n - 1, -n, n - 1], list(range(n))[::-1]):
                for idt in ("int32", "uint8", "int8"):
                    if idt == "uint8" and min(idx) < 0:
                        continue
                    yield {"k": "array", "dtype": d, "a": w, "idx": idx, "idx_dtype": idt}
    # boolean masks, dense and run-length encoded
    for n in range(1, b["mask_max_len"] + 1):
        ws = list(U.words(INT_ABC, n)) if n <= 3 else list(U.words(INT_AB, n)) + [_mapped(list(range(n)))]
        for w in ws:
            for m in itertools.product([False, True], repeat=n):
                for form in ("mask", "rlemask", "rlemask-cmp"):
                    yield {"k": form, "dtype": "int64", "a": w, "m": list(m)}
    for d in b["dtypes"]:
        for w in _dtype_arrays(d, tier, lens=(1, 3, 4)):
            for m in itertools.product([False, True], repeat=len(w)):
                for form in ("mask", "rlemask", "rlemask-cmp"):
                    yield {"k": form, "dtype": d, "a": w, "m": list(m)}
    # ragged windows
    for n in list(range(1, b["ragged_full_max_len"] + 1)) + list(b["ragged_selected_lens"]):
        if n <= b["ragged_full_max_len"]:
            ws = list(U.words(INT_AB, n)) + [_mapped(list(range(n)))]
        else:
            ws = [_mapped(p) for p in U.selected_patterns(n)]
        wins = _windows(n)
        for w in ws:
            for k in (1, 2):
                for combo in itertools.product(wins, repeat=k):
                    yield {"k": "ragged", "dtype": "int64", "a": w, "starts": [c[0] for c in combo], "stops": [c[1] for c in combo]}
    for d in b["dtypes"]:
        for w in _dtype_arrays(d, tier, lens=(1, 3, 4)):
            wins = _windows(len(w))
            for combo in itertools.product(wins, repeat=2):
                yield {"k": "ragged", "dtype": d, "a": w, "starts": [c[0] for c in combo], "stops": [c[1] for c in combo]}
    for c in _slice_cases(b, tier):
        if U.slice_out_of_range(len(c["a"]), c["s"]):
            yield c
    if b["random"]:
        yield from _random_cases(b, tier, seed)


def _random_cases(b, tier, seed):
    rng = np.random.default_rng(seed)
    for _ in range(b["random"]):
        d = b["dtypes"][int(rng.integers(0, len(b["dtypes"])))]
        alphas = U.alphabets(d, tier)
        alpha = alphas[int(rng.integers(0, len(alphas)))][1]
        n = int(rng.integers(1, 41))
        w = []
        while len(w) < n:
            w += [alpha[int(rng.integers(0, len(alpha)))]] * int(rng.choice([1, 1, 2, 3, 5, 9]))
        w = w[:n]
        kind = int(rng.integers(0, 6))
        if kind == 0:
            def rb():
                return None if rng.random() < 0.25 else int(rng.integers(-n - 3, n + 4))
            st = [None, 1, -1, 2, -2, 3, -3, 4, -5, 7, -11][int(rng.integers(0, 11))]
            yield {"k": "slice", "dtype": d, "a": w, "s": [rb(), rb(), st]}
        elif kind == 1:
            yield {"k": "int", "dtype": d, "a": w, "i": int(rng.integers(-n, n))}
        elif kind == 2:
            idx = [int(x) for x in rng.integers(-n, n, size=int(rng.integers(0, 8)))]
            yield {"k": ["list", "array"][int(rng.integers(0, 2))], "dtype": d, "a": w, "idx": idx}
        elif kind in (3, 4):
            m = []
            while len(m) < n:
                m += [bool(rng.integers(0, 2))] * int(rng.choice([1, 1, 2, 4, 7]))
            yield {"k": "mask" if kind == 3 else "rlemask", "dtype": d, "a": w, "m": m[:n]}
        else:
            k = int(rng.integers(1, 5))
            starts = [int(x) for x in rng.integers(0, n, size=k)]
            stops = [int(rng.integers(s + 1, n + 1)) for s in starts]
            yield {"k": "ragged", "dtype": d, "a": w, "starts": starts, "stops": stops}


def nontrivial(case):
    a = U.arr(case["a"], case["dtype"])
    k = case["k"]
    if k == "slice":
        return case["s"][2] not in (None, 1) or U.slice_out_of_range(len(a), case["s"])
    if U.n_runs(a) < 2:
        return False
    if k == "int":
        return True
    if k in ("list", "array"):
        return len(case["idx"]) > 0
    if k in ("mask", "rlemask", "rlemask-cmp"):
        return any(case["m"]) and not all(case["m"])
    return True


def _index_tag(case):
    k = case["k"]
    if k == "slice":
        n = len(case["a"])
        return "slice:out-of-range-bound" if U.slice_out_of_range(n, case["s"]) else "slice:in-range"
    if k == "int":
        return "int-" if case["i"] < 0 else "int+"
    if k in ("list", "array"):
        if len(case["idx"]) == 0:
            return k + ":empty"
        return k
    if k in ("mask", "rlemask", "rlemask-cmp"):
        if not any(case["m"]):
            return k + ":all-false"
        return k
    return "ragged"


def _describe(case):
    a = U.show(U.arr(case["a"], case["dtype"]))
    k = case["k"]
    if k == "slice":
        s = case["s"]
        return f"rla({a})[{s[0]}:{s[1]}:{s[2]}]"
    if k == "int":
        return f"rla({a})[{case['i']}]" if "idx_dtype" not in case else f"rla({a})[np.{case['idx_dtype']}({case['i']})]"
    if k == "list":
        return f"rla({a})[{case['idx']}]"
    if k == "array":
        return f"rla({a})[np.array({case['idx']}, dtype={case.get('idx_dtype', 'int64')})]"
    if k == "mask":
        return f"rla({a})[np.array({case['m']})]"
    if k == "rlemask":
        return f"rla({a})[RunLengthArray.from_array(np.array({case['m']}))]"
    if k == "rlemask-cmp":
        return f"rla({a})[RunLengthArray.from_array(y) > 0] with y > 0 == {case['m']} (unjoined runs)"
    return f"rla({a})[np.array({case['starts']}):np.array({case['stops']})]"


def check(case):
    import_repo()
    from npstructures.runlengtharray import RunLengthArray, RunLengthRaggedArray
    a = U.arr(case["a"], case["dtype"])
    k = case["k"]
    tag = _index_tag(case)
    what = _describe(case)
    with np.errstate(all="ignore"):
        r = RunLengthArray.from_array(a.copy())
        # the index, for the library and for numpy
        if k == "slice":
            idx = slice(*case["s"])
            exp = a[idx]
        elif k == "int":
            idx = case["i"] if "idx_dtype" not in case else np.dtype(case["idx_dtype"]).type(case["i"])
            exp = a[idx]
        elif k == "list":
            idx = list(case["idx"])
            exp = a[np.array(idx, dtype=np.int64)]       # a[[]] would be a float index for numpy as well
        elif k == "array":
            idx = np.array(case["idx"], dtype=case.get("idx_dtype", "int64"))
            exp = a[idx]
        elif k == "mask":
            idx = np.array(case["m"], dtype=bool)
            exp = a[idx]
        elif k == "rlemask":
            m = np.array(case["m"], dtype=bool)
            idx = RunLengthArray.from_array(m)
            exp = a[m]
        elif k == "rlemask-cmp":
            # a run-length mask as a comparison produces it: one run per position, neighbouring runs may hold the same truth value
            m = np.array(case["m"], dtype=bool)
            y = np.array([(i + 1) if b else -(i + 1) for i, b in enumerate(case["m"])], dtype=np.int64)
            idx = RunLengthArray.from_array(y) > 0
            exp = a[m]
        else:
            starts, stops = np.array(case["starts"], dtype=np.int64), np.array(case["stops"], dtype=np.int64)
            idx = slice(starts, stops)
            exp = [a[s:e] for s, e in zip(case["starts"], case["stops"])]
        try:
            res = r[idx]
            if k == "ragged":
                if not isinstance(res, RunLengthRaggedArray):
                    return {"msg": f"{what}: result is a {type(res).__name__}, expected a RunLengthRaggedArray", "sig": "kind:" + tag}
                dec = res.to_array()
                rows = [np.asarray(row) for row in dec]
            elif isinstance(res, RunLengthArray):
                dec = np.asarray(res)
            else:
                dec = res
        except Exception as e:
            return {"msg": f"{what}: expected {_show_exp(exp)}, raised {type(e).__name__}: {e}",
                    "sig": f"raised:{type(e).__name__}:{tag}"}
        if k == "ragged":
            ok = len(rows) == len(exp) and all(U.same(g, x) for g, x in zip(rows, exp))
            if not ok:
                return {"msg": f"{what}: expected rows {_show_exp(exp)}, got {[g.tolist() for g in rows]}", "sig": "wrong:" + tag}
            return None
        # kind of the result
        if k == "slice" and not isinstance(res, RunLengthArray):
            return {"msg": f"{what}: result is a {type(res).__name__}, expected a RunLengthArray", "sig": "kind:" + tag}
        if k == "int" and (isinstance(res, RunLengthArray) or np.ndim(res) != 0):
            return {"msg": f"{what}: result {res!r} is not a scalar", "sig": "kind:" + tag}
        if k in ("list", "array") and not (isinstance(res, np.ndarray) and res.ndim == 1):
            return {"msg": f"{what}: result {res!r} is not a dense 1-D array", "sig": "kind:" + tag}
        if k in ("mask", "rlemask") and not (isinstance(res, RunLengthArray) or (isinstance(res, np.ndarray) and res.ndim == 1)):
            return {"msg": f"{what}: result {res!r} is neither a dense 1-D array nor a RunLengthArray", "sig": "kind:" + tag}
        if not U.same(dec, exp):
            return {"msg": f"{what}: expected {_show_exp(exp)}, got {U.show(np.asarray(dec))}", "sig": "wrong:" + tag}
    return None


def _show_exp(exp):
    if isinstance(exp, list):
        return str([x.tolist() for x in exp])
    return U.show(exp)
